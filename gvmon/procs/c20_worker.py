"""
One importer (or reader) process of the C20 workload.   python -m gvmon.procs.c20_worker <args.json>

Instruments itself without touching the repository: an audit hook logs every temp-directory path this process opens,
creates or removes; a sys.monitoring PY_START hook on the nested generators that run between writing and re-reading
gffutils' intermediate file (relations_generator / derived_feature_generator) acts as a barrier failpoint.
"""
import glob
import json
import os
import sys
import time


def main():
    args = json.load(open(sys.argv[1]))
    tmpdir = os.path.realpath(os.environ["TMPDIR"])
    log = []
    state = {"barrier": None}

    def hook(event, a):
        try:
            if event == "open":
                p = a[0]
                if isinstance(p, str) and os.path.realpath(os.path.dirname(p) or ".") == tmpdir:
                    log.append(["open", os.path.basename(p), str(a[1]), time.time()])
            elif event == "os.remove":
                p = a[0]
                if isinstance(p, str) and os.path.realpath(os.path.dirname(p) or ".") == tmpdir:
                    log.append(["remove", os.path.basename(p), "", time.time()])
            elif event == "tempfile.mkstemp":
                p = a[0]
                if isinstance(p, str):
                    log.append(["mkstemp", os.path.basename(p), "", time.time()])
        except Exception:
            pass

    sys.addaudithook(hook)
    from gvmon import env
    env.prepare()
    import gffutils

    if args["role"] == "reader":
        # wait for the common start signal, then read everything through gffutils
        wait_for(args["barrier_dir"], args["n"], "r%d" % os.getpid(), 20)
        db = gffutils.FeatureDB(args["db"])
        feats = [[f.id, str(f)] for f in db.all_features()]
        # region / limit queries are reads too
        seqids = sorted(set(f[1].split("\t")[0] for f in feats))
        region_hits = {}
        for sid in seqids[:4]:
            region_hits[sid] = [sorted(f.id for f in db.region((sid, 1, 10 ** 7), completely_within=True)),
                                sorted(f.id for f in db.region(seqid=sid, start=1, end=10 ** 7)),
                                sorted(f.id for f in db.all_features(limit=(sid, 1, 10 ** 7), completely_within=True))]
        rel = sorted(list(map(list, db.execute("SELECT parent, child, level FROM relations"))))
        kids = {f[0]: sorted(c.id for c in db.children(f[0])) for f in feats[:50]}
        out = {"features": feats, "relations": rel, "children": kids, "directives": list(db.directives), "region_hits": region_hits,
               "dialect": db.dialect, "count": db.count_features_of_type()}
        json.dump(out, open(args["out"], "w"))
        return 0

    if args["role"] == "failer":
        # an import that is going to fail (duplicate ids under the default strategy), started once all healthy
        # importers hold a live intermediate file; they are released only after it has failed
        deadline = time.time() + 30
        while time.time() < deadline and len(glob.glob(os.path.join(args["barrier_dir"], "*.arrived"))) < args["n"]:
            time.sleep(0.002)
        err = None
        try:
            gffutils.create_db(args["input"], args["out_db"]).conn.close()
        except BaseException as ex:
            err = repr(ex)
        open(args["marker"], "w").close()
        json.dump({"pid": os.getpid(), "log": log, "barrier": None, "error": err, "failer": True}, open(args["result"], "w"))
        return 0

    if args["role"] == "forkpool":
        # a parent process that has imported and used gffutils forks its workers (multiprocessing's default start method on
        # Linux): whatever module-level state exists is inherited by every child
        gffutils.create_db("chr1\ts\tgene\t1\t9\t.\t+\t.\tID=warm;Parent=x\nchr1\ts\tmRNA\t1\t9\t.\t+\t.\tID=warm2;Parent=warm\n"
                           "chr1\ts\texon\t1\t9\t.\t+\t.\tID=warm3;Parent=warm2\n", ":memory:", from_string=True).conn.close()
        pdir = args.get("parent_dir")
        for action in args.get("parent_actions", []):
            # ordinary use of the library in the parent before forking; everything it touches is the parent's own
            try:
                wf = os.path.join(pdir, "warm_%d.db" % len(os.listdir(pdir)))
                gffutils.create_db("chr1\ts\tgene\t1\t9\t.\t+\t.\tID=w\nchr1\ts\tmRNA\t1\t9\t.\t+\t.\tID=w2;Parent=w\n", wf,
                                   from_string=True).conn.close()
                h = gffutils.FeatureDB(wf)
                if action == "set_pragmas journal_mode=WAL":
                    h.set_pragmas({"journal_mode": "WAL"})
                elif action == "set_pragmas query_only=ON":
                    h.set_pragmas({"query_only": "ON"})
                elif action == "switch toggled and restored":
                    from gffutils import constants
                    constants.ignore_url_escape_characters = True
                    [str(f) for f in h.all_features()]
                    constants.ignore_url_escape_characters = False
                elif action == "update and delete":
                    h.update("chr1\ts\texon\t1\t9\t.\t+\t.\tID=w3;Parent=w2\n", from_string=True, make_backup=False)
                    h.delete("w3", make_backup=False)
                elif action == "failed import":
                    try:
                        gffutils.create_db("chr1\ts\tgene\t1\t9\t.\t+\t.\tID=d\nchr1\ts\tgene\t1\t9\t.\t+\t.\tID=d\n",
                                           os.path.join(pdir, "failed.db"), from_string=True)
                    except Exception:
                        pass
                h.conn.close()
            except Exception:
                pass
        if args.get("shared_input"):
            # ONE DataIterator object made before the fork; every child imports from it
            from gffutils.iterators import DataIterator
            state["shared_it"] = DataIterator(args["shared_input"])
        parent_log = list(log)
        del log[:]
        pids = []
        for child_args in args["children"]:
            pid = os.fork()
            if pid == 0:
                del log[:]
                state["barrier"] = None
                code = 1
                try:
                    run_importer(child_args, gffutils, log, state, tmpdir)
                    code = 0
                finally:
                    os._exit(code)
            pids.append(pid)
        for pid in pids:
            os.waitpid(pid, 0)
        json.dump({"pid": os.getpid(), "log": parent_log}, open(args["result"], "w"))
        return 0

    return run_importer(args, gffutils, log, state, tmpdir)


def run_importer(args, gffutils, log, state, tmpdir):
    import gc
    gc.disable()
    mon = sys.monitoring
    tool = 4
    try:
        mon.use_tool_id(tool, "gvmon-c20")
    except ValueError:
        pass
    targets = ("relations_generator", "derived_feature_generator")

    def on_start(code, offset):
        if code.co_name in targets and code.co_filename.endswith("create.py") and state["barrier"] is None:
            seen_at_arrival = sorted(os.path.basename(p) for p in glob.glob(os.path.join(tmpdir, "*.gffutils")))
            timed_out = False
            if args.get("barrier"):
                timed_out = wait_for(args["barrier_dir"], args["n"], str(os.getpid()), args.get("barrier_timeout", 20))
                if args.get("wait_marker"):
                    deadline = time.time() + 30
                    while time.time() < deadline and not os.path.exists(args["wait_marker"]):
                        time.sleep(0.002)
            seen_at_release = sorted(os.path.basename(p) for p in glob.glob(os.path.join(tmpdir, "*.gffutils")))
            state["barrier"] = {"arrival": seen_at_arrival, "release": seen_at_release, "timed_out": timed_out,
                                "where": code.co_name}
        return mon.DISABLE

    events = mon.events.PY_START
    mon.register_callback(tool, mon.events.PY_START, on_start)
    park = args.get("park")
    parked = {"lines": [], "done": False, "at": None}
    if park:
        # statement-level parking: this importer stops at the k-th distinct line of the named gffutils function until the
        # neighbour has finished its whole import (or a generous timeout passes)
        def on_line(code, line):
            if code.co_name != park["function"] or not code.co_filename.endswith("create.py"):
                return mon.DISABLE
            if parked["done"]:
                return mon.DISABLE
            if line not in parked["lines"]:
                parked["lines"].append(line)
                if len(parked["lines"]) == park["line_index"]:
                    parked["done"] = True
                    parked["at"] = line
                    deadline = time.time() + 40
                    while time.time() < deadline and not os.path.exists(park["marker"]):
                        time.sleep(0.002)
                    parked["released_by_marker"] = os.path.exists(park["marker"])
            return None

        mon.register_callback(tool, mon.events.LINE, on_line)
        events = events | mon.events.LINE
    mon.set_events(tool, events)
    if not args.get("barrier"):
        time.sleep(args.get("offset_ms", 0) / 1000.0)

    for job in args.get("pre_jobs", []):
        # earlier jobs of this worker process (a pool worker runs a list of jobs): whatever they did stays their own
        try:
            if job == "gtf with custom keys":
                gffutils.create_db('chr1\ts\texon\t1\t9\t.\t+\t.\tgid "pg1"; tid "pt1";\nchr1\ts\texon\t20\t29\t.\t+\t.\tgid "pg1"; tid "pt1";\n',
                                   ":memory:", from_string=True, gtf_gene_key="gid", gtf_transcript_key="tid").conn.close()
            elif job == "file with directives":
                gffutils.create_db("##gff-version 3\n##sequence-region chrP 1 1000\n##earlier-job directive\nchrP\ts\tgene\t1\t9\t.\t+\t.\tID=pj1\n",
                                   ":memory:", from_string=True).conn.close()
            elif job == "failed import":
                try:
                    gffutils.create_db("chr1\ts\tgene\t1\t9\t.\t+\t.\tID=d\nchr1\ts\tgene\t1\t9\t.\t+\t.\tID=d\n", ":memory:", from_string=True)
                except Exception:
                    pass
            elif job == "pragmas and switches":
                from gffutils import constants
                constants.always_return_list = False
                constants.ignore_url_escape_characters = True
                try:
                    [str(f) for f in gffutils.DataIterator("chr1\ts\tgene\t1\t9\t.\t+\t.\tID=a%3Bb;Note=x\n", from_string=True)]
                finally:
                    constants.always_return_list = True
                    constants.ignore_url_escape_characters = False
        except Exception:
            pass
    if args.get("start_after_arrivals"):
        deadline = time.time() + 30
        while time.time() < deadline and len(glob.glob(os.path.join(args["barrier_dir"], "*.arrived"))) < args["start_after_arrivals"]:
            time.sleep(0.002)
    t0 = time.time()
    err = None
    kw = {"force": True} if args.get("force") else {}
    if args.get("merge_strategy"):
        kw["merge_strategy"] = args["merge_strategy"]
    if args.get("no_inference"):
        kw.update({"disable_infer_genes": True, "disable_infer_transcripts": True})
    try:
        if args.get("from_db"):
            src = gffutils.FeatureDB(args["from_db"])
            db = gffutils.create_db(src, args["out_db"], **kw)
            src.conn.close()
        elif args.get("shared_iterator"):
            db = gffutils.create_db(state["shared_it"], args["out_db"], **kw)
        elif args.get("from_string"):
            data = open(args["input"], encoding="utf-8").read()
            db = gffutils.create_db(data, args["out_db"], from_string=True, **kw)
        else:
            db = gffutils.create_db(args["input"], args["out_db"], **kw)
        db.conn.close()
        del db
    except BaseException as ex:
        err = repr(ex)
    mon.set_events(tool, 0)
    # the import has finished (this process is still alive, the garbage collector has been off all along - what a worker
    # that ends through os._exit, or a long-lived server, is left with): which of the temp files this process created are
    # still there?
    mine = set(name for ev, name, mode, t in log if ev == "mkstemp")
    still_there = sorted(n for n in mine if os.path.exists(os.path.join(tmpdir, n)))
    json.dump({"pid": os.getpid(), "log": log, "barrier": state["barrier"], "error": err, "t0": t0, "t1": time.time(),
               "still_there_after_import": still_there, "parked_at_line": parked["at"], "parked": parked.get("released_by_marker")},
              open(args["result"], "w"))
    if args.get("done_marker"):
        open(args["done_marker"], "w").close()
    return 0


def wait_for(bdir, n, name, timeout):
    open(os.path.join(bdir, name + ".arrived"), "w").close()
    deadline = time.time() + timeout
    while time.time() < deadline:
        if len(glob.glob(os.path.join(bdir, "*.arrived"))) >= n:
            return False
        time.sleep(0.002)
    return True


if __name__ == "__main__":
    sys.exit(main())
