"""
Child process of C08's termination class.   python -m gvmon.procs.c08_parse <strings.json>
Parses every string (inferring parser and through feature_from_line); prints the index of the string it is about to
parse and, afterwards, the CPU time it took (milliseconds of this process, so machine load does not count).
"""
import json
import sys


def main():
    from gvmon import env
    env.prepare()
    from gffutils import parser
    from gffutils.feature import feature_from_line

    items = json.load(open(sys.argv[1]))
    out = sys.__stdout__
    import time
    for i, (s, d) in enumerate(items):
        out.write("start %d\n" % i)
        out.flush()
        t = time.process_time()
        parser._split_keyvals(s, dialect=dict(d) if d else None)
        f = feature_from_line("chr1\t.\tgene\t1\t2\t.\t+\t.\t" + s, dialect=dict(d) if d else None)
        str(f)
        out.write("end %d %d\n" % (i, int((time.process_time() - t) * 1000)))
    out.write("done\n")
    out.flush()
    return 0


if __name__ == "__main__":
    sys.exit(main())
