"""
pytest plugin: runs the repository's own tests with every gvmon contract installed (false-alarm screen).
    cd /repo && PYTHONPATH=/repo:/verif:/verif/.deps /venv/bin/python -m pytest -p gvmon.pytest_contracts -q ...
A contract that fires there is either too strict or a defect the tests do not assert: the report lists test + witness.
"""
import json
import os

from gvmon.monitors import contracts

REPORT = []


def pytest_configure(config):
    contracts.install_all()
    try:
        contracts.install_autoid()
    except Exception:
        pass


def pytest_runtest_teardown(item, nextitem):
    for v in contracts.drain():
        REPORT.append({"test": item.nodeid, "violation": v})


def pytest_sessionfinish(session, exitstatus):
    out = os.environ.get("GVMON_CONTRACT_REPORT")
    data = {"evaluations": dict(contracts.EVALS), "fired": REPORT}
    if out:
        with open(out, "w") as fh:
            json.dump(data, fh, indent=1)
    print("\ngvmon contracts: evaluations=%s fired=%d" % (dict(contracts.EVALS), len(REPORT)))
