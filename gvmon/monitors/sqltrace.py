"""
Statement trace + authorizer log for every sqlite3 connection opened in this
process after install() -- in particular the ones gffutils opens itself.
"""
import sqlite3
from collections import Counter

ORIG_CONNECT = sqlite3.connect
LOG = []          # (conn serial, expanded statement)
AUTH = []         # (conn serial, action code, arg1, arg2)
CONNS = []        # weak bookkeeping: serial -> connection
_serial = [0]
_installed = [False]

# authorizer action codes that do not modify the database
READ_ACTIONS = {sqlite3.SQLITE_READ, sqlite3.SQLITE_SELECT, sqlite3.SQLITE_FUNCTION, 33}  # 33 = SQLITE_RECURSIVE
WRITE_NAMES = {
    1: "CREATE_INDEX", 2: "CREATE_TABLE", 3: "CREATE_TEMP_INDEX", 4: "CREATE_TEMP_TABLE", 5: "CREATE_TEMP_TRIGGER",
    6: "CREATE_TEMP_VIEW", 7: "CREATE_TRIGGER", 8: "CREATE_VIEW", 9: "DELETE", 10: "DROP_INDEX", 11: "DROP_TABLE",
    12: "DROP_TEMP_INDEX", 13: "DROP_TEMP_TABLE", 14: "DROP_TEMP_TRIGGER", 15: "DROP_TEMP_VIEW", 16: "DROP_TRIGGER",
    17: "DROP_VIEW", 18: "INSERT", 19: "PRAGMA", 20: "READ", 21: "SELECT", 22: "TRANSACTION", 23: "UPDATE",
    24: "ATTACH", 25: "DETACH", 26: "ALTER_TABLE", 27: "REINDEX", 28: "ANALYZE", 29: "CREATE_VTABLE",
    30: "DROP_VTABLE", 31: "FUNCTION", 32: "SAVEPOINT", 33: "RECURSIVE",
}


class TracedConnection(sqlite3.Connection):
    def __init__(self, *a, **kw):
        super().__init__(*a, **kw)
        _serial[0] += 1
        self.gv_serial = _serial[0]
        n = self.gv_serial

        def trace(stmt, n=n):
            LOG.append((n, stmt))

        def auth(action, a1, a2, dbname, source, n=n):
            AUTH.append((n, action, a1, a2))
            return sqlite3.SQLITE_OK

        self.set_trace_callback(trace)
        self.set_authorizer(auth)


def connect(*a, **kw):
    kw.setdefault("factory", TracedConnection)
    return ORIG_CONNECT(*a, **kw)


def install():
    if _installed[0]:
        return
    _installed[0] = True
    sqlite3.connect = connect


def reset():
    del LOG[:]
    del AUTH[:]


def first_word(stmt):
    s = stmt.lstrip().lstrip("-").lstrip()
    return s.split(None, 1)[0].upper() if s.split() else ""


def kinds(serial=None):
    """Counter of statement kinds ('INSERT INTO features', 'SELECT', ...)."""
    c = Counter()
    for n, stmt in LOG:
        if serial is not None and n != serial:
            continue
        w = stmt.split()
        if not w:
            continue
        head = w[0].upper()
        if head == "INSERT" and "INTO" in [x.upper() for x in w[:4]]:
            idx = [x.upper() for x in w].index("INTO")
            c["INSERT INTO " + w[idx + 1].split("(")[0]] += 1
        elif head in ("UPDATE",):
            c["UPDATE " + w[1]] += 1
        elif head == "DELETE":
            c["DELETE FROM " + w[2]] += 1
        else:
            c[head] += 1
    return c


def writes(serial=None, since_log=0, since_auth=0):
    """Evidence of writing: (statements whose first keyword is not SELECT/PRAGMA-read/BEGIN/COMMIT, write authorizer actions)."""
    bad_stmts = []
    for n, stmt in LOG[since_log:]:
        if serial is not None and n != serial:
            continue
        w = first_word(stmt)
        if w in ("SELECT", "BEGIN", "COMMIT", "ROLLBACK", "EXPLAIN", ""):
            continue
        if w == "PRAGMA" and "=" not in stmt:
            continue
        bad_stmts.append(stmt[:200])
    bad_auth = []
    for n, action, a1, a2 in AUTH[since_auth:]:
        if serial is not None and n != serial:
            continue
        if action in READ_ACTIONS:
            continue
        if action == sqlite3.SQLITE_PRAGMA and a2 is None:
            continue  # read form of a pragma
        if action == sqlite3.SQLITE_TRANSACTION:
            continue
        bad_auth.append((WRITE_NAMES.get(action, action), a1, a2))
    return bad_stmts, bad_auth
