"""
Runtime contracts attached to the real gffutils functions from the harness
(no source edit).  Conditions *record* and return True, so that a broken
contract never changes the control flow of the code under observation; the
driver drains `VIOLATIONS` after every case.  Every condition counts its
evaluations in `EVALS`; zero evaluations of a deciding contract = inconclusive.
"""
from collections import Counter

import icontract

from gvmon.models import binspec

EVALS = Counter()
VIOLATIONS = []
_installed = set()


class ContractBroken(Exception):
    pass


def _record(name, why, **ctx):
    if len(VIOLATIONS) < 200:
        VIOLATIONS.append({"contract": name, "why": why, "args": {k: repr(v)[:200] for k, v in ctx.items()}})


def drain():
    out = list(VIOLATIONS)
    del VIOLATIONS[:]
    return out


# -- C12: bins.bins postcondition ------------------------------------------
def bins_post(start, stop, fmt, one, result):
    EVALS["bins.bins"] += 1
    why = binspec.check_call(start, stop, fmt, one, result)
    if why:
        _record("bins.bins", why, start=start, stop=stop, fmt=fmt, one=one)
    return True


def install_bins():
    if "bins" in _installed:
        return
    _installed.add("bins")
    from gffutils import bins as B

    B.bins = icontract.ensure(bins_post, error=ContractBroken)(B.bins)


# -- C11: make_query placeholders == args ------------------------------------
def make_query_post(result):
    EVALS["helpers.make_query"] += 1
    try:
        query, args = result
        if query.count("?") != len(args):
            _record("helpers.make_query", "%d placeholders but %d args" % (query.count("?"), len(args)),
                    query=query, args=args)
    except Exception as e:  # pragma: no cover
        _record("helpers.make_query", "unexpected result shape: %r" % (e,))
    return True


def install_make_query():
    if "make_query" in _installed:
        return
    _installed.add("make_query")
    from gffutils import helpers as H

    H.make_query = icontract.ensure(make_query_post, error=ContractBroken)(H.make_query)


# -- C17: Attributes invariant ------------------------------------------------
def attributes_values_are_sequences(self):
    EVALS["Attributes.invariant"] += 1
    try:
        d = self._d
    except AttributeError:
        return True
    for k, v in d.items():
        if not isinstance(v, (list, tuple)):
            _record("Attributes.invariant", "value stored for key %r is %s, not a list/tuple" % (k, type(v).__name__))
            break
    return True


def install_attributes():
    """Invariant on the real Attributes class; rebinding every `dict_class` reference."""
    if "attributes" in _installed:
        return
    _installed.add("attributes")
    from gffutils import attributes as A

    # icontract.invariant decorates the class in place (wraps its public methods)
    icontract.invariant(attributes_values_are_sequences, error=ContractBroken)(A.Attributes)


# -- C08: _reconstruct never emits TAB/CR/LF for gff3 dialects ----------------
def reconstruct_post(keyvals, dialect, result):
    EVALS["parser._reconstruct"] += 1
    try:
        if isinstance(result, str) and dialect and dialect.get("fmt") == "gff3":
            from gffutils import constants

            if not constants.ignore_url_escape_characters:
                for ch in "\t\n\r":
                    if ch in result:
                        _record("parser._reconstruct", "gff3 attribute string contains %r" % ch,
                                keyvals=dict(keyvals), result=result)
                        break
    except Exception:
        pass
    return True


def install_reconstruct():
    if "reconstruct" in _installed:
        return
    _installed.add("reconstruct")
    from gffutils import parser as P

    P._reconstruct = icontract.ensure(reconstruct_post, error=ContractBroken)(P._reconstruct)


def install_all():
    install_bins()
    install_make_query()
    install_attributes()
    install_reconstruct()


# -- C04: _DBCreator._increment_featuretype_autoid ---------------------------
# (not part of install_all: owned by C04/C05, which install it explicitly)
import weakref

_AUTOID_RETURNED = weakref.WeakKeyDictionary()   # creator object (= one import) -> keys handed out so far


def autoid_before(self, key):
    try:
        return dict.get(self._autoincrements, key, 0)
    except Exception:
        return None


def autoid_counter_advances_by_one_and_key_is_fresh(self, key, result, OLD):
    EVALS["autoid"] += 1
    try:
        before = OLD.before
        after = dict.get(self._autoincrements, key, 0)
        if before is None or after != before + 1:
            _record("_increment_featuretype_autoid", "counter of base %r went %r -> %r (must advance by exactly one)"
                    % (key, before, after), key=key, result=result)
        elif result != "%s_%s" % (key, after):
            _record("_increment_featuretype_autoid", "returned %r, counter of base %r is %r" % (result, key, after),
                    key=key, result=result)
        seen = _AUTOID_RETURNED.setdefault(self, set())
        if result in seen:
            _record("_increment_featuretype_autoid", "key %r handed out twice within one import" % (result,),
                    key=key, result=result)
        seen.add(result)
    except Exception as e:  # pragma: no cover
        _record("_increment_featuretype_autoid", "contract could not be evaluated: %r" % (e,))
    return True


def install_autoid():
    if "autoid" in _installed:
        return
    _installed.add("autoid")
    from gffutils import create as C

    f = C._DBCreator._increment_featuretype_autoid
    f = icontract.ensure(autoid_counter_advances_by_one_and_key_is_fresh, error=ContractBroken)(f)
    f = icontract.snapshot(autoid_before, name="before")(f)
    C._DBCreator._increment_featuretype_autoid = f
