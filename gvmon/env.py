"""
Locates the tree under test and makes sure that is what gets imported.
"""
import os
import sys
import warnings

_prepared = False
REAL_STDERR = sys.stderr


def prepare():
    """Quiet the code under test and assert gffutils comes from $GFFUTILS_REPO."""
    global _prepared, REAL_STDERR
    if _prepared:
        return
    _prepared = True
    repo = os.path.realpath(os.environ.get("GFFUTILS_REPO", "/repo"))
    # create_db writes progress to sys.stderr unconditionally for GTF input and
    # gffutils' loggers bind a StreamHandler at import time: give them a sink.
    REAL_STDERR = sys.stderr
    sys.stderr = open(os.devnull, "w")
    warnings.simplefilter("ignore")
    import gffutils

    where = os.path.realpath(gffutils.__file__)
    if not where.startswith(repo + os.sep):
        REAL_STDERR.write("gffutils imported from %s, not from %s\n" % (where, repo))
        raise SystemExit(2)
    import logging

    logging.disable(logging.CRITICAL)
    return gffutils


def log(msg):
    REAL_STDERR.write(str(msg) + "\n")
    REAL_STDERR.flush()
