"""Builds MANIFEST.json from the per-check metadata and validates it."""
import importlib
import json
import os
import sys

HERE = os.path.dirname(os.path.dirname(os.path.abspath(__file__)))
ALL = ["C%02d" % i for i in range(1, 21)]


def main():
    checks, na = [], []
    na_file = os.path.join(HERE, "gvmon", "not_applicable.json")
    na_reasons = json.load(open(na_file)) if os.path.exists(na_file) else {}
    for pid in ALL:
        if pid in na_reasons:
            na.append({"property_id": pid, "reason": na_reasons[pid]})
            continue
        try:
            mod = importlib.import_module("gvmon.checks.%s" % pid)
        except ModuleNotFoundError:
            na.append({"property_id": pid, "reason": "check not built yet (work in progress); no claim is made"})
            continue
        m = mod.MANIFEST
        checks.append({
            "property_id": pid,
            "quick_cmd": "bin/check %s --tier quick" % pid,
            "thorough_cmd": "bin/check %s --tier thorough" % pid,
            "evidence_file": "/verif/evidence/%s.json" % pid,
            "replay_cmd_template": "bin/check %s --replay {path}" % pid,
            "engine": "gvmon",
            "level_claimed": {"category": getattr(mod, "LEVEL", "exploration"), "text": m["text"],
                              "design_ref": m.get("design_ref", "DESIGN.md section 4, %s" % pid)},
            "level_note": m["note"],
            "technique": m["technique"],
        })
    man = {
        "version": 1,
        "setup_cmd": "bin/setup",
        "hooks": {
            "guard": "GFFUTILS_VERIF",
            "enable": "no source hooks exist: every monitor (icontract postconditions/invariants, sqlite3 trace/authorizer "
                      "factory, sys.monitoring reach counters and barriers, audit hooks) is attached from the harness at run "
                      "time to the unmodified working tree that bin/check puts first on PYTHONPATH",
            "baseline_off_cmd": "cd /repo && /venv/bin/python -m pytest -ra -q -p no:cacheprovider --timeout=900 --continue-on-collection-errors",
            "source_commits": [],
            "add_only": True,
        },
        "engines": [{
            "name": "gvmon", "path": "/verif/gvmon",
            "serves_properties": [c["property_id"] for c in checks],
            "kind_free_text": "runtime monitoring: generated/hostile workloads driven through the real gffutils code in "
                              "sharded subprocesses; oracles are independent reference models, icontract contracts on the "
                              "real functions, and offline checkers over recorded SQL / file-event logs",
        }],
        "checks": checks,
        "not_applicable": na,
        "notes": "bin/check <ID> [--tier quick|thorough] [--replay file]; exit 0 held / 1 violation / 2 inconclusive. "
                 "VERIF_SEED and VERIF_TIER are honoured; GFFUTILS_REPO selects the tree under test (default /repo). "
                 "Known findings: /verif/known_findings.json.",
    }
    out = os.path.join(HERE, "MANIFEST.json")
    with open(out, "w") as fh:
        json.dump(man, fh, indent=1)
        fh.write("\n")
    try:
        import jsonschema
        jsonschema.validate(man, json.load(open("/root/.vp/MANIFEST.schema.json")))
        print("MANIFEST.json valid: %d checks, %d not_applicable" % (len(checks), len(na)))
    except ImportError:
        print("MANIFEST.json written (jsonschema not importable here)")


if __name__ == "__main__":
    sys.exit(main())
