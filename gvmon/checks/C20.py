"""
C20  Concurrent imports are independent and leave no temp files; concurrent readers see the full content.

N child interpreters (subprocess.Popen, per-case watchdog) import into separate output files sharing one TMPDIR.
A sys.monitoring barrier failpoint inside each child forces all of them to hold a live intermediate file at the
same time; an audit hook logs every temp path each child touches; inotifywait watches the directory independently.
Offline checker over the recorded logs + content dumps compared with solitary imports.
"""
import glob
import json
import os
import random
import shutil
import subprocess
import sys
import time

from gvmon import dbdump
from gvmon.gen import genemodels as G

RULE = ("runs of N in {2,4,8,16} (thorough also 24 and 40 > core count) concurrent create_db processes sharing one empty "
        "TMPDIR: inputs all-same / all-different / GFF3+GTF mixes, given by path or as from_string text; with the barrier "
        "failpoint (all N hold a live intermediate file simultaneously) and free-running with start offsets 0-50 ms; reader "
        "runs: R in {2,8,32} processes read one finished database while an import runs beside them; non-trivial = run with "
        ">= 2 simultaneously live intermediates (or >= 2 concurrent readers); distinct by (N, mix, input form, barrier, overlap pattern)")
REQUIRED = ["concurrent runs", "importer processes", "outputs compared with solitary import", "runs with overlap >= 2",
            "temp paths attributed to exactly one pid", "intermediate files created", "intermediate files removed",
            "reader processes", "barrier arrivals", "runs with a failing neighbour import", "runs with very large inputs",
            "runs with importers forked from one parent that had already used gffutils",
            "importers parked at a statement while a neighbour ran a whole import", "parks released by the neighbour's completion",
            "runs with prefix-related output names over stale files, force=True and a late starter",
            "runs in which forked importers share one DataIterator object made by the parent",
            "runs whose importer processes each had their own PYTHONHASHSEED", "stored row order compared with solitary import",
            "runs importing inputs with repeated lines under merge_strategy=warning",
            "runs with GTF importers that have gene and transcript inference switched off",
            "importer processes had run an earlier job: gtf with custom keys", "importer processes had run an earlier job: file with directives",
            "runs whose importers take a finished database (FeatureDB) as data",
            "runs whose importers pass non-default create_db options", "importer processes with a truthy verbose option",
            "GTF importer processes with a truthy verbose option"]
ASSUMPTIONS = [
    "overlap is forced at the one point where gffutils holds an intermediate file (between writing and re-reading it); other "
    "interleavings are left to the scheduler (free-running runs with start offsets are included so the barrier cannot mask a failure)",
    "a run whose observed overlap is < 2 is not counted as evidence (and the whole check is inconclusive if no run overlaps)",
    "inotifywait is an additional, independent event source; if it cannot start the audit-hook logs alone decide",
    "'what a solitary run produces' includes the order in which rows are stored (unordered queries return it): imports started with "
    "different PYTHONHASHSEED values are compared row by row with a solitary import",
]
QUICK_SHARDS = 4
THOROUGH_SHARDS = 4
TIMEOUT = {"quick": 900, "thorough": 3 * 3600}
HERE = os.path.dirname(os.path.dirname(os.path.dirname(os.path.abspath(__file__))))


# (function of gffutils/create.py, number of leading distinct statements at which an importer is parked)
# what the forking parent did with the library before it forked its importers
PARENT_ACTIONS = ["set_pragmas journal_mode=WAL", "set_pragmas query_only=ON", "switch toggled and restored", "update and delete",
                  "failed import"]
# earlier jobs a worker process may have run before the judged import
PRE_JOBS = ["gtf with custom keys", "file with directives", "failed import", "pragmas and switches"]
PARK_FUNCTIONS = [("_update_relations", 30), ("_finalize", 10), ("_populate_from_lines", 8)]


def setup(ctx):
    from gvmon import env
    env.prepare()


def annotation(seed, fmt, size):
    rng = random.Random(seed)
    genes = G.models(rng, ngenes=size, prefix="s%d" % (seed % 1000))
    return G.gff3(genes, rng) if fmt == "gff3" else G.gtf(genes, rng)


def huge_annotation(seed):
    """A GFF3 whose import has ~2*10^5 second-level relations spread over several top-level features."""
    rng = random.Random(seed)
    lines = ["##gff-version 3"]
    pos = 1
    for g in range(6):
        lines.append("chr1\tsrc\tgene\t%d\t%d\t.\t+\t.\tID=hg%d" % (pos, pos + 4000000, g))
        for t in range(6):
            lines.append("chr1\tsrc\tmRNA\t%d\t%d\t.\t+\t.\tID=hg%d.t%d;Parent=hg%d" % (pos, pos + 4000000, g, t, g))
            for e in range(5000):
                s = pos + 600 * e + rng.randrange(0, 50)
                lines.append("chr1\tsrc\texon\t%d\t%d\t.\t+\t.\tID=hg%d.t%d.e%d;Parent=hg%d.t%d" % (s, s + 100, g, t, e, g, t))
        pos += 5000000
    return "\n".join(lines) + "\n"


# create_db options a caller may pass that are not about the data: an import run with them is still "a create_db run" of the
# statement (same database as a solitary run WITH THE SAME OPTIONS, nothing left in the shared temp directory)
OPTION_SETS = [{"verbose": True}, {"verbose": "debug"}, {"verbose": True, "keep_order": True},
               {"verbose": "debug", "sort_attribute_values": True}, {"verbose": 1, "checklines": 3}]

# Starts the ordinary worker, but the judged import (the create_db call whose output is this importer's out_db) gets the
# caller-level keyword options of the case in addition to the worker's own.  Nothing of gffutils is replaced: only the
# call the worker makes is given more keyword arguments.
_LAUNCHER = r"""
import json, sys
args = json.load(open(sys.argv[1]))
extra = {}
for a in [args] + list(args.get("children") or []):
    if a.get("create_kwargs"):
        extra[a["out_db"]] = a["create_kwargs"]
from gvmon.procs import c20_worker
if extra:
    from gvmon import env
    env.prepare()
    import gffutils
    _orig = gffutils.create_db
    def create_db(data, dbfn, *a, **kw):
        more = extra.get(dbfn) if isinstance(dbfn, str) else None
        if more:
            kw = dict(more, **kw)
        return _orig(data, dbfn, *a, **kw)
    gffutils.create_db = create_db
sys.exit(c20_worker.main())
"""


def spawn(argsfile, tmpdir, hashseed=None, options=False):
    env = dict(os.environ)
    env["TMPDIR"] = tmpdir
    if hashseed is not None:
        env["PYTHONHASHSEED"] = str(hashseed)      # separately started processes do not share a string-hash seed
    cmd = [sys.executable, "-c", _LAUNCHER, argsfile] if options else [sys.executable, "-m", "gvmon.procs.c20_worker", argsfile]
    return subprocess.Popen(cmd, env=env, cwd=HERE, stdout=subprocess.DEVNULL, stderr=subprocess.PIPE)


_solo_cache = {}
_PATTERNS = set()
_PARKS = set()


def ordered_rows(path):
    import sqlite3
    conn = sqlite3.connect("file:%s?mode=ro" % path, uri=True)
    try:
        return [list(r) for r in conn.execute("SELECT parent, child, level FROM relations ORDER BY rowid")] + \
               [[r[0]] for r in conn.execute("SELECT id FROM features ORDER BY rowid")]
    finally:
        conn.close()


def file_state(path):
    """What a finished import leaves on disk besides content: journal mode recorded in the file, side files next to it."""
    side = sorted(sfx for sfx in ("-wal", "-shm", "-journal") if os.path.exists(path + sfx))
    with open(path, "rb") as fh:
        head = fh.read(20)
    # bytes 18/19 of the header: file format write/read version (1 = rollback journal, 2 = WAL)
    return {"side_files": side, "format_versions": [head[18], head[19]] if len(head) >= 20 else None}


def solitary(ctx, root, text, from_string, strategy=None, no_inference=False, from_db=False, options=None):
    """Content dump of a solitary import of this input (done in this process, with its own temp directory)."""
    import gffutils

    key = (text, from_string, strategy, no_inference, from_db, json.dumps(options, sort_keys=True) if options else None)
    skw = {"merge_strategy": strategy} if strategy else {}
    if options:
        skw.update(options)
    if no_inference:
        skw.update({"disable_infer_genes": True, "disable_infer_transcripts": True})
    if key in _solo_cache:
        return _solo_cache[key]
    out = ctx.tmp(".solo.db")
    inp = ctx.tmp(".solo.txt")
    with open(inp, "w", encoding="utf-8") as fh:
        fh.write(text)
    try:
        if from_db:
            # the data is a finished database (made from the text) handed to create_db as a FeatureDB
            mid = ctx.tmp(".solo.src.db")
            gffutils.create_db(inp, mid).conn.close()
            src = gffutils.FeatureDB(mid)
            db = gffutils.create_db(src, out, **skw)
            src.conn.close()
            os.unlink(mid)
        elif from_string:
            db = gffutils.create_db(open(inp, encoding="utf-8").read(), out, from_string=True, **skw)
        else:
            db = gffutils.create_db(inp, out, **skw)
        db.conn.close()
        dump = dbdump.dump(out)
        dump["file_state"] = file_state(out)
        dump["ordered_rows"] = ordered_rows(out)
    finally:
        for p in (inp, out, out + "-wal", out + "-shm", out + "-journal"):
            if os.path.exists(p):
                os.unlink(p)
    _solo_cache[key] = dump
    return dump


def option_set(case, i):
    """The create_db options importer i of this case passes (None: the defaults)."""
    opts = case.get("options")
    if not opts:
        return None
    return opts[i % len(opts)]


def execute(ctx, case):
    if case["kind"] == "imports":
        return imports(ctx, case)
    return readers(ctx, case)


def imports(ctx, case):
    N = case["n"]
    root = ctx.tmp(".c20")
    tmpdir, indir, outdir, bdir = (os.path.join(root, x) for x in ("tmp", "in", "out", "barrier"))
    for d in (tmpdir, indir, outdir, bdir):
        os.makedirs(d)
    ino = None
    try:
        texts = []
        for i in range(N):
            fmt = case["fmts"][i % len(case["fmts"])]
            seed = case["seeds"][i % len(case["seeds"])]
            t = huge_annotation(seed) if case.get("huge") else annotation(seed, fmt, case["size"])
            if case.get("flat") and fmt == "gff3":
                # top-level features only: no second-level relation exists
                t = "\n".join(l for l in t.splitlines() if l.startswith("##") or "\tgene\t" in l) + "\n"
            if case.get("strategy"):
                # inputs that repeat some of their own lines, imported under a strategy that keeps going
                ls = [l for l in t.splitlines() if l and not l.startswith("#")]
                t = t + "\n".join(ls[:: max(1, len(ls) // 3)][:4]) + "\n"
            texts.append(t)
        solos = [solitary(ctx, root, t, case["from_string"], case.get("strategy"),
                          no_inference=bool(case.get("no_inference")) and case["fmts"][j % len(case["fmts"])] == "gtf",
                          from_db=bool(case.get("from_db")), options=option_set(case, j))
                 for j, t in enumerate(texts)]
        try:
            ino = subprocess.Popen(["inotifywait", "-m", "-q", "-e", "create", "-e", "delete", "--format", "%e %f", tmpdir],
                                   stdout=subprocess.PIPE, stderr=subprocess.DEVNULL, text=True)
            time.sleep(0.15)
        except Exception:
            ino = None
        procs = []
        rng = random.Random(case["seeds"][0])
        for i in range(N):
            inp = os.path.join(indir, "in%d.txt" % i)
            with open(inp, "w", encoding="utf-8") as fh:
                fh.write(texts[i])
            if case.get("same_basename"):
                # separate output files that share a basename (one directory per run)
                os.makedirs(os.path.join(outdir, "run%d" % i))
                out_db = os.path.join(outdir, "run%d" % i, "annotation.db")
            elif case.get("prefix_names"):
                # output names that are prefixes of one another, each over a stale file, all imported with force=True
                out_db = os.path.join(outdir, "ann.db" if i == 0 else ("ann.db.bak" if i == 1 else "ann.db.v%d" % i))
                with open(out_db, "wb") as fh:
                    fh.write(b"stale")
            else:
                out_db = os.path.join(outdir, "out%d.db" % i)
            a = {"role": "importer", "input": inp, "out_db": out_db,
                 "result": os.path.join(outdir, "res%d.json" % i), "barrier": case["barrier"], "n": N, "barrier_dir": bdir,
                 "from_string": case["from_string"], "offset_ms": rng.randrange(0, 51), "barrier_timeout": 30}
            if case.get("failer") and case["barrier"]:
                a["wait_marker"] = os.path.join(bdir, "failer.done")
            if case.get("pre_jobs"):
                a["pre_jobs"] = case["pre_jobs"]
            if case.get("from_db"):
                # every importer gets a finished database of its own (made here, beforehand) as its data
                import gffutils as _g
                srcdb = os.path.join(indir, "src%d.db" % i)
                _g.create_db(inp, srcdb).conn.close()
                a["from_db"] = srcdb
            if case.get("strategy"):
                a["merge_strategy"] = case["strategy"]
            if case.get("no_inference") and case["fmts"][i % len(case["fmts"])] == "gtf":
                a["no_inference"] = True
            if case.get("shared_iterator"):
                a["shared_iterator"] = True
            if option_set(case, i):
                a["create_kwargs"] = option_set(case, i)
            if case.get("prefix_names"):
                a["force"] = True
            if case.get("late_starter") and i == 0:
                # importer 0 only starts once all the others are in the middle of their imports
                a["start_after_arrivals"] = N - 1
            if case.get("park"):
                # importer 0 is parked at a statement of the named function until importer 1 has finished completely
                if i == 0:
                    a["park"] = {"function": case["park"][0], "line_index": case["park"][1], "marker": os.path.join(bdir, "neighbour.done")}
                    a["offset_ms"] = 0
                elif i == 1:
                    a["done_marker"] = os.path.join(bdir, "neighbour.done")
                    a["offset_ms"] = 150
            af = os.path.join(outdir, "args%d.json" % i)
            json.dump(a, open(af, "w"))
            if case.get("forkpool"):
                procs.append((i, a, None))
            else:
                procs.append((i, a, spawn(af, tmpdir, hashseed=rng.randrange(1, 2 ** 31) if case.get("hashseeds") else None,
                                          options=bool(case.get("options")))))
        if case.get("forkpool"):
            # one parent interpreter that has already imported and used gffutils forks all N importers
            pf = os.path.join(outdir, "args_pool.json")
            os.makedirs(os.path.join(root, "parent"))
            json.dump({"role": "forkpool", "children": [a for _, a, _ in procs], "result": os.path.join(outdir, "res_pool.json"),
                       "parent_dir": os.path.join(root, "parent"), "parent_actions": case.get("parent_actions", []),
                       "shared_input": procs[0][1]["input"] if case.get("shared_iterator") else None}, open(pf, "w"))
            parent = spawn(pf, tmpdir, options=bool(case.get("options")))
            procs = [(i, a, parent) for i, a, _ in procs]
        failer = None
        if case.get("failer") and case["barrier"]:
            finp = os.path.join(indir, "failing.gff")
            with open(finp, "w") as fh:
                fh.write("chr1\ts\tgene\t1\t9\t.\t+\t.\tID=dup\nchr1\ts\tgene\t20\t30\t.\t+\t.\tID=ok\nchr1\ts\tgene\t40\t50\t.\t+\t.\tID=dup\n")
            fa = {"role": "failer", "input": finp, "out_db": os.path.join(outdir, "failing.db"), "result": os.path.join(outdir, "res_failer.json"),
                  "n": N, "barrier_dir": bdir, "marker": os.path.join(bdir, "failer.done")}
            json.dump(fa, open(os.path.join(outdir, "args_failer.json"), "w"))
            failer = (fa, spawn(os.path.join(outdir, "args_failer.json"), tmpdir))
        deadline = time.time() + (180 if not case.get("huge") else 1800)
        for i, a, p in procs:
            try:
                p.wait(timeout=max(1, deadline - time.time()))
            except subprocess.TimeoutExpired:
                for _, _, q in procs:
                    q.kill()
                from gvmon.run import Inconclusive
                raise Inconclusive("importer %d of %d did not finish within the watchdog" % (i, N))
        if failer is not None:
            failer[1].wait(timeout=120)
            fres = json.load(open(failer[0]["result"])) if os.path.exists(failer[0]["result"]) else {"error": None}
            if not fres.get("error"):
                ctx.note("the deliberately failing neighbour import did not fail")
            else:
                ctx.mon("runs with a failing neighbour import")
        ctx.mon("concurrent runs")
        ctx.mon("importer processes", N)
        results = []
        for i, a, p in procs:
            if not os.path.exists(a["result"]):
                err = p.stderr.read().decode("utf-8", "replace")[-600:]
                ctx.violation(case, {"why": "importer %d died without a result" % i, "stderr": err})
                return
            results.append(json.load(open(a["result"])))
        time.sleep(0.1)
        events = []
        if ino is not None:
            ino.terminate()
            try:
                out, _ = ino.communicate(timeout=5)
                events = [l.split(" ", 1) for l in out.splitlines() if " " in l]
            except Exception:
                events = []
            ino = None
        # ---- offline checker over the logs ------------------------------------------------
        for i, r in enumerate(results):
            if r["error"]:
                ctx.violation(case, {"why": "importer %d of %d raised under concurrency" % (i, N), "error": r["error"]})
                return
        for i, r in enumerate(results):
            if r.get("still_there_after_import"):
                ctx.violation(case, {"why": "an importer had finished its import but temp files it created were still in the shared directory",
                                     "importer": i, "files": r["still_there_after_import"][:5], "from_string": case["from_string"]})
                return
        for i, (r, solo) in enumerate(zip(results, solos)):
            ctx.mon("outputs compared with solitary import")
            out_db = procs[i][1]["out_db"]
            if not os.path.exists(out_db):
                ctx.violation(case, {"why": "an importer finished without error but its output database is not there", "importer": i,
                                     "output": os.path.basename(out_db), "directory": sorted(os.listdir(os.path.dirname(out_db)))[:12]})
                return
            fs = file_state(out_db)
            if fs != solo["file_state"]:
                ctx.violation(case, {"why": "on-disk state of the output differs from a solitary import's (journal mode / side files)",
                                     "importer": i, "got": fs, "solitary": solo["file_state"]})
                return
            d = dbdump.diff(solo, dbdump.dump(out_db))
            if not d:
                # the rows as stored (rowid order), not only as a set: an import is a function of its input, whatever
                # the process's string-hash seed
                rows = ordered_rows(out_db)
                ctx.mon("stored row order compared with solitary import")
                if rows != solo["ordered_rows"]:
                    k = next(j for j in range(min(len(rows), len(solo["ordered_rows"]))) if rows[j] != solo["ordered_rows"][j])
                    d = {"why": "same rows, other stored order than the solitary import", "first_difference_at_row": k,
                         "got": rows[k], "solitary": solo["ordered_rows"][k]}
            if d:
                ctx.violation(case, {"why": "database produced under concurrency differs from the solitary import", "importer": i, "diff": d})
                return
        touched = {}
        created, removed = {}, {}
        logs = list(results)
        if case.get("forkpool") and os.path.exists(os.path.join(outdir, "res_pool.json")):
            # the forking parent's own warm-up import used the shared directory too
            logs.append(json.load(open(os.path.join(outdir, "res_pool.json"))))
        for r in logs:
            for ev, name, mode, t in r["log"]:
                touched.setdefault(name, set()).add(r["pid"])
                if ev == "mkstemp":
                    created.setdefault(name, []).append(r["pid"])
                elif ev == "remove":
                    removed.setdefault(name, []).append(r["pid"])
        for name, pids in touched.items():
            ctx.mon("temp paths attributed to exactly one pid")
            if len(pids) != 1:
                ctx.violation(case, {"why": "temp path %r was touched by %d processes" % (name, len(pids)), "pids": sorted(pids)})
                return
        for name, pids in created.items():
            if len(pids) != 1:
                ctx.violation(case, {"why": "temp name %r was created more than once" % name, "pids": pids})
                return
        inter = [n for n in created if n.endswith(".gffutils")]
        ctx.mon("intermediate files created", len(inter))
        if len(inter) < N:
            ctx.note("fewer intermediate files than importers were observed in one run (%d < %d)" % (len(inter), N))
        for n in inter:
            if removed.get(n) == created[n]:
                ctx.mon("intermediate files removed")
            else:
                ctx.violation(case, {"why": "intermediate file %r was created but not removed by its owner" % n,
                                     "created_by": created[n], "removed_by": removed.get(n)})
                return
        left = sorted(os.listdir(tmpdir))
        if left:
            payloads = set(t.encode("utf-8") for t in texts)
            detail = {"why": "temporary directory not empty after all imports finished", "leftover": left[:10],
                      "n_leftover": len(left), "from_string": case["from_string"],
                      "all_leftovers_are_input_copies": all(open(os.path.join(tmpdir, f), "rb").read() in payloads for f in left),
                      "gffutils_suffix": [f for f in left if f.endswith(".gffutils")]}
            ctx.violation(case, detail)
            return
        if events:
            c = sum(1 for e, f in events if "CREATE" in e)
            dl = sum(1 for e, f in events if "DELETE" in e)
            ctx.mon("inotify CREATE events", c)
            ctx.mon("inotify DELETE events", dl)
            if c != dl:
                # the directory was found empty above, so an unbalanced count can only be events that inotifywait had
                # not printed yet when it was stopped: recorded, not judged (wall-clock effects are never verdicts)
                ctx.mon("inotify logs cut short (unbalanced counts with an empty directory; not judged)")
            names_created = set(f for e, f in events if "CREATE" in e)
            unknown = sorted(n for n in names_created if n not in touched)
            if unknown:
                ctx.violation(case, {"why": "inotify saw files created in the shared temp directory that no importer's audit log accounts for",
                                     "names": unknown[:5]})
                return
        # ---- what the barrier observed -----------------------------------------------------
        overlap = 0
        pattern = []
        for r in results:
            b = r["barrier"]
            if b:
                ctx.mon("barrier arrivals")
                overlap = max(overlap, len(b["release"]), len(b["arrival"]))
                pattern.append(len(b["release"]))
                if b["timed_out"]:
                    ctx.mon("barrier timeouts")
        if case.get("park"):
            r0 = results[0]
            case["_parked"] = bool(r0.get("parked_at_line")) and bool(r0.get("parked"))
            if r0.get("parked_at_line"):
                ctx.mon("importers parked at a statement while a neighbour ran a whole import")
                if r0.get("parked"):
                    ctx.mon("parks released by the neighbour's completion")
                pk = (case["fmts"][0], case["park"][0], r0["parked_at_line"])
                if pk not in _PARKS:
                    _PARKS.add(pk)
                    ctx.mon("distinct park points (format, function, source line)")
            else:
                ctx.mon("park point not reached (function has fewer statements)")
        if case.get("forkpool"):
            ctx.mon("runs with importers forked from one parent that had already used gffutils")
            for act in case.get("parent_actions", []):
                ctx.mon("forking parent had used the library: " + act)
        if case.get("pre_jobs"):
            for job in case["pre_jobs"]:
                ctx.mon("importer processes had run an earlier job: " + job)
        if case.get("from_db"):
            ctx.mon("runs whose importers take a finished database (FeatureDB) as data")
        if case.get("options"):
            ctx.mon("runs whose importers pass non-default create_db options")
            for j in range(N):
                o = option_set(case, j)
                if o:
                    ctx.mon("importer processes with non-default create_db options")
                    for k_ in sorted(o):
                        ctx.mon("importer processes with option %s=%r" % (k_, o[k_]))
                    if o.get("verbose"):
                        ctx.mon("importer processes with a truthy verbose option")
                        if case["fmts"][j % len(case["fmts"])] == "gtf":
                            ctx.mon("GTF importer processes with a truthy verbose option")
        if case.get("strategy"):
            ctx.mon("runs importing inputs with repeated lines under merge_strategy=%s" % case["strategy"])
        if case.get("no_inference"):
            ctx.mon("runs with GTF importers that have gene and transcript inference switched off")
        if case.get("shared_iterator"):
            ctx.mon("runs in which forked importers share one DataIterator object made by the parent")
        if case.get("hashseeds"):
            ctx.mon("runs whose importer processes each had their own PYTHONHASHSEED")
        if case.get("prefix_names"):
            ctx.mon("runs with prefix-related output names over stale files, force=True and a late starter")
        case["_overlap"] = overlap
        case["_pattern"] = sorted(pattern)
        pk = (N, tuple(sorted(pattern)))
        if pk not in _PATTERNS:
            _PATTERNS.add(pk)
            ctx.mon("distinct overlap patterns (N, live intermediates seen by each importer)")
        ctx.monitors["max simultaneously live intermediates"] = max(ctx.monitors.get("max simultaneously live intermediates", 0), overlap)
        if overlap >= 2:
            ctx.mon("runs with overlap >= 2")
        else:
            ctx.mon("runs with overlap < 2 (no evidence)")
    finally:
        if ino is not None:
            ino.kill()
        shutil.rmtree(root, ignore_errors=True)


def readers(ctx, case):
    R = case["r"]
    root = ctx.tmp(".c20r")
    tmpdir, outdir, bdir = (os.path.join(root, x) for x in ("tmp", "out", "barrier"))
    for d in (tmpdir, outdir, bdir):
        os.makedirs(d)
    try:
        text = annotation(case["seed"], case["fmt"], case["size"])
        inp = os.path.join(root, "in.txt")
        with open(inp, "w", encoding="utf-8") as fh:
            fh.write(text)
        # the finished database
        a0 = {"role": "importer", "input": inp, "out_db": os.path.join(outdir, "main.db"), "result": os.path.join(outdir, "res_main.json"),
              "barrier": False, "n": 1, "barrier_dir": bdir, "from_string": False}
        json.dump(a0, open(os.path.join(outdir, "a0.json"), "w"))
        spawn(os.path.join(outdir, "a0.json"), tmpdir).wait(timeout=120)
        expected = dbdump.dump(a0["out_db"])
        for f in glob.glob(os.path.join(bdir, "*")):
            os.unlink(f)
        procs = []
        for i in range(R):
            a = {"role": "reader", "db": a0["out_db"], "out": os.path.join(outdir, "r%d.json" % i), "barrier_dir": bdir, "n": R}
            af = os.path.join(outdir, "ra%d.json" % i)
            json.dump(a, open(af, "w"))
            procs.append((a, spawn(af, tmpdir)))
        # an import running beside the readers, into another file of the same directory
        a1 = dict(a0, out_db=os.path.join(outdir, "side.db"), result=os.path.join(outdir, "res_side.json"))
        json.dump(a1, open(os.path.join(outdir, "a1.json"), "w"))
        side = spawn(os.path.join(outdir, "a1.json"), tmpdir)
        for a, p in procs:
            try:
                p.wait(timeout=180)
            except subprocess.TimeoutExpired:
                p.kill()
                from gvmon.run import Inconclusive
                raise Inconclusive("a reader did not finish within the watchdog")
        side.wait(timeout=180)
        ctx.mon("reader runs")
        exp_feats = sorted(f["id"] for f in expected["features"])
        exp_rel = sorted(expected["relations"], key=lambda t: (t[0], t[1], t[2]))
        first = None
        for a, p in procs:
            ctx.mon("reader processes")
            if not os.path.exists(a["out"]):
                ctx.violation(case, {"why": "a concurrent reader failed", "stderr": p.stderr.read().decode("utf-8", "replace")[-500:]})
                return
            r = json.load(open(a["out"]))
            for sid, hits in r.get("region_hits", {}).items():
                want = sorted(f["id"] for f in expected["features"] if f["seqid"] == sid and f["start"] >= 1 and f["end"] <= 10 ** 7)
                ctx.mon("reader region/limit results compared")
                if hits[0] != want or hits[1] != want or hits[2] != want:
                    ctx.violation(case, {"why": "a concurrent reader's region/limit query did not return the full content", "seqid": sid,
                                         "got": [len(h) for h in hits], "expected": len(want)})
                    return
            if sorted(f[0] for f in r["features"]) != exp_feats or r["count"] != len(exp_feats) or \
                    sorted(r["relations"], key=lambda t: (t[0], t[1], t[2])) != exp_rel or r["directives"] != expected["directives"]:
                ctx.violation(case, {"why": "a concurrent reader did not observe the full content", "features_seen": len(r["features"]),
                                     "expected": len(exp_feats), "relations_seen": len(r["relations"]), "expected_relations": len(exp_rel)})
                return
            if first is None:
                first = r
            elif r != first:
                ctx.violation(case, {"why": "two concurrent readers observed different content"})
                return
        d = dbdump.diff(expected, dbdump.dump(a1["out_db"]))
        if d:
            ctx.violation(case, {"why": "the import running beside the readers differs from the solitary import", "diff": d})
    finally:
        shutil.rmtree(root, ignore_errors=True)


def run(ctx):
    rng = ctx.rng
    ns = [2, 4, 8, 16] if ctx.tier == "quick" else [2, 4, 8, 16, 24, 40]
    reps = 1 if ctx.tier == "quick" else 6
    i = 0
    for rep in range(reps):
        for N in ns:
            for barrier in (True, False):
                for mix in ("same", "different", "gff3+gtf", "gtf"):
                    for from_string in (False, True):
                        i += 1
                        if not ctx.mine(i):
                            continue
                        if ctx.tier == "quick" and from_string and (mix != "gff3+gtf" or N > 8):
                            continue
                        if ctx.tier == "quick" and not barrier and mix in ("same", "gtf"):
                            continue
                        fmts = {"same": ["gff3"], "different": ["gff3"], "gff3+gtf": ["gff3", "gtf"], "gtf": ["gtf"]}[mix]
                        seeds = [rng.randrange(10 ** 6)] if mix == "same" else [rng.randrange(10 ** 6) for _ in range(N)]
                        case = {"kind": "imports", "n": N, "fmts": fmts, "seeds": seeds, "size": 3 if barrier else 25,
                                "from_string": from_string, "barrier": barrier, "hashseeds": i % 2 == 0}
                        if i % 3 == 0 or (from_string and i % 2 == 0):
                            case["strategy"] = "warning" if from_string else ["warning", "create_unique", "merge"][(i // 3) % 3]
                        if "gtf" in fmts and i % 5 == 0:
                            case["no_inference"] = True
                        if i % 4 == 1:
                            case["pre_jobs"] = [PRE_JOBS[(i // 4 + n_) % len(PRE_JOBS)] for n_ in range(2)]
                            if "gtf" in fmts:
                                case["pre_jobs"] = ["gtf with custom keys"] + case["pre_jobs"][:1]
                        if i % 8 == 5 and not from_string and not case.get("strategy"):
                            case["from_db"] = True
                            case["pre_jobs"] = ["file with directives"] + case.get("pre_jobs", [])[:1]
                        execute(ctx, case)
                        ov = case.pop("_overlap", 0)
                        pat = case.pop("_pattern", [])
                        ctx.case((N, mix, from_string, barrier, pat), ov >= 2,
                                 sample={"n": N, "mix": mix, "from_string": from_string, "barrier": barrier, "max_overlap": ov,
                                         "live_intermediates_seen_by_each_importer": pat},
                                 cls="N=%d barrier=%s" % (N, barrier))
    # further input/placement classes: same output basename in different directories, flat inputs (no second-level
    # relations), a failing import next to healthy ones
    for rep in range(reps):
        for N in ([2, 4, 8] if ctx.tier == "quick" else [2, 4, 8, 16, 24]):
            for variant in ("same_basename", "flat", "failer", "prefix_names"):
                for mix in ("gff3+gtf", "different"):
                    i += 1
                    if not ctx.mine(i):
                        continue
                    if ctx.tier == "quick" and mix == "different" and N != 4:
                        continue
                    fmts = {"different": ["gff3"], "gff3+gtf": ["gff3", "gtf"]}[mix]
                    case = {"kind": "imports", "n": N, "fmts": fmts, "seeds": [rng.randrange(10 ** 6) for _ in range(N)], "size": 3,
                            "from_string": False, "barrier": True, variant: True}
                    if variant == "prefix_names":
                        case["late_starter"] = True
                    execute(ctx, case)
                    ov = case.pop("_overlap", 0)
                    pat = case.pop("_pattern", [])
                    ctx.case((N, mix, variant, pat), ov >= 2, sample={"n": N, "mix": mix, "variant": variant, "max_overlap": ov},
                             cls="variant=%s" % variant)
    # importers forked from one parent (multiprocessing's default start method on Linux)
    for rep in range(reps):
        for N in ([2, 4, 8] if ctx.tier == "quick" else [2, 4, 8, 16, 24]):
            for mix in ("gff3+gtf", "different", "gtf"):
                i += 1
                if not ctx.mine(i):
                    continue
                if ctx.tier == "quick" and mix != "gff3+gtf" and N != 4:
                    continue
                fmts = {"different": ["gff3"], "gff3+gtf": ["gff3", "gtf"], "gtf": ["gtf"]}[mix]
                case = {"kind": "imports", "n": N, "fmts": fmts, "seeds": [rng.randrange(10 ** 6) for _ in range(N)], "size": 3,
                        "from_string": False, "barrier": True, "forkpool": True,
                        "parent_actions": rng.sample(PARENT_ACTIONS, rng.randrange(0, 3))}
                if mix == "gff3+gtf":
                    # workers of a forked pool end through os._exit: nothing is cleaned up at interpreter exit
                    case.update({"from_string": True, "strategy": ["warning", "merge", "create_unique", "warning"][[2, 4, 8, 16, 24].index(N) % 4]})
                if mix == "gtf":
                    case["no_inference"] = True
                if mix == "different" or (mix == "gtf" and N == 4):
                    # all children import from ONE DataIterator object that the parent made before forking
                    case.update({"shared_iterator": True, "seeds": case["seeds"][:1], "size": 40})
                execute(ctx, case)
                ov = case.pop("_overlap", 0)
                pat = case.pop("_pattern", [])
                ctx.case((N, mix, "forkpool", pat), ov >= 2, sample={"n": N, "mix": mix, "variant": "forkpool", "max_overlap": ov},
                         cls="variant=forkpool")
    # caller-level create_db options that are not about the data (verbose progress/debug output, keep_order,
    # sort_attribute_values, checklines): importers of one run use different option sets, some the defaults
    for rep in range(reps):
        for N in ([2, 4, 8] if ctx.tier == "quick" else [2, 4, 8, 16, 24]):
            for mix in ("gff3+gtf", "gtf", "different"):
                for launch in ("spawned", "forked"):
                    i += 1
                    if not ctx.mine(i):
                        continue
                    if ctx.tier == "quick" and ((mix == "different" and N != 4) or (launch == "forked" and (N != 4 or mix != "gff3+gtf"))):
                        continue
                    fmts = {"different": ["gff3"], "gff3+gtf": ["gff3", "gtf"], "gtf": ["gtf"]}[mix]
                    k = rng.randrange(len(OPTION_SETS))
                    # an odd number of slots, so that with two alternating formats every format meets every option set
                    opts = [OPTION_SETS[(k + j) % len(OPTION_SETS)] for j in range(3)] + [None, OPTION_SETS[(k + 3) % len(OPTION_SETS)]]
                    case = {"kind": "imports", "n": N, "fmts": fmts, "seeds": [rng.randrange(10 ** 6) for _ in range(N)],
                            "size": 3 if N > 2 else 12, "from_string": False, "barrier": N != 2, "options": opts}
                    if launch == "forked":
                        case.update({"forkpool": True, "parent_actions": []})
                    execute(ctx, case)
                    ov = case.pop("_overlap", 0)
                    pat = case.pop("_pattern", [])
                    ctx.case((N, mix, "options", launch, k, pat), ov >= 2,
                             sample={"n": N, "mix": mix, "variant": "create_db options", "launch": launch, "options": opts, "max_overlap": ov},
                             cls="variant=create_db options")
    # statement-level schedules: one importer parked at the k-th statement of a creation step while a neighbour import
    # starts, runs and finishes
    points = [(f, k) for f, kmax in PARK_FUNCTIONS for k in range(1, kmax + 1)]
    for rep in range(1 if ctx.tier == "quick" else 2):
        for fmt0, fmt1 in (("gtf", "gff3"), ("gff3", "gtf"), ("gtf", "gtf"), ("gff3", "gff3")):
            for fn, k in points:
                i += 1
                if not ctx.mine(i):
                    continue
                if ctx.tier == "quick" and ((fmt0 == fmt1) or (k * 7 + ctx.seed + len(fn)) % 3):
                    continue
                case = {"kind": "imports", "n": 2, "fmts": [fmt0, fmt1], "seeds": [rng.randrange(10 ** 6) for _ in range(2)], "size": 3,
                        "from_string": False, "barrier": False, "park": [fn, k]}
                execute(ctx, case)
                case.pop("_overlap", 0)
                case.pop("_pattern", None)
                ctx.case((fmt0, fmt1, fn, k), case.pop("_parked", False), sample={"parked": fmt0, "neighbour": fmt1, "function": fn, "statement": k},
                         cls="variant=parked")
    if ctx.shard == 0:
        # imports large enough to cross internal batching thresholds (~2*10^5 second-level relations each)
        case = {"kind": "imports", "n": 2, "fmts": ["gff3"], "seeds": [rng.randrange(10 ** 6)], "size": 0, "from_string": False,
                "barrier": True, "huge": True}
        execute(ctx, case)
        ov = case.pop("_overlap", 0)
        case.pop("_pattern", None)
        ctx.mon("runs with very large inputs")
        ctx.case(("huge", 2), ov >= 2, sample={"n": 2, "variant": "huge inputs (180000 exons each)", "max_overlap": ov}, cls="variant=huge")
    for R in ([2, 8, 32] if ctx.tier == "quick" else [2, 8, 32, 48]):
        for fmt in ("gff3", "gtf"):
            i += 1
            if not ctx.mine(i):
                continue
            case = {"kind": "readers", "r": R, "fmt": fmt, "seed": rng.randrange(10 ** 6), "size": 20}
            execute(ctx, case)
            ctx.case(("readers", R, fmt), R >= 2, sample=case, cls="readers R=%d" % R)


MANIFEST = {
    "technique": "forced process overlap via a sys.monitoring barrier failpoint in each child; per-process audit-hook file-event logs + inotifywait; offline checker (unique names, create/delete pairing, single-owner paths, empty directory) and content dumps vs solitary imports",
    "text": "Real create_db runs are executed in N separate interpreters sharing one temporary directory. A barrier installed "
            "with sys.monitoring on the generator that re-reads gffutils' intermediate file parks every importer until all N "
            "hold a live intermediate file, so the overlap is observed, not hoped for; runs without the barrier and with random "
            "start offsets are added. Every temp path each process opens/creates/removes is logged by an audit hook and checked "
            "offline together with an independent inotify log; each output is compared with a solitary import through plain "
            "sqlite3. Reader processes read a finished database simultaneously while an import runs beside them. Variants: outputs sharing a basename in different directories, flat inputs without second-level relations, a deliberately failing neighbour import released while the healthy ones hold their intermediate files, imports of ~2*10^5 features, and a look into the directory while each importer process is still alive; readers also run region/limit queries. Importers are also forked (os.fork) from one parent interpreter that has already used the library (set_pragmas, update/delete, a failed import, the escape switch toggled and restored); one importer is parked at each of the first statements of _update_relations/_finalize/_populate_from_lines while a neighbour import starts, runs and finishes; outputs whose names are prefixes of one another are imported with force=True over stale files with one late starter; the journal mode and side files of each output are compared with a solitary import's; forked importers also share one DataIterator object made by their parent; spawned importers get their own PYTHONHASHSEED and the rows are compared in stored order; the importers' garbage collector is off (what a pool worker ending through os._exit is left with), some inputs repeat their own lines under merge_strategy warning/merge/create_unique, some GTF importers run with both inference options off; importer processes first run earlier jobs (a GTF import with custom keys, a file with directives, a failed import, switches toggled and restored) and some take a finished database (FeatureDB) as their data; importers of one run pass different caller-level create_db options (verbose=True/'debug', keep_order, sort_attribute_values, checklines) and are compared with a solitary import run with the same options.",
    "note": "Trusted: the OS scheduler only for the free-running class; CPython audit events for open/remove/mkstemp. Evidence "
            "reports the maximum number of simultaneously live intermediate files actually seen.",
}
