"""
C17  Attribute container, JSON storage form and feature equality are coherent.

Case kinds (each replayable through execute):
  json    mapping set on a parsed feature -> real _jsonify -> real _unjsonify / Feature(attributes=text) and the stdlib
          json reader: same keys in the same order, same values (lone surrogates included)
  merge   real helpers.merge_attributes(a, b, numeric_sort) on dict / Attributes arguments vs the union model
          (gvmon/models/c17.py); arguments deep-compared before/after; 15% of the cases hold one or both arguments in
          another dict type (OrderedDict, defaultdict(list), dict subclass with a non-storing __missing__)
  db      features carrying generated mappings -> real create_db / update -> read back through FeatureDB, through a
          reopened FeatureDB, through a FeatureDB opened with a latin-1 decoding text_factory and through plain
          sqlite3 + stdlib json (lone surrogates and astral characters included); the raw column is read as bytes: valid
          JSON decoding to the attributes, ASCII only
  eq      pool of features; every ordered pair: (a == b) == (str(a) == str(b)), a == b => hash equal, != is the negation;
          pools hold near-equal lines (differing only by trailing/leading whitespace-like characters, an empty 10th
          column, letter case, normalisation form); set/dict of the pool has one member per distinct printed line;
          small pools of features whose start / end the caller assigned afterwards (spec via=assigned: the text of a
          line's column, int, int subclass, float, zero-padded text; through the attribute, feature[i], the stop alias)
          next to parsed / database features of the same and of the neighbouring line
  set     parsed / database feature; values set as scalar, list, tuple through feature[k], attributes[k], update(...),
          setdefault, under both settings of always_return_list; afterwards every stored value is a sequence of str equal
          to what was set; astuple(), _jsonify and the stored values do not depend on the switch; the view differs only
          for one-item sequences
  print   same inputs; str(feature) must not depend on always_return_list
  edit    ONE feature (parsed / from a database / from scalar-valued JSON) is observed (str, hash, ==, set and dict
          membership, astuple), edited (feature[k]=, attributes[k]=, update, setdefault, del, in-place operations on a
          value list, assignments to columns) and observed again, up to five times: every observation must describe the
          feature as it is at that time - the printed line shows the current columns and is read back (reference reader
          of the plain GFF3 / GTF form) to the current attributes; a feature built independently with the same columns
          and attributes (obtained afresh and given the state in one go; parsed from the proper line) is ==, not !=,
          hashes alike and is the same set/dict key; against the feature in the state before the edit == follows the
          printed lines
  sjson   JSON text whose values are scalars instead of lists: _unjsonify / Feature(attributes=text), rows of a gffutils
          database rewritten with a plain sqlite3 UPDATE (own connection on the file, or the database's connection),
          hand-built Feature(attributes=<dict with scalar values>) objects stored with create_db / update: attributes
          read from there are sequences of strings (scalar wrapped), the printed line / == / hash are those of the list
          form and of the feature parsed from the proper line
  set     (case["member"]) the same on features whose line carries attributes spelled like the fixed columns / other members
          of a Feature (score=0.93;source=HAVANA;end=7;id=..;dialect=..) and whose operations set such keys, half of them
          through the Feature (f['source'] = 'x'): attributes like any other - wrapped, present in f.attributes, f[k] ==
          f.attributes[k] under both switch settings, the eight fixed columns as they were
  korder  features carrying keep_order=True under a dialect whose 'order' lists the keys in ANOTHER order than the feature's
          own mapping (a later line parsed with an earlier line's dialect; Feature(attributes=.., keep_order=True); features of
          a database imported and opened with keep_order=True): astuple()[9], _jsonify(attributes) read with stdlib json,
          _unjsonify, Feature(attributes=text) all show the MAPPING's keys in the mapping's order (keep_order also switched on
          the object after the fact); rows written back through add_relation(child_func= / parent_func=) and
          update(merge_strategy='replace') read back (same FeatureDB, second FeatureDB on the file, raw column) to the
          written feature's attributes in its key order
Values are given as plain str / list / tuple and as instances of SUBCLASSES of these (Name(str), TagList(list),
TagTuple(tuple); namedtuples of strings in kind print) in every kind that sets values (json, db, set, print, edit, eq
pools, merge arguments): a sequence of strings stays that sequence (not wrapped once more), a str-subclass scalar is
wrapped; kind set then runs merge_attributes on the feature's attributes (union model, argument untouched), kind print
compares the feature with a twin given the same values as plain lists (==, !=, hash, set).  Pools of kind eq hold database
records with identical printed lines under different primary keys (a line written 2-3 times: generated keys, or
merge_strategy='create_unique').
Origins jsontext / jsondb (feature from scalar-valued JSON text / from a rewritten row) also feed kinds set, print, edit.
The icontract invariant on the real Attributes class (contracts.install_attributes) is active throughout and drained
after every case.
"""
import json
import os

from gvmon import dbdump
from gvmon.gen import c17 as G
from gvmon.models import c17 as M
from gvmon.monitors import contracts

RULE = ("mappings of 0-6 keys -> 0-4 values over arbitrary Unicode (JSON-structural characters, C0/C1 controls, NEL/LS/PS, "
        "BOM, astral, combining sequences, random code points; lone surrogates only in kind json), values given as scalar "
        "string, list or tuple through feature[k]=, attributes[k]=, update(dict / kwargs / pairs / Attributes), setdefault, "
        "with always_return_list True or False while setting; features parsed from a line or read from a database; "
        "merge arguments: dict or Attributes, overlapping keys and values from number-like / unclear / non-number / "
        "Unicode pools, numeric_sort on/off, both switch settings; pools of 12-20 features (same line twice, from a "
        "database, built with list/tuple values, other dialect, one column/value/key order changed, plus 2-3 groups of "
        "near-equal lines: last value ending in blank / NBSP / U+3000 / NEL / LS / blank runs, extra=[''] or a trailing "
        "tab, seqid with a leading blank, last value differing in letter case only, in NFC vs NFD only), all ordered pairs "
        "and the sizes of set/dict built from the pool; kind db: 40% of the cases with lone surrogates, file cases also "
        "re-read through text_factory=latin-1. "
        "edit: 1-5 steps, each = random subset of {str, hash, ==, set/dict, astuple, previous state} observed, then one "
        "edit (40% mapping operation with scalar/list/tuple forms, 35% in-place list operation out of 14, 25% column "
        "through attribute / feature[i] / chrom,stop alias), all six observations at the end; values are non-empty and "
        "survive a printed line (reserved characters inside GFF3 values); origins line / db / jsontext / jsondb; "
        "sjson: 1-5 keys, first value scalar, others 65% scalar, arbitrary Unicode or reparse-safe, four JSON layouts, "
        "routes text / UPDATE via own connection on a file / UPDATE via the database's connection / hand-built features "
        "through create_db or update (1-3 features, memory or file + reopen). "
        "every generated value form is with probability 0.18 an instance of a subclass of its type: Name(str), "
        "TagList(list), TagTuple(tuple) (kind print: half of the tuple subclass instances are namedtuples of strings); 15% "
        "of the merge cases give one argument's lists as TagList and its scalars as Name; eq pools additionally hold two "
        "records of a database built from the ID-less line written 2-3 times (keys gene_1, gene_2) and both records of "
        "the ID-carrying line written twice under merge_strategy='create_unique' (keys x, x_1). "
        "member: lines with 1-4 attributes named like Feature members (the eight column names twice as likely; values as "
        "in files: 0.93, HAVANA, 7, -, 2, .), 1-6 operations, 50% feature[k]=, keys 60% member names, origins line / db "
        "(40%) / jsontext / jsondb, GFF3 and GTF; korder: first line of 3-6 keys in random order, 1-3 later lines with a "
        "re-ordered subset of them + 0-2 keys of their own, routes line / ctor (dict, Attributes, JSON text; default dialect "
        "or the first line's) / db (memory or file, 1-3 write-backs: child_func, parent_func, update replace; scalar or "
        "two-item value), keep_order flipped on the object in 40%. "
        "param: lines / database rows / JSON texts carrying 1-4 attributes spelled like parameter names (self, cls, args, kwargs, "
        "other, d, key, value twice as likely as k, v, x, obj, mapping, iterable, default, items, keys, values, update...), "
        "0-4 operations on them, origins line / db (40%) / jsontext / jsondb (30%); such keys also in 10% of the extra keys of "
        "every set / print / edit base line, 8% of the json cases (mapping parsed from such a line, items set on top), 30% "
        "of the db cases (carried by the parsed line), 15% of the reparse-safe sjson keys and in the korder key pool; every "
        "set case also converts its stored JSON text back with _unjsonify(isattributes=True). "
        "15% of the merge cases hold the first, the second or both arguments as OrderedDict / defaultdict(list) / dict subclass "
        "whose __missing__ answers [] without storing; 400 (quick) eq pools of 7-10 features: a line parsed twice, from a "
        "database, the neighbouring line (start or end +1, or '.'), and features whose start/end were assigned by the caller "
        "(column text 3/7, int, int subclass, float, zero-padded text; attribute / feature[i] / stop) onto the record, onto "
        "itself, away from the record. "
        "Non-trivial = the mapping has a scalar-set or subclass-instance value or a non-ASCII/control/escape-worthy character (json, set, "
        "print, db), the arguments share a key (merge), the pool has equal distinct objects (eq), an observation precedes "
        "an edit (edit), always (sjson); distinct by case content")
REQUIRED = ["alias: re-fetched features compared with the stored text", "alias: repeated decodes compared",
            "alias: key-order pairs compared", "json: identities checked", "json: stdlib json decodes compared", "json: Feature(attributes=text) round trips",
            "json: mappings with lone surrogates", "merge: calls", "merge: calls while always_return_list=False", "merge: argument snapshots compared", "merge: arguments in which two keys share one list object",
            "merge: keys judged in numeric order", "merge: keys judged in text order",
            "db: features read back", "db: raw JSON columns decoded with stdlib json", "db: reopened databases",
            "db: features with lone surrogates read back", "db: features with characters outside the BMP read back",
            "db: raw attributes columns read as bytes", "db: raw attributes columns that are pure ASCII",
            "db: non-ASCII content found stored as ASCII escapes", "db: databases reopened with a latin-1 text_factory",
            "db: features read back through a latin-1 text_factory",
            "db: non-ASCII attributes compared through a latin-1 text_factory",
            "eq: pairs whose printed lines differ only by trailing whitespace-like characters",
            "eq: pairs whose printed lines differ only by an empty trailing column",
            "eq: pairs whose printed lines differ only by leading whitespace-like characters",
            "eq: pairs whose printed lines differ only by letter case",
            "eq: pairs whose printed lines differ only by Unicode normalisation form",
            "eq: set/dict sizes compared with the number of distinct printed lines",
            "eq: sets in which equal features collapse into one member",
            "eq: ordered pairs", "eq: equal pairs of distinct objects", "eq: equal pairs with different astuple()",
            "eq: unequal pairs with equal astuple()", "set: stored values checked", "set: scalar-set values",
            "set: tuple-set values", "set: operations while always_return_list=False", "set: features obtained while always_return_list=False",
            "set: one-item views that differ between the settings", "set: multi-item/empty views compared",
            "print: str(feature) compared between the settings", "Attributes invariant evaluations",
            "set: setdefault with a scalar default on a missing key", "set: features obtained from scalar-valued JSON",
            "edit: observations followed by an edit", "edit: observations after an edit", "edit: attribute-mapping edits",
            "edit: in-place value-list edits", "edit: column edits", "edit: printed lines re-parsed and compared",
            "edit: hash compared with an independently built equal feature", "edit: set/dict membership judged",
            "edit: equal feature built afresh from the same origin", "edit: equal feature built by parsing the proper line",
            "edit: compared with a feature in the state before the edit", "edit: JSON column compared",
            "edit: setdefault with a scalar default on a missing key",
            "sjson: texts decoded with _unjsonify", "sjson: Feature(attributes=text) compared with the list form",
            "sjson: compared with the feature parsed from the proper line", "sjson: database rows rewritten with plain sqlite3",
            "sjson: features read from rewritten rows", "sjson: hand-built features read back",
            "set: sublist-set values", "set: subtuple-set values", "set: substr-set values",
            "set: subclass instances set through feature_setitem", "set: subclass instances set through attr_setitem",
            "set: subclass instances set through update_dict", "set: subclass instances set through update_kwargs",
            "set: subclass instances set through update_pairs", "set: subclass instances set through update_attrs",
            "set: subclass instances set through setdefault", "set: subclass instances set while always_return_list=False",
            "set: subclass instances set while always_return_list=True",
            "set: setdefault with a substr default on a missing key", "set: setdefault with a sublist default on a missing key",
            "set: merge_attributes afterwards judged", "set: merge_attributes judged after a subclass instance was set",
            "print: features printed after a subclass instance was set", "print: features printed after a ntuple value was set",
            "print: features printed after a sublist value was set", "print: features printed after a substr value was set",
            "print: twin holding the same values as plain lists compared (==, !=, hash, set)",
            "json: mappings with a value set as an instance of a list / tuple / str subclass",
            "db: values set as instances of list / tuple / str subclasses stored",
            "merge: calls with values given as list / str subclass instances",
            "eq: pairs of database features with equal printed lines under different primary keys",
            "set: fixed columns compared after the attribute operations",
            "set: keys spelled like Feature members set through the Feature",
            "set: keys spelled like the eight fixed columns set through the Feature",
            "set: keys spelled like Feature members set through the attributes mapping",
            "set: keys spelled like Feature members set while always_return_list=False",
            "set: keys spelled like Feature members read through the Feature and through feature.attributes",
            "set: keys spelled like Feature members viewed while always_return_list=False",
            "set: features obtained from a database carrying attributes spelled like Feature members",
            "set: features obtained from a line / JSON text carrying attributes spelled like Feature members",
            "korder: JSON texts compared with the mapping (keys, key order, values)",
            "korder: JSON texts read back with _unjsonify / Feature(attributes=text)",
            "korder: features judged while keep_order is True", "korder: features judged while keep_order is False",
            "korder: keep_order features whose key order differs from the order of their dialect",
            "korder: keep_order features printed in another key order than their mapping's",
            "korder: keep_order switched on the object after the fact",
            "korder: features obtained through feature_from_line(keep_order=True)",
            "korder: features obtained through Feature(keep_order=True)",
            "korder: database features fetched with keep_order=True",
            "korder: features written back through add_relation(child_func=...)",
            "korder: features written back through add_relation(parent_func=...)",
            "korder: features written back through update(merge_strategy='replace')",
            "korder: written rows read back and compared with the written feature's mapping",
            "korder: raw columns of written rows decoded with stdlib json",
            "set: stored JSON text converted back and compared",
            "set: features obtained from a parsed line carrying parameter-named keys",
            "set: features obtained from a database carrying parameter-named keys",
            "set: features obtained from JSON text carrying parameter-named keys",
            "set: features obtained from a database row holding scalar-valued JSON carrying parameter-named keys",
            "set: features carrying parameter-named keys obtained while always_return_list=False",
            "set: parameter-named keys taken through the stored JSON text and back",
            "json: mappings parsed from a line carrying parameter-named keys",
            "json: parameter-named keys taken through the stored JSON text and back",
            "db: parsed parameter-named keys stored", "db: features carrying parameter-named keys read back (db[id])",
            "merge: first argument given as defaultdict", "merge: first argument given as lenientdict",
            "merge: first argument given as ordereddict", "merge: second argument given as defaultdict",
            "merge: second argument given as lenientdict", "merge: second argument given as ordereddict",
            "merge: arguments with a __missing__ hook lacking a key of the other argument",
            "eq: pool features whose start/end were assigned by the caller (column text, int, int subclass, float)",
            "eq: equal pairs whose coordinates are held as objects of different types (int / text / None)"]
REQUIRED_CLASSES = ["set origin=line", "set origin=db", "print origin=line", "print origin=db", "merge dict,dict",
                    "merge attrs,attrs", "merge dict,attrs", "merge attrs,dict", "set origin=jsontext", "set origin=jsondb",
                    "db with lone surrogates, file", "db with lone surrogates, memory", "edit origin=line", "edit origin=db", "edit origin=jsontext", "edit origin=jsondb",
                    "edit: inplace edit after an observation", "edit: column edit after an observation",
                    "edit: attribute mapping edit after an observation", "sjson text", "sjson update_file",
                    "sjson update_conn", "sjson ctor_create", "sjson ctor_update",
                    "set member-named keys origin=line", "set member-named keys origin=db", "set member-named keys origin=jsontext",
                    "korder line", "korder ctor", "korder db",
                    "set parameter-named keys origin=line", "set parameter-named keys origin=db",
                    "set parameter-named keys origin=jsontext", "set parameter-named keys origin=jsondb",
                    "eq pool with caller-assigned coordinates", "merge dict-subclass,dict", "merge dict-subclass,attrs",
                    "merge dict,dict-subclass", "merge attrs,dict-subclass"] + [
                    "key '%s' origin=%s" % (k, o) for k in G.PARSED_PARAM_NAMES for o in ("line", "db", "jsontext")] + [
                    "parsed key '%s' through JSON text" % k for k in G.PARSED_PARAM_NAMES]
ASSUMPTIONS = [
    "'sequence of strings' = list or tuple of str (a tuple that was set stays a legitimate stored value); JSON identity "
    "and database read-back are judged on key order and on values as sequences (a tuple comes back as a list); Python "
    "== between the two Attributes objects is asked only when no tuple was stored",
    "instances of subclasses of list / tuple are sequences of strings like any other and must be stored as the values, a "
    "str-subclass instance is a scalar; what is stored may be the object given or a copy (judged: it is a list / tuple "
    "of str with the elements that were set); namedtuples of strings are set in kind print only, where no JSON text is "
    "asked for: on the unchanged tree simplejson writes a namedtuple value as a JSON OBJECT ({\"f0\":..}), so the stored "
    "text does not read back to the values (reported to the maintainers of this check, not generated)",
    "kind set, merge afterwards: the second argument is derived from the attributes (first key: its first value again "
    "plus one new value; one key of its own holding a repeated value); asked only when no tuple is stored",
    "a high surrogate directly followed by a low surrogate is the same JSON text as the astral character: such code-point "
    "sequences are not generated; lone surrogates are used in memory (kind json) and in attribute keys/values stored with "
    "create_db/update (kind db: the unchanged tree stores and returns them, its JSON text being pure ASCII); ids and "
    "the other columns stay ASCII there",
    "kind db: the raw attributes column is required to be pure-ASCII JSON text, as the unchanged tree writes it (every "
    "non-ASCII character as an escape): that is what makes the stored text the identity 'for any Unicode content' "
    "independently of how a connection decodes text; a FeatureDB opened with text_factory = bytes.decode('latin-1') must "
    "therefore show the same attributes (ids are ASCII)",
    "kind eq: a set / dict of features has one member per distinct printed line (consequence of == and hash as stated)",
    "the view of a one-item sequence under always_return_list=False may be the item or the sequence; anything else must "
    "be viewed unchanged",
    "merge_attributes: arguments hold lists of str or scalar str (tuple-valued arguments are not generated: on the real "
    "code they raise TypeError, the statement's 'values' is read as what parsing/databases produce); numeric order is "
    "asked only for keys whose values all match [+-]digits[.digits][e[+-]digits] and are finite, ties between equal "
    "numbers in any order; keys holding nan/inf/underscore/blank-padded/non-ASCII-digit/overflowing literals are judged "
    "on elements and duplicate-freeness only; keys with a value float() refuses are judged on plain sorted order",
    "merge_attributes: 'all pairs of mappings' includes the dict types callers hold attribute tables in (OrderedDict, "
    "defaultdict(list), dict subclasses with a __missing__ hook); the result is judged on keys and values only (its type "
    "and key order are not), the arguments must show the same keys/values afterwards",
    "kind eq, caller-assigned coordinates: the statement speaks of printed lines only, so a feature whose start/end holds "
    "the column's text, an int subclass or a float is judged like any other (== iff the printed lines are equal, whatever "
    "these print); only start/end are given non-str objects (the other columns are joined as they are when printing); "
    "records with a '.' coordinate are parsed, not imported",
    "database round trip through the GFF3 importer with unique ids (merge_strategy='error'); keys ID/Parent are fixed",
    "edit: 'describes the edited feature' = agrees with what feature.attributes and the column attributes show at that "
    "time; an in-place operation on the list handed out by attributes[k] (always_return_list=True) may or may not be "
    "reflected by the mapping (both accepted, counted) but every observation must agree with the mapping; in-place "
    "operations are not carried out on tuples / on empty lists where Python would raise; the attribute column of the "
    "printed line is read only while the feature carries the plain dialect of its format (GFF3 k=v1,v2;flag / GTF "
    "k \"v1,v2\";), with a reference reader, not with gffutils' dialect inference; the feature parsed from the proper "
    "line is compared only when the parser gives it the dialect of the edited feature and the intended attributes",
    "member-named keys: the statement makes no exception for any key, so 'through the Feature' (f[key], key a str) reaches "
    "the attributes mapping whatever the key is called; the fixed columns are reached by position (f[3]) or attribute",
    "parameter-named keys: the statement makes no exception for any key; the key 'self' is never given as a KEYWORD "
    "(update(self=...) is refused by Python's call itself for any method written in Python), it goes through update(dict)",
    "korder: 'keeps key order' = the order of the feature's own mapping, whatever order printing uses (keep_order prints "
    "in the dialect's order); a write-back stores the feature as it is when written; lines whose parser reading differs "
    "from the written attributes are skipped (ctor / line) or judged as read (db)",
    "sjson: hand-built features keep a list-valued ID (what the importer does with a scalar ID of a hand-built object is "
    "not covered by the statement); the raw column written for them is not judged, only what is read back; the "
    "feature parsed from the proper line is compared only when it prints like the list form",
]
QUICK_SHARDS = 4
THOROUGH_SHARDS = 16

GTF_DIALECT = {"leading semicolon": False, "trailing semicolon": True, "quoted GFF2 values": True, "field separator": "; ",
               "keyval separator": " ", "multival separator": ",", "fmt": "gtf", "repeated keys": False,
               "order": ["gene_id", "transcript_id"]}
BASE_LINE = "chr1\tsrc\tgene\t10\t20\t.\t+\t.\tID=base"


def setup(ctx):
    contracts.install_attributes()


class Switch(object):
    """always_return_list = value inside the block, True afterwards whatever happens."""

    def __init__(self, value):
        self.value = value

    def __enter__(self):
        from gffutils import constants

        constants.always_return_list = bool(self.value)

    def __exit__(self, *a):
        from gffutils import constants

        constants.always_return_list = True
        return False


def drain(ctx, case):
    for v in contracts.drain():
        v = dict(v)
        v["why"] = "contract: " + v.get("why", "")
        ctx.violation(case, v)


def execute(ctx, case):
    from gffutils import constants

    try:
        return KINDS[case["kind"]](ctx, case)
    finally:
        constants.always_return_list = True


# ---------------------------------------------------------------------------------
# observation helpers (switch must be True)
# ---------------------------------------------------------------------------------
def observe(attrs):
    """[[key, stored value]] through the public mapping interface, or a reason why that is impossible."""
    out = []
    for k in list(attrs.keys()):
        out.append([k, attrs[k]])
    return out


def bad_value(pairs):
    for k, v in pairs:
        if not M.is_sequence_of_str(v):
            return "a stored attribute value is not a sequence of strings"
    return None


def bad_detail(pairs):
    for k, v in pairs:
        if not M.is_sequence_of_str(v):
            return {"key": k, "stored": repr(v)}
    return {}


def as_lists(pairs):
    return [[k, list(v)] for k, v in pairs]


def text_of_forms(items):
    return "".join(k + ("".join(f[1]) if f[0] != "scalar" else f[1]) for k, f in items)


def param_line(pairs, i=0):
    """GFF3 line whose attribute column carries the pairs as they are ([[key, [plain values]]])."""
    return "chr1\tsrc\tgene\t%d\t%d\t.\t+\t.\t%s" % (10 + i, 500 + i, ";".join("%s=%s" % (k, ",".join(v)) for k, v in pairs))


# ---------------------------------------------------------------------------------
# kind json
# ---------------------------------------------------------------------------------
def run_json(ctx, case):
    from gffutils import helpers
    from gffutils.attributes import Attributes
    from gffutils.feature import Feature, feature_from_line

    items = case["items"]
    parsed = case.get("parsed")
    try:
        if parsed:
            # the mapping starts as what the parser made of a line (ID=g1;self=yes;kwargs=a,b), the items are set on top
            f = feature_from_line(param_line(parsed))
        else:
            f = feature_from_line(BASE_LINE)
            for k in list(f.attributes.keys()):
                del f.attributes[k]
        for k, form in items:
            f[k] = M.build(form)
        with Switch(case.get("switch", True)):
            text = helpers._jsonify(f.attributes)
            back = helpers._unjsonify(text, isattributes=True)
            text2 = helpers._jsonify(back)
            eq = (back == f.attributes) and (f.attributes == back)
            col = f.astuple()[9]
            g = Feature(seqid="chr1", source="src", featuretype="gene", start=10, end=20, attributes=text)
        here = observe(f.attributes)
        there = observe(back)
        ctor = observe(g.attributes)
    except Exception as ex:
        ctx.violation(case, {"why": "JSON conversion raised %s" % type(ex).__name__, "exception": repr(ex)})
        contracts.drain()
        return
    want = [[k, list(v)] for k, v in parsed or []] + [[k, M.expected_sequence(form)] for k, form in items]
    if parsed:
        ctx.mon("json: mappings parsed from a line carrying parameter-named keys")
        ctx.mon("json: parameter-named keys taken through the stored JSON text and back", sum(1 for k, _ in parsed if G.is_param_key(k)))
        for k, _ in parsed:
            if G.is_param_key(k):
                ctx.classes["parsed key '%s' through JSON text" % k] += 1
    why = None
    extra = {}
    if not isinstance(text, str):
        why = "_jsonify did not return text"
    elif bad_value(here) or sorted(k for k, _ in here) != sorted(k for k, _ in want) or dict(as_lists(here)) != dict(want):
        why = bad_value(here) or "attributes of the feature differ from what was set"
        extra = bad_detail(here) or {"got": as_lists(here), "expected": want}
    else:
        order = [k for k, _ in here]
        want = [[k, dict(want)[k]] for k in order]
        try:
            indep = json.loads(text, object_pairs_hook=lambda kv: [[k, v] for k, v in kv])
        except ValueError as ex:
            indep = "stdlib json cannot read the text: %r" % (ex,)
        ctx.mon("json: stdlib json decodes compared")
        if indep != want:
            why = "JSON text read with the stdlib json module differs from the attributes (keys, order or values)"
            extra = {"json": text, "read": indep, "expected": want}
        elif not isinstance(back, Attributes):
            why = "_unjsonify(isattributes=True) returned %s" % type(back).__name__
        elif bad_value(there) or as_lists(there) != want:
            why = "_unjsonify(_jsonify(a)) differs from a (keys, key order or values)"
            extra = {"json": text, "got": repr(there), "expected": want}
        elif not eq and not any(form[0] in M.TUPLE_FORMS for _, form in items):
            why = "_unjsonify(_jsonify(a)) == a is False"
            extra = {"json": text}
        elif text2 != text:
            why = "second conversion to JSON gives a different text"
            extra = {"first": text, "second": text2}
        elif col != text:
            why = "astuple() attribute column differs from _jsonify(attributes)"
            extra = {"astuple": col, "json": text}
        elif bad_value(ctor) or as_lists(ctor) != want:
            why = "Feature(attributes=<JSON text>) differs from the original attributes"
            extra = {"json": text, "got": repr(ctor), "expected": want}
    ctx.mon("json: identities checked")
    if any(form[0] in M.SUBCLASS_FORMS for _, form in items):
        ctx.mon("json: mappings with a value set as an instance of a list / tuple / str subclass")
    ctx.mon("json: Feature(attributes=text) round trips")
    if any(G.has_surrogate(c) for c in text_of_forms(items)):
        ctx.mon("json: mappings with lone surrogates")
    if len(items) >= 2 and [k for k, _ in items] != sorted(k for k, _ in items):
        ctx.mon("json: mappings whose keys are not in sorted order")
    if why:
        ctx.violation(case, dict({"why": why}, **extra))
        contracts.drain()
        return
    drain(ctx, case)


# ---------------------------------------------------------------------------------
# kind merge
# ---------------------------------------------------------------------------------
def build_arg(pairs, typ, shared=False, sub=False):
    """shared=True: keys whose value lists are equal hold ONE list object (what f['Name'] = f['ID'] leaves behind).
    sub=True: value lists are TagList(list) instances, scalars Name(str) instances."""
    from gffutils.attributes import Attributes

    made = []

    def value(v):
        if isinstance(v, str):
            return M.Name(v) if sub else v
        if shared:
            for old in made:
                if old == list(v):
                    return old
        new = M.TagList(v) if sub else list(v)
        made.append(new)
        return new
    if typ in MAPPING_TYPES:
        return mapping_of(typ, [(k, value(v)) for k, v in pairs])
    a = Attributes()
    for k, v in pairs:
        a[k] = value(v)
    return a


class LenientDict(dict):
    """dict subclass that answers a missing key with an empty list without storing it (like collections.Counter does
    with 0)."""

    def __missing__(self, key):
        return []


MAPPING_TYPES = ("dict", "ordereddict", "defaultdict", "lenientdict")
OTHER_MAPPING_TYPES = MAPPING_TYPES[1:]


def mapping_of(typ, items):
    """The argument as one of the dict types callers hold attribute tables in: plain dict, OrderedDict,
    defaultdict(list) (the accumulator idiom), a dict subclass with a __missing__ hook."""
    import collections

    if typ == "dict":
        return dict(items)
    if typ == "ordereddict":
        return collections.OrderedDict(items)
    if typ == "defaultdict":
        return collections.defaultdict(list, items)
    return LenientDict(items)


def snapshot(obj):
    """Deep, order-sensitive picture of an argument (taken while always_return_list is True)."""
    out = [type(obj).__name__]
    for k in list(obj.keys()):
        v = obj[k]
        out.append([k, type(v).__name__, v if isinstance(v, str) else [[type(x).__name__, x] for x in v]])
    return out


def run_merge(ctx, case):
    from gffutils import helpers

    a_pairs, b_pairs = case["a"], case["b"]
    pre = "" if case.get("switch", True) else "while always_return_list is False: "
    a = build_arg(a_pairs, case["a_type"], shared=case.get("a_shared", False), sub=case.get("a_sub", False))
    b = build_arg(b_pairs, case["b_type"], shared=case.get("b_shared", False), sub=case.get("b_sub", False))
    if case.get("a_sub") or case.get("b_sub"):
        ctx.mon("merge: calls with values given as list / str subclass instances")
    for which, obj in (("a", a), ("b", b)):
        if case.get(which + "_shared"):
            lists = [id(v) for v in getattr(obj, "_d", obj).values() if isinstance(v, list)]
            if len(lists) != len(set(lists)):
                ctx.mon("merge: arguments in which two keys share one list object")
    for which, typ, mine, other in (("first", case["a_type"], a_pairs, b_pairs), ("second", case["b_type"], b_pairs, a_pairs)):
        if typ in OTHER_MAPPING_TYPES:
            ctx.mon("merge: calls with an argument given as OrderedDict / defaultdict(list) / dict subclass with __missing__")
            ctx.mon("merge: %s argument given as %s" % (which, typ))
            if typ != "ordereddict" and set(k for k, _ in other) - set(k for k, _ in mine):
                ctx.mon("merge: arguments with a __missing__ hook lacking a key of the other argument")
    # what the arguments hold once built (an Attributes object wraps scalars)
    before = (snapshot(a), snapshot(b))
    try:
        with Switch(case.get("switch", True)):
            res = helpers.merge_attributes(a, b, numeric_sort=case["numeric_sort"])
        result_pairs = [[k, res[k]] for k in res.keys()]
    except Exception as ex:
        ctx.violation(case, {"why": pre + "merge_attributes raised %s" % type(ex).__name__, "exception": repr(ex)})
        contracts.drain()
        return
    ctx.mon("merge: calls" if not pre else "merge: calls while always_return_list=False")
    after = (snapshot(a), snapshot(b))
    ctx.mon("merge: argument snapshots compared", 2)
    if before != after:
        which = "first" if before[0] != after[0] else "second"
        ctx.violation(case, {"why": pre + "merge_attributes modified its %s argument" % which,
                             "before": before[0 if which == "first" else 1], "after": after[0 if which == "first" else 1]})
        contracts.drain()
        return
    why, detail, classes = M.judge_merge(result_pairs, a_pairs, b_pairs, case["numeric_sort"])
    for c in classes:
        ctx.mon({"numeric": "merge: keys judged in numeric order", "text": "merge: keys judged in text order",
                 "plain": "merge: keys judged in text order",
                 "unclear": "merge: keys judged on elements only (nan/inf/unclear literals)"}[c])
    if why:
        ctx.violation(case, dict({"why": pre + "merge_attributes: " + why}, **detail))
        contracts.drain()
        return
    drain(ctx, case)


# ---------------------------------------------------------------------------------
# kind db
# ---------------------------------------------------------------------------------
def build_features(specs):
    from gffutils.feature import feature_from_line

    feats, want = [], {}
    for i, spec in enumerate(specs):
        # line_attrs: further attributes the LINE carries (parameter-named keys: ID=f0;self=yes), read by the parser
        la = [[k, list(v)] for k, v in spec.get("line_attrs") or []]
        f = feature_from_line(param_line([["ID", [spec["id"]]]] + la, i))
        for k, form in spec["items"]:
            f[k] = M.build(form)
        feats.append(f)
        want[spec["id"]] = [["ID", [spec["id"]]]] + la + [[k, M.expected_sequence(form)] for k, form in spec["items"]]
    return feats, want


def latin1(b):
    return b.decode("latin-1")


def non_ascii(pairs):
    return any(ord(ch) > 127 for k, v in pairs for x in [k] + list(v) for ch in x)


def raw_columns(ctx, case, db, want, what):
    """The attributes column as it is stored (bytes, independent of the connection's text_factory): JSON text the
    stdlib json module decodes to the attributes, and - as on the unchanged tree - ASCII characters only."""
    rows = db.conn.execute("SELECT id, CAST(attributes AS BLOB) FROM features").fetchall()
    for fid, blob in rows:
        blob = bytes(blob)
        exp = want.get(fid)
        ctx.mon("db: raw attributes columns read as bytes")
        ascii_only = all(b < 128 for b in blob)
        ctx.mon("db: raw attributes columns that are pure ASCII" if ascii_only else "db: raw attributes columns holding non-ASCII bytes")
        try:
            dec = [[k, M.values_of(v)] for k, v in json.loads(blob.decode("utf-8"), object_pairs_hook=list)]
        except (ValueError, TypeError, AttributeError) as ex:
            dec = "not decodable: %r" % (ex,)
        if dec != exp:
            ctx.violation(case, {"why": "%s: raw attributes column is not JSON text that the stdlib json module decodes to the attributes" % what,
                                 "id": fid, "column": repr(blob)[:400], "decoded": dec, "expected": exp})
            return False
        if not ascii_only:
            ctx.violation(case, {"why": "%s: raw attributes column holds non-ASCII characters (the stored JSON text writes every "
                                        "non-ASCII character as an escape, which keeps it the identity whatever decodes the column)" % what,
                                 "id": fid, "column": repr(blob)[:400]})
            return False
        if exp and non_ascii(exp):
            ctx.mon("db: non-ASCII content found stored as ASCII escapes")
    return True


def compare_db(ctx, case, db, want, what, counter="db: features read back"):
    seen = 0
    try:
        for fid, exp in want.items():
            g = db[fid]
            got = observe(g.attributes)
            ctx.mon(counter)
            if any(G.is_param_key(k) for k, _ in exp):
                ctx.mon("db: features carrying parameter-named keys read back (db[id])")
            if counter == "db: features read back":
                flat = "".join(k + "".join(v) for k, v in exp)
                if G.has_surrogate(flat):
                    ctx.mon("db: features with lone surrogates read back")
                if any(ord(ch) > 0xFFFF for ch in flat):
                    ctx.mon("db: features with characters outside the BMP read back")
            if bad_value(got) or as_lists(got) != exp:
                ctx.violation(case, {"why": "%s: attributes read back from the database differ (keys, order or values)" % what,
                                     "id": fid, "got": repr(got), "expected": exp})
                return False
        for g in db.all_features():
            seen += 1
            got = observe(g.attributes)
            if g.id not in want or bad_value(got) or as_lists(got) != want[g.id]:
                ctx.violation(case, {"why": "%s: all_features() yields different attributes" % what, "id": g.id,
                                     "got": repr(got), "expected": want.get(g.id)})
                return False
    except Exception as ex:
        ctx.violation(case, {"why": "%s: reading back raised %s" % (what, type(ex).__name__), "exception": repr(ex)})
        return False
    if seen != len(want):
        ctx.violation(case, {"why": "%s: %d features stored for %d given" % (what, seen, len(want))})
        return False
    raw = dbdump.dump_db(db)
    for row in raw["features"]:
        ctx.mon("db: raw JSON columns decoded with stdlib json")
        if row["attributes"] != want.get(row["id"]):
            ctx.violation(case, {"why": "%s: raw attributes column (sqlite3 + stdlib json) differs" % what, "id": row["id"],
                                 "got": row["attributes"], "expected": want.get(row["id"])})
            return False
    return raw_columns(ctx, case, db, want, what)


def run_db(ctx, case):
    import gffutils

    specs = case["features"]
    dbfn = ctx.tmp(".db") if case["file"] else ":memory:"
    db = None
    try:
        try:
            feats, want = build_features(specs)
            if case["route"] == "create" or len(feats) < 2:
                db = gffutils.create_db(iter(feats), dbfn, merge_strategy="error")
            else:
                db = gffutils.create_db(iter(feats[:1]), dbfn, merge_strategy="error")
                db.update(iter(feats[1:]), merge_strategy="error")
        except Exception as ex:
            ctx.violation(case, {"why": "storing features raised %s" % type(ex).__name__, "exception": repr(ex)})
            contracts.drain()
            return
        npar = sum(1 for spec in specs for k, _ in spec.get("line_attrs") or [] if G.is_param_key(k))
        if npar:
            ctx.mon("db: parsed parameter-named keys stored", npar)
            ctx.mon("db: features carrying parsed parameter-named keys stored", sum(1 for spec in specs if spec.get("line_attrs")))
        nsub = sum(1 for spec in specs for _, form in spec["items"] if form[0] in M.SUBCLASS_FORMS)
        if nsub:
            ctx.mon("db: values set as instances of list / tuple / str subclasses stored", nsub)
        ok = compare_db(ctx, case, db, want, "after " + case["route"])
        if ok and case["file"]:
            db.conn.close()
            db = gffutils.FeatureDB(dbfn)
            ctx.mon("db: reopened databases")
            ok = compare_db(ctx, case, db, want, "after close/reopen")
            if ok and case.get("latin1"):
                # the stored JSON text is pure ASCII, so a connection that decodes text as latin-1 reads the same attributes
                db.conn.close()
                db = gffutils.FeatureDB(dbfn, text_factory=latin1)
                ctx.mon("db: databases reopened with a latin-1 text_factory")
                ok = compare_db(ctx, case, db, want, "after reopening with text_factory = bytes.decode('latin-1')",
                                counter="db: features read back through a latin-1 text_factory")
                if ok and non_ascii([p for exp in want.values() for p in exp]):
                    ctx.mon("db: non-ASCII attributes compared through a latin-1 text_factory")
                db.conn.close()
                db = gffutils.FeatureDB(dbfn)
        if ok and case.get("again"):
            # read, set more values on the database feature, store it back (replace), read again
            fid = specs[0]["id"]
            g = db[fid]
            exp = M.Model(want[fid])
            for k, form in case["again"]:
                g[k] = M.build(form)
                exp.set(k, form)
            try:
                db.update([g], merge_strategy="replace")
            except Exception as ex:
                ctx.violation(case, {"why": "update(replace) raised %s" % type(ex).__name__, "exception": repr(ex)})
                ok = False
            if ok:
                want = dict(want)
                want[fid] = exp.pairs()
                ok = compare_db(ctx, case, db, want, "after update(replace) of a modified database feature")
    finally:
        try:
            if db is not None:
                db.conn.close()
        except Exception:
            pass
        if dbfn != ":memory:" and os.path.exists(dbfn):
            os.unlink(dbfn)
    if not ok:
        contracts.drain()
        return
    drain(ctx, case)


# ---------------------------------------------------------------------------------
# kind eq
# ---------------------------------------------------------------------------------
class Coord(int):
    """An int subclass (what numpy-free callers get from their own coordinate types); prints like the int."""


COORD_FIELDS = {3: "start", 4: "end"}


def coordinate_value(text, form):
    """The value a caller assigns to a coordinate column: the text of that column as it stands in a line ('10', '.'),
    or the number as an int / int-subclass / float object."""
    if form == "text" or not text.isdigit():
        return text
    if form == "int":
        return int(text)
    if form == "intsub":
        return Coord(text)
    if form == "float":
        return float(int(text))
    return "0" + text  # "padded": another text for the same number


def build_spec(spec, dbs):
    import gffutils
    from gffutils.feature import Feature, feature_from_line

    if spec["via"] == "assigned":
        # a feature obtained from "from" (line / db) whose coordinate columns the caller then assigns (attribute, feature[i],
        # stop alias), each with the text / number that stands in column i of the line "take"
        f = build_spec({"via": spec["from"], "line": spec["line"]}, dbs)
        cols = spec["take"].split("\t")
        for st in spec["sets"]:
            value = coordinate_value(cols[st["field"]], st["as"])
            if st["via"] == "index":
                f[st["field"]] = value
            elif st["via"] == "alias" and st["field"] == 4:
                f.stop = value
            else:
                setattr(f, COORD_FIELDS[st["field"]], value)
        return f
    if spec["via"] == "line":
        return feature_from_line(spec["line"], keep_order=bool(spec.get("keep_order")))
    if spec["via"] == "db":
        db = gffutils.create_db(spec["line"], ":memory:", from_string=True)
        dbs.append(db)
        return next(iter(db.all_features()))
    if spec["via"] == "dbdup":
        # the line written n times: without ID attribute the records get generated keys (gene_1, gene_2), with an ID and
        # merge_strategy='create_unique' suffixed keys (x, x_1); the pick-th record under its own primary key
        db = gffutils.create_db("\n".join([spec["line"]] * spec["n"]) + "\n", ":memory:", from_string=True,
                                merge_strategy="create_unique" if spec["strategy"] == "create_unique" else "error")
        dbs.append(db)
        feats = sorted(db.all_features(), key=lambda f: f.id)
        if len(feats) != spec["n"] or len(set(f.id for f in feats)) != spec["n"]:
            raise AssertionError("harness: %d records under %d keys for a line written %d times" % (
                len(feats), len(set(f.id for f in feats)), spec["n"]))
        return feats[spec["pick"]]
    c = spec["cols"]
    attrs = {}
    for k, form in spec["attrs"]:
        attrs[k] = M.build(form) if form[0] not in M.SCALAR_FORMS else [M.build(form)]
    return Feature(seqid=c[0], source=c[1], featuretype=c[2], start=c[3], end=c[4], score=c[5], strand=c[6], frame=c[7],
                   attributes=attrs, id=spec.get("id"), extra=list(spec.get("extra") or []),
                   dialect=dict(GTF_DIALECT) if spec["dialect"] == "gtf" else None)


def run_eq(ctx, case):
    dbs = []
    try:
        try:
            feats = [build_spec(s, dbs) for s in case["pool"]]
        except Exception as ex:
            ctx.violation(case, {"why": "building a pool feature raised %s" % type(ex).__name__, "exception": repr(ex)})
            contracts.drain()
            return
        nassigned = sum(1 for sp in case["pool"] if sp["via"] == "assigned")
        if nassigned:
            ctx.mon("eq: pool features whose start/end were assigned by the caller (column text, int, int subclass, float)", nassigned)
        with Switch(case.get("switch", True)):
            try:
                keys = [M.near_keys(str(f)) for f in feats]
            except Exception as ex:
                ctx.violation(case, {"why": "printing a pool feature raised %s" % type(ex).__name__, "exception": repr(ex)})
                return
            for i, a in enumerate(feats):
                for j, b in enumerate(feats):
                    try:
                        sa, sb = str(a), str(b)
                        e = a == b
                        ne = a != b
                        ha, hb = hash(a), hash(b)
                        ta, tb = a.astuple(), b.astuple()
                    except Exception as ex:
                        ctx.violation(case, {"why": "comparing two features raised %s" % type(ex).__name__,
                                             "exception": repr(ex), "i": i, "j": j})
                        return
                    ctx.mon("eq: ordered pairs")
                    same = sa == sb
                    if same and i != j:
                        ctx.mon("eq: equal pairs of distinct objects")
                        if type(a.start) is not type(b.start) or type(a.end) is not type(b.end):
                            ctx.mon("eq: equal pairs whose coordinates are held as objects of different types (int / text / None)")
                        ia, ib = getattr(a, "id", None), getattr(b, "id", None)
                        if ia is not None and ib is not None and ia != ib:
                            ctx.mon("eq: pairs of database features with equal printed lines under different primary keys")
                        if ta != tb:
                            ctx.mon("eq: equal pairs with different astuple()")
                    if not same and ta == tb:
                        ctx.mon("eq: unequal pairs with equal astuple()")
                    near = [] if same else M.near_relations(sa, sb, keys[i], keys[j])
                    for rel in near:
                        ctx.mon("eq: pairs whose printed lines differ only by %s" % rel)
                    why = None
                    if bool(e) != same:
                        why = "(a == b) is %r but the printed lines are %s" % (e, "equal" if same else "different")
                    elif bool(ne) != (not e):
                        why = "(a != b) is %r while (a == b) is %r" % (ne, e)
                    elif e and ha != hb:
                        why = "a == b but hash(a) != hash(b)"
                    if why:
                        ctx.violation(case, dict({"why": why, "i": i, "j": j, "a": sa, "b": sb, "spec_a": case["pool"][i],
                                                  "spec_b": case["pool"][j]},
                                                 **({"the printed lines differ only by": near} if near else {})))
                        return
            # a set / dict keeps one member per distinct printed line (follows from == and hash as stated)
            try:
                lines = [str(f) for f in feats]
                sizes = {"set(features)": len(set(feats)), "dict keyed by features": len(dict((f, n) for n, f in enumerate(feats))),
                         "set built in reverse order": len(set(reversed(feats)))}
            except Exception as ex:
                ctx.violation(case, {"why": "building a set/dict of features raised %s" % type(ex).__name__, "exception": repr(ex)})
                return
            ctx.mon("eq: set/dict sizes compared with the number of distinct printed lines", len(sizes))
            if len(set(lines)) < len(lines):
                ctx.mon("eq: sets in which equal features collapse into one member")
            for what, n in sizes.items():
                if n != len(set(lines)):
                    ctx.violation(case, {"why": "%s keeps %d members for %d distinct printed lines" % (what, n, len(set(lines))),
                                         "lines": sorted(set(lines))})
                    return
    finally:
        for db in dbs:
            try:
                db.conn.close()
            except Exception:
                pass
    drain(ctx, case)


# ---------------------------------------------------------------------------------
# kinds set / print
# ---------------------------------------------------------------------------------
def base_text(case):
    base = case["base"]
    if case["fmt"] == "gtf":
        attr = " ".join('%s "%s";' % (k, v[0] if v else "") for k, v in base)
        typ = "exon"
    else:
        attr = ";".join((k + "=" + ",".join(v)) if v else k for k, v in base)
        typ = "gene"
    return "chr1\tsrc\t%s\t10\t20\t.\t+\t.\t%s" % (typ, attr)


def base_cols(case):
    return ["chr1", "src", "exon" if case["fmt"] == "gtf" else "gene", 10, 20, ".", "+", "."]


JSON_ORIGINS = ("jsontext", "jsondb")


def obtain(case, dbs):
    """The feature of a set / print / edit case.  origin: line (parsed), db (imported, fetched), jsontext
    (Feature(attributes=<JSON text with scalar values>)), jsondb (imported, attributes column rewritten with a plain
    UPDATE to JSON text with scalar values, fetched)."""
    import gffutils
    from gffutils.feature import Feature, feature_from_line

    line = base_text(case)
    origin = case["origin"]
    if origin == "line":
        return feature_from_line(line)
    if origin == "jsontext":
        c = base_cols(case)
        return Feature(seqid=c[0], source=c[1], featuretype=c[2], start=c[3], end=c[4], score=c[5], strand=c[6], frame=c[7],
                       attributes=M.scalar_json(case["json_base"], case.get("json_style", 0)),
                       dialect=dict(GTF_DIALECT) if case["fmt"] == "gtf" else None)
    from gffutils import constants
    fetching_under = constants.always_return_list
    # the import itself runs under the default setting unless the case says otherwise (see F-C17-4)
    constants.always_return_list = bool(case.get("import_switch", True))
    try:
        db = gffutils.create_db(line, ":memory:", from_string=True)
    finally:
        constants.always_return_list = fetching_under
    dbs.append(db)
    for f in db.all_features():
        if f.source != "gffutils_derived":
            break
    else:
        raise AssertionError("harness: the imported line is not in the database")
    if origin == "jsondb":
        cur = db.conn.execute("UPDATE features SET attributes = ? WHERE id = ?",
                              (M.scalar_json(case["json_base"], case.get("json_style", 0)), f.id))
        if cur.rowcount != 1:
            raise AssertionError("harness: UPDATE touched %r rows" % (cur.rowcount,))
        db.conn.commit()
        f = db[f.id]
    return f


def apply_op(f, op):
    from gffutils.attributes import Attributes

    items = [(k, M.build(form)) for k, form in op["items"]]
    how = op["how"]
    if how == "feature_setitem":
        for k, v in items:
            f[k] = v
    elif how == "attr_setitem":
        for k, v in items:
            f.attributes[k] = v
    elif how == "update_dict":
        f.attributes.update(dict(items))
    elif how == "update_kwargs":
        f.attributes.update(**dict(items))
    elif how == "update_pairs":
        f.attributes.update(items)
    elif how == "update_attrs":
        other = Attributes()
        for k, v in items:
            other[k] = v
        f.attributes.update(other)
    elif how == "setdefault":
        for k, v in items:
            f.attributes.setdefault(k, v)
    elif how == "delete":
        for k, _ in items:
            if k in f.attributes:
                del f.attributes[k]
    else:
        raise AssertionError("harness: unknown operation %r" % how)


def prepared(ctx, case, dbs):
    """Feature after the case's operations + the model's mapping; None after reporting a violation."""
    try:
        if case.get("obtain_switch", True):
            f = obtain(case, dbs)
        else:
            # parsed / imported / fetched while always_return_list is False: the switch only changes how one-item lists
            # are viewed, so what is stored is what the same steps store under the default setting
            ref = observe(obtain(case, dbs).attributes)
            with Switch(False):
                f = obtain(case, dbs)
            ctx.mon("set: features obtained while always_return_list=False")
            if case.get("import_switch") is False:
                ctx.mon("set: databases imported while always_return_list=False")
            if as_lists(observe(f.attributes)) != as_lists(ref):
                ctx.violation(case, {"why": "a feature parsed or read while always_return_list was False stores other values than "
                                            "under the default setting", "origin": case["origin"],
                                     "stored": as_lists(observe(f.attributes)), "default": as_lists(ref)})
                return None
        start = observe(f.attributes)
    except Exception as ex:
        ctx.violation(case, {"why": "obtaining the feature raised %s" % type(ex).__name__, "exception": repr(ex),
                             "always_return_list while obtaining": case.get("obtain_switch", True)})
        return None
    if bad_value(start):
        ctx.violation(case, dict({"why": "freshly obtained feature: " + bad_value(start)}, **bad_detail(start)))
        return None
    if case["origin"] in JSON_ORIGINS:
        ctx.mon("set: features obtained from scalar-valued JSON")
        if as_lists(start) != [[k, list(v)] for k, v in case["base"]]:
            ctx.violation(case, {"why": "feature obtained from JSON text with scalar values: attributes are not the wrapped values",
                                 "got": as_lists(start), "expected": case["base"]})
            return None
    model = M.Model(as_lists(start))
    for n, op in enumerate(case["ops"]):
        try:
            with Switch(op.get("switch", True)):
                apply_op(f, op)
        except Exception as ex:
            ctx.violation(case, {"why": "operation %s raised %s" % (op["how"], type(ex).__name__), "exception": repr(ex), "op": n})
            return None
        for k, form in op["items"]:
            if op["how"] == "delete":
                model.delete(k)
            elif op["how"] == "setdefault":
                if k not in model.d:
                    ctx.mon("set: setdefault with a %s default on a missing key" % form[0])
                model.setdefault(k, form)
            else:
                model.set(k, form)
    return f, model


def close_all(dbs):
    """dbs holds FeatureDB objects and ("path", filename) entries."""
    for db in dbs:
        if isinstance(db, tuple):
            continue
        try:
            db.conn.close()
        except Exception:
            pass
    for db in dbs:
        if isinstance(db, tuple):
            for p in (db[1], db[1] + "-journal"):
                if os.path.exists(p):
                    os.unlink(p)


def run_set(ctx, case):
    from gffutils import helpers

    dbs = []
    try:
        got = prepared(ctx, case, dbs)
        if got is None:
            contracts.drain()
            return
        f, model = got
        want = dict(model.pairs())
        try:
            now = observe(f.attributes)
            via_feature = [[k, f[k]] for k, _ in now]
            cols_now = [f.seqid, f.source, f.featuretype, f.start, f.end, f.score, f.strand, f.frame]
            t1 = f.astuple()
            j1 = helpers._jsonify(f.attributes)
            with Switch(False):
                view = observe(f.attributes)
                view_feature = [[k, f[k]] for k, _ in view]
                view_items = [list(kv) for kv in f.attributes.items()]
                t0 = f.astuple()
                j0 = helpers._jsonify(f.attributes)
            again = observe(f.attributes)
            j2 = helpers._jsonify(f.attributes)
            jback = observe(helpers._unjsonify(j1, isattributes=True))
        except Exception as ex:
            ctx.violation(case, {"why": "observing the feature raised %s" % type(ex).__name__, "exception": repr(ex)})
            contracts.drain()
            return
        why, extra = None, {}
        ctx.mon("set: stored values checked", len(now))
        for op in case["ops"]:
            if op["how"] != "delete":
                if not op.get("switch", True):
                    ctx.mon("set: operations while always_return_list=False")
                for _, form in op["items"]:
                    ctx.mon("set: %s-set values" % form[0])
                    if form[0] in M.SUBCLASS_FORMS:
                        ctx.mon("set: subclass instances set through %s" % op["how"])
                        ctx.mon("set: subclass instances set while always_return_list=%s" % bool(op.get("switch", True)))
        ctx.mon("set: fixed columns compared after the attribute operations")
        ctx.mon("set: stored JSON text converted back and compared")
        member_counters(ctx, case, now)
        param_counters(ctx, case, now)
        if bad_value(now):
            why = bad_value(now)
            extra = bad_detail(now)
        elif len(now) != len(want) or any(k not in want or list(v) != want[k] for k, v in now):
            why = "stored values differ from what was set"
            extra = {"got": as_lists(now), "expected": model.pairs()}
        elif via_feature != now:
            why = "feature[k] differs from feature.attributes[k]"
            extra = {"feature[k]": repr(via_feature), "feature.attributes[k]": repr(now)}
        elif cols_now != base_cols(case):
            why = "setting / reading attributes changed the fixed columns of the feature"
            extra = {"columns": repr(cols_now), "expected": repr(base_cols(case))}
        elif t0 != t1:
            why = "astuple() depends on always_return_list"
            extra = {"True": repr(t1), "False": repr(t0)}
        elif j0 != j1 or j2 != j1:
            why = "_jsonify(attributes) depends on always_return_list"
            extra = {"True": j1, "False": j0, "True again": j2}
        elif again != now or [type(v) for _, v in again] != [type(v) for _, v in now]:
            why = "stored values changed by looking at them while always_return_list was False"
            extra = {"before": repr(now), "after": repr(again)}
        elif [k for k, _ in view] != [k for k, _ in now] or view_feature != view or view_items != view:
            why = "keys()/items()/feature[k] disagree while always_return_list is False"
        else:
            try:
                indep = dict(json.loads(j1, object_pairs_hook=lambda kv: [[k, v] for k, v in kv]))
            except ValueError:
                indep = None
            if indep != want:
                why = "stored JSON text (stdlib reader) differs from what was set"
                extra = {"json": j1, "expected": model.pairs()}
            elif bad_value(jback) or as_lists(jback) != as_lists(now):
                why = "stored JSON text converted back (_unjsonify) differs from the attributes (keys, key order or values)"
                extra = {"json": j1, "got": repr(jback), "expected": as_lists(now)}
            for (k, stored), (_, seen) in zip(now, view):
                if why:
                    break
                ok, changed = M.view_ok(stored, seen)
                if not ok:
                    why = "always_return_list=False changes the view of a value that is not a one-item list"
                    extra = {"key": k, "stored": repr(stored), "viewed": repr(seen)}
                elif changed:
                    ctx.mon("set: one-item views that differ between the settings")
                elif len(stored) != 1:
                    ctx.mon("set: multi-item/empty views compared")
        if why:
            ctx.violation(case, dict({"why": why}, **extra))
            contracts.drain()
            return
        bad = merge_afterwards(ctx, case, f, now)
        if bad:
            ctx.violation(case, bad)
            contracts.drain()
            return
    finally:
        close_all(dbs)
    drain(ctx, case)


def member_counters(ctx, case, now):
    """What a set case did with attribute keys spelled like the fixed columns / other members of a Feature."""
    names = set(G.MEMBER_NAMES)
    cols = set(G.COLUMN_NAMES)
    for op in case["ops"]:
        if op["how"] == "delete":
            continue
        for k, _ in op["items"]:
            if k in names:
                ctx.mon("set: keys spelled like Feature members set through %s" % (
                    "the Feature" if op["how"] == "feature_setitem" else "the attributes mapping"))
                if k in cols and op["how"] == "feature_setitem":
                    ctx.mon("set: keys spelled like the eight fixed columns set through the Feature")
                if not op.get("switch", True):
                    ctx.mon("set: keys spelled like Feature members set while always_return_list=False")
    n = sum(1 for k, _ in now if k in names)
    if n:
        ctx.mon("set: keys spelled like Feature members read through the Feature and through feature.attributes", n)
        ctx.mon("set: keys spelled like Feature members viewed while always_return_list=False", n)
    carried = [k for k, _ in case["base"] if k in names]
    if carried:
        ctx.mon("set: features obtained from %s carrying attributes spelled like Feature members" % (
            "a database" if case["origin"] in ("db", "jsondb") else "a line / JSON text"))


def param_counters(ctx, case, now):
    """What a set case did with attribute keys spelled like parameter names (self, cls, args, kwargs, other, d, key, value...)."""
    carried = [k for k, _ in case["base"] if G.is_param_key(k)]
    if carried:
        where = {"line": "a parsed line", "db": "a database", "jsontext": "JSON text", "jsondb": "a database row holding scalar-valued JSON"}[case["origin"]]
        ctx.mon("set: features obtained from %s carrying parameter-named keys" % where)
        ctx.mon("set: parameter-named keys that arrived by parsing / from a database", len(carried))
        if not case.get("obtain_switch", True):
            ctx.mon("set: features carrying parameter-named keys obtained while always_return_list=False")
        for k in carried:
            ctx.classes["key '%s' origin=%s" % (k, case["origin"])] += 1
    n = sum(1 for k, _ in now if G.is_param_key(k))
    if n:
        ctx.mon("set: parameter-named keys taken through the stored JSON text and back", n)
    for op in case["ops"]:
        if op["how"] != "delete":
            for k, _ in op["items"]:
                if G.is_param_key(k) and k in carried:
                    ctx.mon("set: parsed / stored parameter-named keys set again through %s" % op["how"])


def used_subclass(case):
    return any(form[0] in M.SUBCLASS_FORMS for op in case["ops"] if op["how"] != "delete" for _, form in op["items"])


def merge_afterwards(ctx, case, f, now):
    """merge_attributes keeps working on attributes whose values were set in the ways of the case: the feature's
    attributes merged with a partner mapping (derived from them: first key with one more value, one new key) is the
    per-key sorted duplicate-free union, the feature's attributes stay as they are.  Asked when no tuple is stored
    (tuple-valued arguments: see ASSUMPTIONS)."""
    from gffutils import helpers

    if any(isinstance(v, tuple) for _, v in now):
        ctx.mon("set: merge_attributes afterwards not asked (a tuple is stored)")
        return None
    a_pairs = as_lists(now)
    b_pairs = M.merge_partner(a_pairs)
    before = snapshot(f.attributes)
    switch = len(a_pairs) % 2 == 0
    try:
        with Switch(switch):
            res = helpers.merge_attributes(f.attributes, dict((k, list(v)) for k, v in b_pairs))
        result_pairs = [[k, res[k]] for k in res.keys()]
    except Exception as ex:
        return {"why": "merge_attributes(feature.attributes, other) raised %s after values were set" % type(ex).__name__,
                "exception": repr(ex), "attributes": a_pairs, "other": b_pairs, "always_return_list": switch}
    ctx.mon("set: merge_attributes afterwards judged")
    if used_subclass(case):
        ctx.mon("set: merge_attributes judged after a subclass instance was set")
    if snapshot(f.attributes) != before:
        return {"why": "merge_attributes modified the attributes of the feature given as first argument", "before": before,
                "after": snapshot(f.attributes)}
    why, detail, _classes = M.judge_merge(result_pairs, a_pairs, b_pairs, False)
    if why:
        return dict({"why": "merge_attributes after setting values: " + why, "attributes": a_pairs, "other": b_pairs}, **detail)
    return None


def twin_afterwards(ctx, case, f, model, dbs):
    """A second feature obtained the same way and given the same values as plain lists in one go: == follows the printed
    lines (both ways), equal features hash alike and are one set member."""
    g = obtain(case, dbs)
    for k in list(g.attributes.keys()):
        del g.attributes[k]
    for k, v in model.pairs():
        g.attributes[k] = list(v)
    sf, sg = str(f), str(g)
    e, e2, ne = f == g, g == f, f != g
    ctx.mon("print: twin holding the same values as plain lists compared (==, !=, hash, set)")
    if sf == sg:
        ctx.mon("print: twin prints the same line")
    else:
        ctx.mon("print: twin prints another line (== judged against the lines only)")
    info = {"feature": sf, "twin": sg}
    if bool(e) != (sf == sg) or bool(e2) != (sf == sg) or bool(ne) != (sf != sg):
        return dict(info, why="(a == b) is %r, (b == a) is %r, (a != b) is %r but the printed lines are %s (b = twin given the "
                              "same values as plain lists)" % (e, e2, ne, "equal" if sf == sg else "different"))
    if e and (hash(f) != hash(g) or len({f, g}) != 1):
        return dict(info, why="a == b but hash(a) != hash(b) or a set keeps both (b = twin given the same values as plain lists)")
    return None


def run_print(ctx, case):
    dbs = []
    try:
        got = prepared(ctx, case, dbs)
        if got is None:
            contracts.drain()
            return
        f, model = got
        try:
            s1 = str(f)
            with Switch(False):
                s0 = str(f)
            s2 = str(f)
        except Exception as ex:
            ctx.violation(case, {"why": "printing raised %s (always_return_list toggled)" % type(ex).__name__, "exception": repr(ex)})
            contracts.drain()
            return
        ctx.mon("print: str(feature) compared between the settings")
        if s0 != s1 or s2 != s1:
            ctx.violation(case, {"why": "str(feature) depends on always_return_list", "always_return_list=True": s1,
                                 "always_return_list=False": s0, "attributes": model.pairs()})
            contracts.drain()
            return
        if used_subclass(case):
            ctx.mon("print: features printed after a subclass instance was set")
            for kind in sorted(set(form[0] for op in case["ops"] if op["how"] != "delete" for _, form in op["items"]
                                   if form[0] in M.SUBCLASS_FORMS)):
                ctx.mon("print: features printed after a %s value was set" % kind)
            try:
                bad = twin_afterwards(ctx, case, f, model, dbs)
            except Exception as ex:
                bad = {"why": "comparing with a twin raised %s" % type(ex).__name__, "exception": repr(ex)}
            if bad:
                ctx.violation(case, bad)
                contracts.drain()
                return
    finally:
        close_all(dbs)
    drain(ctx, case)


# ---------------------------------------------------------------------------------
# kind alias: decoding the stored text again is not affected by edits made to an earlier result; equality follows the
# printed line also for features that share the database's dialect object and differ only in key order
# ---------------------------------------------------------------------------------
def run_alias(ctx, case):
    import gffutils
    from gffutils import helpers
    from gffutils.feature import Feature

    lines = case["lines"]
    db = None
    try:
        try:
            db = gffutils.create_db("\n".join(lines), ":memory:", from_string=True, keep_order=False)
            ids = [f.id for f in db.all_features()]
            raw = {r[0]: r[1] for r in db.conn.execute("SELECT id, attributes FROM features")}
            stored = {i: [[k, list(v)] for k, v in json.loads(raw[i], object_pairs_hook=list)] for i in ids}
            for fid in ids:
                a = db[fid]
                keys = list(a.attributes.keys())
                if not keys:
                    continue
                # in-place edits of the value lists of a fetched feature
                a.attributes[keys[0]].append("edited-in-place")
                if len(keys) > 1 and a.attributes[keys[-1]]:
                    a.attributes[keys[-1]][0] = "overwritten-in-place"
                for other in ids:
                    b = db[other]
                    got = [[k, list(b.attributes[k])] for k in b.attributes.keys()]
                    ctx.mon("alias: re-fetched features compared with the stored text")
                    if got != stored[other]:
                        ctx.violation(case, {"why": "a feature fetched again carries an earlier in-place edit instead of the stored values",
                                             "edited": fid, "fetched": other, "got": got, "stored": stored[other]})
                        return
                t1 = helpers._unjsonify(raw[fid], isattributes=True)
                t1[keys[0]].append("x")
                t2 = helpers._unjsonify(raw[fid], isattributes=True)
                g = Feature(seqid="c", start=1, end=2, attributes=raw[fid])
                for name, obj in (("_unjsonify", t2), ("Feature(attributes=text)", g.attributes)):
                    got = [[k, list(obj[k])] for k in obj.keys()]
                    ctx.mon("alias: repeated decodes compared")
                    if got != stored[fid]:
                        ctx.violation(case, {"why": "decoding the stored JSON text again (%s) is affected by an edit of an earlier result" % name,
                                             "got": got, "stored": stored[fid]})
                        return
            # same attributes, different key order, same dialect object
            for fid in ids:
                g, h = db[fid], db[fid]
                keys = list(h.attributes.keys())
                if len(keys) < 2:
                    continue
                v = h.attributes[keys[0]]
                del h.attributes[keys[0]]
                h.attributes[keys[0]] = v
                for x, y in ((g, h), (h, g)):
                    same = str(x) == str(y)
                    e, ne = (x == y), (x != y)
                    ctx.mon("alias: key-order pairs compared")
                    why = None
                    if bool(e) != same:
                        why = "(a == b) is %r but the printed lines are %s" % (e, "equal" if same else "different")
                    elif bool(ne) != (not e):
                        why = "(a != b) is %r while (a == b) is %r" % (ne, e)
                    elif e and hash(x) != hash(y):
                        why = "a == b but hash(a) != hash(b)"
                    if why:
                        ctx.violation(case, {"why": why + " (same database, same attributes, different key order)", "a": str(x), "b": str(y)})
                        return
        except Exception as ex:
            ctx.violation(case, {"why": "alias case raised %s" % type(ex).__name__, "exception": repr(ex)})
            contracts.drain()
            return
    finally:
        if db is not None:
            db.conn.close()
    drain(ctx, case)


# ---------------------------------------------------------------------------------
# kind edit: state carried on ONE object between observations.  str / hash / == / set membership / JSON column are taken,
# the feature is edited (attribute mapping, in-place on a value list, columns), and every later observation must describe
# the feature as it is then: the printed line re-parses to the current columns and attributes, an independently built
# feature with the same columns and attributes is == and hashes alike
# ---------------------------------------------------------------------------------
class EditState(object):
    def __init__(self, cols, pairs):
        self.cols = list(cols)
        self.attrs = M.Model(pairs)
        self.prev = None

    def snapshot(self):
        return (list(self.cols), self.attrs.pairs())


def dialect_core(d):
    return {k: v for k, v in dict(d).items() if k != "order"}


def set_state(g, snap):
    cols, pairs = snap
    for name, val in zip(M.COLUMN_NAMES, cols):
        setattr(g, name, val)
    for k in list(g.attributes.keys()):
        del g.attributes[k]
    for k, v in pairs:
        g.attributes[k] = list(v)
    return g


def build_equal(ctx, case, f, snap, dbs, how):
    """A feature with the columns and attributes of `snap`, built without touching f: 'fresh' = obtained again from the
    same origin and given the state in one go; 'parse' = parsed from the proper line (None when the parser infers
    another dialect than f carries, e.g. for an empty attribute column)."""
    from gffutils.feature import feature_from_line

    if how == "fresh":
        if case["origin"] in ("db", "jsondb"):
            g = dbs[0][f.id]
        else:
            g = obtain(case, dbs)
        return set_state(g, snap)
    g = feature_from_line(M.render_line(snap[0], snap[1], case["fmt"]))
    if dialect_core(g.dialect) != dialect_core(f.dialect) or as_lists(observe(g.attributes)) != snap[1]:
        # the parser's reading of e.g. a line that starts with a valueless key or has no attributes is not C17's business
        ctx.mon("edit: proper line parsed under another dialect / to other attributes (not compared)")
        return None
    return g


def look(ctx, case, f, st, obs, dbs, cache):
    """One observation of f judged against the state; returns a violation detail or None."""
    cols, pairs = st.snapshot()
    if obs == "str":
        s = str(f)
        ctx.mon("edit: printed lines re-parsed and compared")
        fields = s.split("\t")
        if len(fields) != 9 or fields[:8] != M.column_texts(cols):
            return {"why": "printed line does not show the current columns of the edited feature", "line": s,
                    "columns": M.column_texts(cols)}
        if dialect_core(f.dialect) != M.PLAIN_DIALECT[case["fmt"]]:
            ctx.mon("edit: feature carries another dialect than the plain one of its format (attribute column not read)")
            return None
        got = M.read_attributes(fields[8], case["fmt"])
        if got != pairs:
            return {"why": "printed line does not re-parse to the current attributes of the edited feature", "line": s,
                    "reparsed": got, "attributes": pairs}
        return None
    if obs == "json":
        t = f.astuple()
        ctx.mon("edit: JSON column compared")
        try:
            dec = [[k, M.values_of(v)] for k, v in json.loads(t[9], object_pairs_hook=list)]
        except (ValueError, TypeError) as ex:
            dec = repr(ex)
        if dec != pairs or [t[4], t[5]] != cols[3:5]:
            return {"why": "astuple() does not describe the current state of the edited feature", "astuple": repr(t),
                    "attributes": pairs, "columns": M.column_texts(cols)}
        return None
    if obs == "old":
        if st.prev is None or st.prev == (cols, pairs):
            return None
        h = build_equal(ctx, case, f, st.prev, dbs, "fresh")
        same = str(f) == str(h)
        e, ne = f == h, f != h
        ctx.mon("edit: compared with a feature in the state before the edit")
        if bool(e) != same or bool(ne) != (not same):
            return {"why": "(a == b) is %r, (a != b) is %r but the printed lines are %s (a edited, b = the state before the edit)"
                           % (e, ne, "equal" if same else "different"), "a": str(f), "b": str(h)}
        if same and hash(f) != hash(h):
            return {"why": "a == b but hash(a) != hash(b)", "a": str(f), "b": str(h)}
        return None
    # observations against independently built equal features
    hf = hash(f) if obs == "hash" else None
    for how in ("fresh", "parse"):
        if how not in cache:
            cache[how] = build_equal(ctx, case, f, (cols, pairs), dbs, how)
        g = cache[how]
        if g is None:
            continue
        ctx.mon("edit: equal feature built afresh from the same origin" if how == "fresh"
                else "edit: equal feature built by parsing the proper line")
        sf, sg = str(f), str(g)
        e, e2, ne = f == g, g == f, f != g
        info = {"edited": sf, "independent": sg, "independent built": how, "observation": obs}
        if bool(e) != (sf == sg) or bool(e2) != (sf == sg) or bool(ne) != (sf != sg):
            return dict(info, why="(a == b) is %r, (b == a) is %r, (a != b) is %r but the printed lines are %s"
                                  % (e, e2, ne, "equal" if sf == sg else "different"))
        if not e:
            return dict(info, why="edited feature is not == to an independently built feature with the same columns and attributes")
        ctx.mon("edit: == with an independently built equal feature")
        if obs == "hash":
            ctx.mon("edit: hash compared with an independently built equal feature")
            if hf != hash(g) or hash(f) != hash(g):
                return dict(info, why="a == b but hash(a) != hash(b) (a edited after an earlier observation)")
        if obs == "set":
            ctx.mon("edit: set/dict membership judged")
            if not (g in {f} and f in {g} and {f: "v"}.get(g) == "v" and {g: "v"}.get(f) == "v" and len({f, g}) == 1
                    and len({g, f}) == 1):
                return dict(info, why="set/dict built after the edit does not treat the edited feature and an equal feature as one key")
    return None


def apply_edit(ctx, f, st, op):
    """Carries out one edit on f and on the state; returns a violation detail or None."""
    how = op["how"]
    if how == "column":
        name = M.COLUMN_NAMES[op["field"]]
        if op["via"] == "index":
            f[op["field"]] = op["value"]
        elif op["via"] == "alias":
            setattr(f, {"seqid": "chrom", "end": "stop"}[name], op["value"])
        else:
            setattr(f, name, op["value"])
        st.cols[op["field"]] = op["value"]
        ctx.mon("edit: column edits")
        ctx.mon("edit: column edits through %s" % {"index": "feature[i]", "alias": "chrom/stop", "attr": "the attribute"}[op["via"]])
        return None
    if how == "inplace":
        keys = list(f.attributes.keys())
        if not keys:
            ctx.mon("edit: in-place edits not carried out (no key / tuple stored / empty list)")
            return None
        k = keys[op["pick"] % len(keys)]
        lst = f.attributes[k]
        new = M.inplace_result(st.attrs.d.get(k, []), op["what"], op["args"]) if isinstance(lst, list) else None
        if new is None:
            ctx.mon("edit: in-place edits not carried out (no key / tuple stored / empty list)")
            return None
        before = st.attrs.pairs()
        M.do_inplace(lst, op["what"], op["args"])
        cur = observe(f.attributes)
        st.attrs.d[k] = new
        if bad_value(cur):
            return dict({"why": "after an in-place edit of a value list: " + bad_value(cur)}, **bad_detail(cur))
        if as_lists(cur) == st.attrs.pairs():
            ctx.mon("edit: in-place value-list edits")
            ctx.mon("edit: in-place %s" % op["what"])
            return None
        if as_lists(cur) == before:
            # the statement does not say that the list handed out is the stored one
            st.attrs.d[k] = dict(before)[k]
            ctx.mon("edit: in-place edits not reflected by the mapping (accepted)")
            return None
        return {"why": "after an in-place edit of a value list the mapping shows neither the old nor the new values",
                "key": k, "edit": op["what"], "got": as_lists(cur), "expected": st.attrs.pairs()}
    with Switch(op.get("switch", True)):
        apply_op(f, op)
    for k, form in op["items"]:
        if how == "delete":
            st.attrs.delete(k)
        elif how == "setdefault":
            if k not in st.attrs.d:
                ctx.mon("edit: setdefault with a %s default on a missing key" % form[0])
            st.attrs.setdefault(k, form)
        else:
            st.attrs.set(k, form)
    cur = observe(f.attributes)
    ctx.mon("edit: attribute-mapping edits")
    if bad_value(cur):
        return dict({"why": "edited feature: " + bad_value(cur)}, **bad_detail(cur))
    if as_lists(cur) != st.attrs.pairs():
        return {"why": "stored values differ from what was set", "got": as_lists(cur), "expected": st.attrs.pairs(), "edit": how}
    return None


def run_edit(ctx, case):
    dbs = []
    try:
        try:
            f = obtain(case, dbs)
            start = observe(f.attributes)
        except Exception as ex:
            ctx.violation(case, {"why": "obtaining the feature raised %s" % type(ex).__name__, "exception": repr(ex)})
            contracts.drain()
            return
        if bad_value(start):
            ctx.violation(case, dict({"why": "freshly obtained feature: " + bad_value(start)}, **bad_detail(start)))
            contracts.drain()
            return
        if as_lists(start) != [[k, list(v)] for k, v in case["base"]]:
            ctx.violation(case, {"why": "freshly obtained feature: attributes differ from the line / JSON text it comes from",
                                 "got": as_lists(start), "expected": case["base"]})
            contracts.drain()
            return
        st = EditState(base_cols(case), as_lists(start))
        steps = list(case["steps"]) + [{"pre": case["final"], "op": None}]
        for n, step in enumerate(steps):
            cache = {}
            for obs in step["pre"]:
                try:
                    bad = look(ctx, case, f, st, obs, dbs, cache)
                except Exception as ex:
                    bad = {"why": "observation %s raised %s" % (obs, type(ex).__name__), "exception": repr(ex)}
                if n:
                    ctx.mon("edit: observations after an edit")
                if n < len(steps) - 1:
                    ctx.mon("edit: observations followed by an edit")
                if bad:
                    bad["after edits"] = n
                    bad["last edit"] = steps[n - 1]["op"] if n else None
                    ctx.violation(case, bad)
                    contracts.drain()
                    return
            if step["op"] is None:
                break
            st.prev = st.snapshot()
            try:
                bad = apply_edit(ctx, f, st, step["op"])
            except Exception as ex:
                bad = {"why": "edit %s raised %s" % (step["op"]["how"], type(ex).__name__), "exception": repr(ex)}
            ctx.mon("edit: steps")
            if bad:
                bad["step"] = n
                ctx.violation(case, bad)
                contracts.drain()
                return
    finally:
        close_all(dbs)
    drain(ctx, case)


# ---------------------------------------------------------------------------------
# kind sjson: JSON texts whose values are scalars; databases whose attributes column holds such text
# ---------------------------------------------------------------------------------
def same_feature(ctx, a, b, what):
    """a (from scalar-valued JSON) against b (the list form / the parsed proper line): line, ==, !=, hash."""
    sa, sb = str(a), str(b)
    if sa != sb:
        return {"why": "printed line of the feature from scalar-valued JSON differs from that of %s" % what, "scalar": sa, "other": sb}
    if not (a == b) or not (b == a) or (a != b):
        return {"why": "feature from scalar-valued JSON is not == to %s although the printed lines are equal" % what, "line": sa}
    if hash(a) != hash(b):
        return {"why": "feature from scalar-valued JSON hashes unlike %s (a == b)" % what, "line": sa}
    return None


def wrapped(ctx, attrs, want, what):
    got = observe(attrs)
    ctx.mon("sjson: attribute mappings checked")
    if bad_value(got):
        return dict({"why": "%s: %s" % (what, bad_value(got))}, **bad_detail(got))
    if as_lists(got) != want:
        return {"why": "%s: attributes are not the wrapped values in the order of the text" % what, "got": as_lists(got),
                "expected": want}
    ctx.mon("sjson: scalar values seen wrapped", sum(1 for _ in got))
    with Switch(False):
        seen = observe(attrs)
    for (k, stored), (_, view) in zip(got, seen):
        ok, _changed = M.view_ok(stored, view)
        if not ok:
            return {"why": "%s: always_return_list=False changes the view of a value that is not a one-item list" % what,
                    "key": k, "stored": repr(stored), "viewed": repr(view)}
    return None


def sjson_text(ctx, case, items, want, text_s, text_l):
    from gffutils import helpers
    from gffutils.feature import Feature, feature_from_line

    cols = base_cols(case)
    back = helpers._unjsonify(text_s, isattributes=True)
    ctx.mon("sjson: texts decoded with _unjsonify")
    bad = wrapped(ctx, back, want, "_unjsonify(<JSON with scalar values>, isattributes=True)")
    if bad:
        return bad
    again = helpers._unjsonify(helpers._jsonify(back), isattributes=True)
    bad = wrapped(ctx, again, want, "JSON text -> attributes -> JSON text -> attributes")
    if bad:
        return bad
    kw = dict(seqid=cols[0], source=cols[1], featuretype=cols[2], start=cols[3], end=cols[4], score=cols[5], strand=cols[6],
              frame=cols[7])
    mk = lambda t: Feature(attributes=t, dialect=dict(GTF_DIALECT) if case["fmt"] == "gtf" else None, **kw)
    g, h = mk(text_s), mk(text_l)
    bad = wrapped(ctx, g.attributes, want, "Feature(attributes=<JSON with scalar values>)")
    if bad:
        return bad
    ctx.mon("sjson: Feature(attributes=text) compared with the list form")
    bad = same_feature(ctx, g, h, "the feature built from the list form")
    if bad:
        return bad
    if not case["rich"]:
        p = feature_from_line(M.render_line(cols, want, case["fmt"]))
        if str(p) == str(h):
            ctx.mon("sjson: compared with the feature parsed from the proper line")
            return same_feature(ctx, g, p, "the feature parsed from the proper line")
        ctx.mon("sjson: proper line prints unlike the list form (not compared)")
    return None


def sjson_update(ctx, case, items, want, text_s, text_l, dbs):
    import sqlite3

    import gffutils
    from gffutils.feature import feature_from_line

    cols = base_cols(case)
    if case["fmt"] == "gtf":
        lines = ["\t".join(M.column_texts(cols)) + '\tgene_id "g1"; transcript_id "t1"; exon_number "%d";' % i for i in range(3)]
    else:
        lines = ["\t".join(M.column_texts(cols)) + "\tID=r%d;Note=n%d" % (i, i) for i in range(3)]
    fn = ":memory:"
    if case["route"] == "update_file":
        fn = ctx.tmp(".db")
        dbs.append(("path", fn))
    db = gffutils.create_db("\n".join(lines) + "\n", fn, from_string=True)
    dbs.append(db)
    ids = [f.id for f in db.all_features(order_by="start") if f.source != "gffutils_derived" and f.featuretype == cols[2]]
    ids.sort()
    if len(ids) != 3:
        raise AssertionError("harness: %d imported rows" % len(ids))
    before = {i: str(db[i]) for i in ids}
    todo = [(text_s, ids[0]), (text_l, ids[1])]
    if case["route"] == "update_file":
        db.conn.close()
        con = sqlite3.connect(fn)
        n = sum(con.execute("UPDATE features SET attributes = ? WHERE id = ?", t).rowcount for t in todo)
        con.commit()
        con.close()
        db = gffutils.FeatureDB(fn)
        dbs.append(db)
    else:
        n = sum(db.conn.execute("UPDATE features SET attributes = ? WHERE id = ?", t).rowcount for t in todo)
        db.conn.commit()
    if n != 2:
        raise AssertionError("harness: UPDATE touched %d rows" % n)
    ctx.mon("sjson: database rows rewritten with plain sqlite3", 2)
    a, b, c = db[ids[0]], db[ids[1]], db[ids[2]]
    if str(c) != before[ids[2]]:
        raise AssertionError("harness: untouched row changed")
    for via, feats in (("db[id]", [a, b]), ("all_features()", None), ("features_of_type()", None)):
        if feats is None:
            it = db.all_features() if via == "all_features()" else db.features_of_type(cols[2])
            got = {x.id: x for x in it}
            feats = [got.get(ids[0]), got.get(ids[1])]
            if feats[0] is None or feats[1] is None:
                return {"why": "%s does not yield the rewritten rows" % via}
        ctx.mon("sjson: features read from rewritten rows", 2)
        bad = wrapped(ctx, feats[0].attributes, want, "%s of a row holding JSON with scalar values" % via)
        if bad:
            return bad
        bad = wrapped(ctx, feats[1].attributes, want, "%s of a row holding the list form" % via)
        if bad:
            raise AssertionError("harness: list-form row reads back differently: %r" % (bad,))
        bad = same_feature(ctx, feats[0], feats[1], "the feature read from the row holding the list form (%s)" % via)
        if bad:
            return bad
    if not case["rich"]:
        p = feature_from_line(M.render_line(cols, want, case["fmt"]))
        if str(p) == str(b):
            ctx.mon("sjson: compared with the feature parsed from the proper line")
            return same_feature(ctx, a, p, "the feature parsed from the proper line")
        ctx.mon("sjson: proper line prints unlike the list form (not compared)")
    return None


def sjson_ctor(ctx, case, items, want, dbs):
    import gffutils
    from gffutils.feature import Feature

    def feats(scalar):
        out = []
        for i in range(case["n"]):
            d = {"ID": ["f%d" % i]}
            for k, form in items:
                d[k] = form[1] if (scalar and form[0] == "scalar") else list(form[1]) if form[0] != "scalar" else [form[1]]
            out.append(Feature(seqid="chr1", source="src", featuretype="gene", start=10 + i, end=500 + i, score=".", strand="+",
                               frame=".", attributes=d))
        return out

    both = []
    for scalar in (True, False):
        fs = feats(scalar)
        fn = ":memory:"
        if case["file"]:
            fn = ctx.tmp(".db")
            dbs.append(("path", fn))
        if case["route"] == "ctor_create" or len(fs) < 2:
            db = gffutils.create_db(iter(fs), fn, merge_strategy="error")
        else:
            db = gffutils.create_db(iter(fs[:1]), fn, merge_strategy="error")
            db.update(iter(fs[1:]), merge_strategy="error")
        dbs.append(db)
        if case["file"]:
            db.conn.close()
            db = gffutils.FeatureDB(fn)
            dbs.append(db)
        both.append(db)
    ctx.mon("sjson: hand-built features with scalar values stored", case["n"])
    for i in range(case["n"]):
        fid = "f%d" % i
        a, b = both[0][fid], both[1][fid]
        exp = [["ID", [fid]]] + want
        ctx.mon("sjson: hand-built features read back")
        bad = wrapped(ctx, a.attributes, exp, "feature read back after storing Feature(attributes=<dict with scalar values>)")
        if bad:
            return bad
        bad = wrapped(ctx, b.attributes, exp, "list-form twin")
        if bad:
            raise AssertionError("harness: list-form twin reads back differently: %r" % (bad,))
        bad = same_feature(ctx, a, b, "the feature stored in list form")
        if bad:
            return bad
    n = sum(1 for _ in both[0].all_features())
    if n != case["n"]:
        return {"why": "%d features stored for %d given" % (n, case["n"])}
    return None


def run_sjson(ctx, case):
    items = case["items"]
    want = [[k, M.expected_sequence(form)] for k, form in items]
    text_s = M.scalar_json(items, case["style"])
    text_l = M.list_json(items)
    dbs = []
    try:
        try:
            if case["route"] == "text":
                bad = sjson_text(ctx, case, items, want, text_s, text_l)
            elif case["route"].startswith("update"):
                bad = sjson_update(ctx, case, items, want, text_s, text_l, dbs)
            else:
                bad = sjson_ctor(ctx, case, items, want, dbs)
        except AssertionError:
            raise
        except Exception as ex:
            bad = {"why": "scalar-valued JSON (%s) raised %s" % (case["route"], type(ex).__name__), "exception": repr(ex)}
        if bad:
            bad["json"] = text_s
            ctx.violation(case, bad)
            contracts.drain()
            return
    finally:
        close_all(dbs)
    drain(ctx, case)


# ---------------------------------------------------------------------------------
# kind korder: features that carry keep_order=True under a dialect whose 'order' lists the keys in another order than the
# feature's own mapping: the JSON text (astuple, _jsonify) and what is read back from it keep the MAPPING's key order
# ---------------------------------------------------------------------------------
KO_COLS = ["chr1", "src", "gene", 10, 20, ".", "+", "."]


def json_pairs(text):
    try:
        return [[k, M.values_of(v)] for k, v in json.loads(text, object_pairs_hook=list)]
    except (ValueError, TypeError, AttributeError) as ex:
        return "not decodable: %r" % (ex,)


def judge_korder(ctx, f, what, flip):
    """The stored JSON text of f and what is read back from it against f's own mapping (keys, key order, values)."""
    from gffutils import helpers
    from gffutils.feature import Feature

    P = as_lists(observe(f.attributes))
    if bad_value(observe(f.attributes)):
        return dict({"why": "%s: %s" % (what, bad_value(observe(f.attributes)))}, **bad_detail(observe(f.attributes)))
    keys = [k for k, _ in P]
    order = list(dict(f.dialect).get("order") or [])
    mine = [k for k in keys if k in order]
    theirs = [k for k in order if k in keys]
    original = f.keep_order
    settings = [original] + ([not original] if flip else [])
    try:
        for n, setting in enumerate(settings):
            f.keep_order = setting
            if setting:
                ctx.mon("korder: features judged while keep_order is True")
                if mine != theirs:
                    ctx.mon("korder: keep_order features whose key order differs from the order of their dialect")
                    shown = M.read_attributes(str(f).split("\t")[8], "gff3")
                    if shown is not None and [k for k, _ in shown] != keys:
                        ctx.mon("korder: keep_order features printed in another key order than their mapping's")
            else:
                ctx.mon("korder: features judged while keep_order is False")
            if n:
                ctx.mon("korder: keep_order switched on the object after the fact")
            for name, text in (("astuple()[9]", f.astuple()[9]), ("_jsonify(attributes)", helpers._jsonify(f.attributes))):
                info = {"feature": what, "keep_order": setting, "json": text, "mapping": P, "dialect order": order}
                ctx.mon("korder: JSON texts compared with the mapping (keys, key order, values)")
                if json_pairs(text) != P:
                    return dict(info, why="%s of a feature does not hold the attributes in the mapping's key order "
                                          "(stdlib json reader)" % name, read=json_pairs(text))
                back = as_lists(observe(helpers._unjsonify(text, isattributes=True)))
                ctx.mon("korder: JSON texts read back with _unjsonify / Feature(attributes=text)", 2)
                if back != P:
                    return dict(info, why="_unjsonify(%s) differs from the attributes (keys, key order or values)" % name, got=back)
                g = as_lists(observe(Feature(attributes=text).attributes))
                if g != P:
                    return dict(info, why="Feature(attributes=%s) differs from the attributes (keys, key order or values)" % name, got=g)
            if as_lists(observe(f.attributes)) != P:
                return {"why": "%s: converting to JSON changed the feature's own mapping" % what, "before": P,
                        "after": as_lists(observe(f.attributes))}
    finally:
        f.keep_order = original
    return None


def korder_db(ctx, case, lines, dbs):
    import gffutils

    fn = ":memory:"
    if case.get("file"):
        fn = ctx.tmp(".db")
        dbs.append(("path", fn))
    db = gffutils.create_db("\n".join(lines) + "\n", fn, from_string=True, keep_order=True)
    dbs.append(db)
    if case.get("file"):
        db.conn.close()
        db = gffutils.FeatureDB(fn, keep_order=True)
        dbs.append(db)
    for i, p in enumerate(case["lines"]):
        f = db["g%d" % i]
        if as_lists(observe(f.attributes)) != p:
            ctx.mon("korder: imported line read to other attributes / another key order (judged as it is)")
        if f.keep_order:
            ctx.mon("korder: database features fetched with keep_order=True")
        bad = judge_korder(ctx, f, "feature g%d fetched through FeatureDB(keep_order=True)" % i, case["flip"])
        if bad:
            return bad
    for n, w in enumerate(case["writes"]):
        fid = "g%d" % w["pick"]
        f = db[fid]
        value = "g0" if w["key"] == "Parent" else "w%d" % n
        v = value if w["scalar"] else [value, "second"]

        def edit(parent, child, _which=w["how"], _k=w["key"], _v=v):
            tgt = child if _which == "child_func" else parent
            tgt[_k] = _v
            return tgt
        if w["how"] == "child_func":
            db.add_relation("g0", f, 1 + n, child_func=edit)
        elif w["how"] == "parent_func":
            db.add_relation(f, "g0", 1 + n, parent_func=edit)
        else:
            f[w["key"]] = v
            db.update([f], merge_strategy="replace")
        ctx.mon("korder: features written back through %s" % {"child_func": "add_relation(child_func=...)",
                                                               "parent_func": "add_relation(parent_func=...)",
                                                               "update_replace": "update(merge_strategy='replace')"}[w["how"]])
        P = as_lists(observe(f.attributes))
        if dict(P).get(w["key"]) != ([v] if w["scalar"] else v):
            return {"why": "value set on a database feature is not the wrapped / given sequence", "key": w["key"], "got": P}
        readers = [("the same FeatureDB", db)]
        if case.get("file"):
            other = gffutils.FeatureDB(fn)
            dbs.append(other)
            readers.append(("a second FeatureDB on the file (keep_order=False)", other))
        for name, rd in readers:
            again = as_lists(observe(rd[fid].attributes))
            ctx.mon("korder: written rows read back and compared with the written feature's mapping")
            if again != P:
                return {"why": "attributes read back after %s differ from the attributes of the feature that was written "
                               "(keys, key order or values)" % w["how"], "read through": name, "id": fid, "got": again,
                        "written": P, "dialect order": list(db.dialect.get("order") or [])}
        raw = db.conn.execute("SELECT attributes FROM features WHERE id = ?", (fid,)).fetchone()[0]
        ctx.mon("korder: raw columns of written rows decoded with stdlib json")
        if json_pairs(raw) != P:
            return {"why": "raw attributes column written by %s does not hold the attributes in the mapping's key order" % w["how"],
                    "id": fid, "column": raw, "written": P}
        bad = judge_korder(ctx, db[fid], "feature %s fetched after %s" % (fid, w["how"]), case["flip"])
        if bad:
            return bad
    return None


def run_korder(ctx, case):
    from gffutils.attributes import Attributes
    from gffutils.feature import Feature, feature_from_line

    lines = [M.render_line(KO_COLS, p, "gff3") for p in case["lines"]]
    dbs = []
    bad = None
    try:
        try:
            if case["route"] == "db":
                bad = korder_db(ctx, case, lines, dbs)
            else:
                first = feature_from_line(lines[0])
                for p, line in zip(case["lines"][1:], lines[1:]):
                    if case["route"] == "line":
                        f = feature_from_line(line, dialect=first.dialect, keep_order=True)
                        what = "feature_from_line(line, dialect=<that of an earlier line>, keep_order=True)"
                    else:
                        if case["attrs_as"] == "dict":
                            attrs = dict((k, list(v)) for k, v in p)
                        elif case["attrs_as"] == "json":
                            attrs = json.dumps(dict((k, list(v)) for k, v in p))
                        else:
                            attrs = Attributes()
                            for k, v in p:
                                attrs[k] = list(v)
                        f = Feature(seqid="chr1", source="src", featuretype="gene", start=10, end=20, attributes=attrs,
                                    dialect=None if case["dialect"] == "default" else first.dialect, keep_order=True)
                        what = "Feature(attributes=<%s>, keep_order=True)" % case["attrs_as"]
                    if as_lists(observe(f.attributes)) != p:
                        ctx.skip("korder: the parser / constructor gives other attributes than written (not judged)")
                        continue
                    ctx.mon("korder: features obtained through %s" % ("feature_from_line(keep_order=True)"
                                                                       if case["route"] == "line" else "Feature(keep_order=True)"))
                    bad = judge_korder(ctx, f, what, case["flip"])
                    if bad:
                        break
        except AssertionError:
            raise
        except Exception as ex:
            bad = {"why": "keep_order case (%s) raised %s" % (case["route"], type(ex).__name__), "exception": repr(ex)}
        if bad:
            ctx.violation(case, bad)
            contracts.drain()
            return
    finally:
        close_all(dbs)
    drain(ctx, case)


KINDS = {"korder": run_korder, "json": run_json, "merge": run_merge, "db": run_db, "eq": run_eq, "set": run_set, "print": run_print, "alias": run_alias,
         "edit": run_edit, "sjson": run_sjson}


# ---------------------------------------------------------------------------------
# generation
# ---------------------------------------------------------------------------------
def gen_base(rng, fmt):
    used = []
    base = []
    if fmt == "gtf":
        base = [["gene_id", [G.simple_value(rng)]], ["transcript_id", [G.simple_value(rng)]]]
        used = ["gene_id", "transcript_id"]
    else:
        base = [["ID", [G.simple_value(rng)]]]
        used = ["ID", "Parent"]
    from gvmon.gen import records as R

    for _ in range(rng.randrange(0, 3)):
        if rng.random() < 0.1:
            k = G.param_key(rng, used)      # a key spelled like a parameter name (self=yes), as any other key
        else:
            k = R.key(rng, wordlike=True, used=used)
        used.append(k)
        if fmt == "gtf":
            vals = [G.simple_value(rng)]
        else:
            vals = [G.simple_value(rng) for _ in range(rng.choice([0, 1, 1, 1, 2, 3]))]
        base.append([k, vals])
    return base


def gen_origin(rng, case, p_db=0.2, p_json=0.16):
    """Adds origin (+ the scalar-valued JSON form of the base for the JSON origins) to a case with fmt and base."""
    r = rng.random()
    if r < p_db:
        case["origin"] = "db"
    elif r < p_db + p_json:
        case["origin"] = "jsondb" if rng.random() < 0.3 else "jsontext"
        case["json_base"] = G.scalar_base(rng, case["base"])
        case["json_style"] = rng.randrange(4)
    else:
        case["origin"] = "line"
    case["obtain_switch"] = rng.random() >= 0.25
    if not case["obtain_switch"] and case["origin"] in ("db", "jsondb") and rng.random() < 0.3:
        case["import_switch"] = False       # create_db itself runs while the switch is off
    return case


def gen_set_case(rng, kind):
    fmt = "gtf" if rng.random() < 0.3 else "gff3"
    base = gen_base(rng, fmt)
    keys = [k for k, _ in base if k not in ("ID", "gene_id", "transcript_id")]
    # namedtuples of strings are set in kind print only (where no JSON text is asked for: see ASSUMPTIONS)
    return gen_origin(rng, {"kind": kind, "fmt": fmt, "base": base, "ops": G.ops(rng, keys, ntuple=(kind == "print"))})


def gen_member_case(rng):
    """kind set on a feature whose line carries attributes spelled like Feature members (score=0.93;source=HAVANA) and
    whose operations set such keys, half of them through the Feature."""
    fmt = "gtf" if rng.random() < 0.25 else "gff3"
    base = G.member_base(rng, fmt)
    keys = [k for k, _ in base if k not in ("ID", "gene_id", "transcript_id")]
    case = gen_origin(rng, {"kind": "set", "fmt": fmt, "base": base, "ops": G.member_ops(rng, keys)}, p_db=0.4, p_json=0.12)
    case["member"] = True
    return case


def gen_param_case(rng):
    """kind set on a feature whose line / database row / JSON text carries attributes spelled like parameter names."""
    fmt = "gtf" if rng.random() < 0.25 else "gff3"
    base = G.param_base(rng, fmt)
    keys = [k for k, _ in base if k not in ("ID", "gene_id", "transcript_id")]
    case = gen_origin(rng, {"kind": "set", "fmt": fmt, "base": base, "ops": G.param_ops(rng, keys)}, p_db=0.4, p_json=0.3)
    case["param"] = True
    return case


def gen_edit_case(rng):
    fmt = "gtf" if rng.random() < 0.25 else "gff3"
    base = gen_base(rng, fmt)
    case = {"kind": "edit", "fmt": fmt, "base": base, "steps": G.edit_steps(rng, [k for k, _ in base], fmt),
            "final": list(G.OBSERVATIONS)}
    return gen_origin(rng, case, p_db=0.15, p_json=0.2)


def gen_sjson_case(rng):
    route = rng.choice(["text", "text", "text", "text", "text", "text", "update_file", "update_conn", "update_conn", "ctor_create", "ctor_update"])
    rich = rng.random() < 0.5
    fmt = "gtf" if (route in ("text", "update_file", "update_conn") and not rich and rng.random() < 0.3) else "gff3"
    case = {"kind": "sjson", "route": route, "rich": rich, "fmt": fmt, "style": rng.randrange(4),
            "items": G.scalar_items(rng, fmt, rich, exclude=("ID", "Parent") if route.startswith("ctor") else ())}
    if route.startswith("ctor"):
        case["n"] = rng.randrange(1, 4)
        case["file"] = rng.random() < 0.3
    return case


def edit_phase(ctx, rng):
    """One object observed, edited, observed again."""
    for _ in range(ctx.budget(2800, 56000)):
        case = gen_edit_case(rng)
        execute(ctx, case)
        primed = any(st["pre"] for st in case["steps"])
        ctx.case(case, primed, sample=case if rng.random() < 0.05 else None, cls="edit origin=" + case["origin"])
        ctx.classes["edit fmt=" + case["fmt"]] += 1
        for st in case["steps"]:
            ctx.classes["edit: %s edit%s" % ("attribute mapping" if "items" in st["op"] else st["op"]["how"],
                                             " after an observation" if st["pre"] else "")] += 1


def set_nontrivial(case):
    forms = [form for op in case["ops"] if op["how"] != "delete" for _, form in op["items"]]
    return any(f[0] in M.SCALAR_FORMS + M.SUBCLASS_FORMS for f in forms) or G.is_rich(text_of_forms([i for op in case["ops"] for i in op["items"]]))


# --- known finding F-C17-4 -----------------------------------------------------------
def classify_import_under_switch(case, detail):
    """create_db executed while always_return_list is False: the importer reads f.attributes[key] through the
    switch-dependent view, takes the one-value ID 'g1' for a sequence of two values and refuses it.  Only that refusal,
    in a case whose import ran with the switch off, is the listed finding; anything else is a violation."""
    if case.get("import_switch") is not False or case.get("origin") not in ("db", "jsondb"):
        return False
    if not str(detail.get("why", "")).startswith("obtaining the feature raised ValueError"):
        return False
    return "has more than one value but a single value is required for a primary key" in str(detail.get("exception", ""))


KNOWN = {"F-C17-4": classify_import_under_switch}
CANONICAL = {"F-C17-4": {"kind": "set", "origin": "db", "fmt": "gff3", "base": [["ID", ["g1"]], ["Name", ["n"]]], "ops": [],
                         "obtain_switch": False, "import_switch": False}}

CANONICAL_PRINT = {"kind": "print", "origin": "line", "fmt": "gff3", "base": [["ID", ["g1"]]],
                   "ops": [{"how": "feature_setitem", "items": [["Note", ["scalar", "scalar"]]], "switch": True}]}


def assigned_pool(rng):
    """Small pool around one record: the line parsed twice and read from a database, the neighbouring line (start or end
    moved by one), and 3-6 features whose start / end the CALLER assigned afterwards - with the text of the column of the
    same line (f.start = fields[3]), of the neighbouring line (either direction: onto the record, away from it), as int,
    int-subclass, float or zero-padded text; 30% of the pools are about a record whose start or end is '.' (None)."""
    seqid = rng.choice(["chr1", "chr2L", "ctg.7-b"])
    start = rng.randrange(1, 5000)
    end = start + rng.randrange(0, 900)
    attrs = [["ID", [G.simple_value(rng)]], ["tag", [G.simple_value(rng) for _ in range(rng.randrange(1, 3))]]]
    cols = [seqid, "src", rng.choice(["gene", "exon"]), str(start), str(end), ".", rng.choice(["+", "-"]), "."]
    which = rng.choice([3, 4])
    other = list(cols)
    if rng.random() < 0.3:
        other[which] = "."
    else:
        other[which] = str(int(cols[which]) + 1)
        if which == 3 and int(other[3]) > end:
            other[4] = other[3]
    line, near = G.gff3_line(cols, attrs), G.gff3_line(other, attrs)
    if rng.random() < 0.5:
        line, near = near, line
    # records with an undefined coordinate are parsed only (importing them is not this property's business)
    dotted = lambda text: "." in text.split("\t")[3:5]
    origin = lambda text: "line" if dotted(text) else rng.choice(["line", "line", "db"])
    specs = [{"via": "line", "line": line}, {"via": "line", "line": line}, {"via": origin(line), "line": line}, {"via": "line", "line": near}]
    forms = ["text", "text", "text", "int", "intsub", "float", "padded"]
    vias = ["attr", "index", "alias"]
    # onto the record: a feature of the neighbouring line given the record's coordinates
    for _ in range(rng.randrange(1, 3)):
        specs.append({"via": "assigned", "from": origin(near), "line": near, "take": line,
                      "sets": [{"field": fld, "via": rng.choice(vias), "as": rng.choice(forms)} for fld in (3, 4)
                               if fld == which or (which == 3 and fld == 4) or rng.random() < 0.3]})
    # the record's own coordinates assigned again
    for _ in range(rng.randrange(1, 3)):
        flds = rng.choice([[3], [4], [3, 4]])
        specs.append({"via": "assigned", "from": origin(line), "line": line, "take": line,
                      "sets": [{"field": fld, "via": rng.choice(vias), "as": rng.choice(forms)} for fld in flds]})
    # away from the record: onto the neighbouring line
    for _ in range(rng.randrange(1, 3)):
        specs.append({"via": "assigned", "from": "line", "line": line, "take": near,
                      "sets": [{"field": fld, "via": rng.choice(vias), "as": rng.choice(forms)} for fld in (3, 4)
                               if fld == which or (which == 3 and fld == 4) or rng.random() < 0.3]})
    rng.shuffle(specs)
    return specs


def merge_phase(ctx, rng, n, switch):
    fold = lambda typ: "dict-subclass" if typ in OTHER_MAPPING_TYPES else typ
    for _ in range(n):
        a, b, pools = G.merge_args(rng)
        case = {"kind": "merge", "a": a, "b": b, "a_type": rng.choice(["dict", "attrs"]), "b_type": rng.choice(["dict", "attrs"]),
                "numeric_sort": rng.random() < 0.6, "switch": switch}
        if rng.random() < 0.3:
            # an alias key: the same values as another key of that argument, held as the same list object
            which = rng.choice(["a", "b"])
            pairs = case[which]
            cands = [kv for kv in pairs if not isinstance(kv[1], str) and len(kv[1]) >= 1]
            if cands:
                src = rng.choice(cands)
                pairs.append([src[0] + "_alias", list(src[1])])
                case[which + "_shared"] = True
        if rng.random() < 0.15:
            case[rng.choice(["a", "b"]) + "_sub"] = True
        if rng.random() < 0.15:
            # the argument held in another dict type (OrderedDict, defaultdict(list) accumulator, dict subclass with __missing__)
            for which in rng.choice([["a"], ["a"], ["b"], ["a", "b"]]):
                case[which + "_type"] = rng.choice(OTHER_MAPPING_TYPES)
        execute(ctx, case)
        shared = set(k for k, _ in a) & set(k for k, _ in b)
        ctx.case(case, bool(shared), sample=case if switch else None,
                 cls="merge %s,%s%s" % (fold(case["a_type"]), fold(case["b_type"]), "" if switch else " (always_return_list=False)"))
        ctx.classes["merge numeric_sort=%s" % case["numeric_sort"]] += 1


def print_phase(ctx, rng):
    """The printed line under both switch settings."""
    if ctx.shard == 0:
        execute(ctx, CANONICAL_PRINT)
        ctx.case(CANONICAL_PRINT, True, cls="print origin=line")
    for _ in range(ctx.budget(5000, 100000)):
        case = gen_set_case(rng, "print")
        execute(ctx, case)
        ctx.case(case, set_nontrivial(case), cls="print origin=" + case["origin"])


def run(ctx):
    rng = ctx.rng
    # 1. JSON identity (lone surrogates included)
    for _ in range(ctx.budget(16000, 320000)):
        sur = rng.random() < 0.35
        case = {"kind": "json", "items": G.form_mapping(rng, surrogates=sur, nmax=6), "switch": rng.random() < 0.8}
        if rng.random() < 0.08:
            case["parsed"] = [["ID", ["g1"]]] + G.param_pairs(rng)
            case["items"] = [it for it in case["items"] if it[0] not in [k for k, _ in case["parsed"]]]
        execute(ctx, case)
        txt = text_of_forms(case["items"])
        ctx.case(case, any(f[0] in M.SCALAR_FORMS + M.SUBCLASS_FORMS for _, f in case["items"]) or G.is_rich(txt), sample=case,
                 cls="json with lone surrogates" if G.has_surrogate(txt) else "json")
    # 2. merge_attributes
    merge_phase(ctx, rng, ctx.budget(16000, 320000), True)
    # 3. database round trip
    for _ in range(ctx.budget(500, 16000)):
        sur = rng.random() < 0.4
        specs = [{"id": "f%d" % i, "items": G.form_mapping(rng, surrogates=sur, nmax=5, exclude=("ID", "Parent"))}
                 for i in range(rng.randrange(1, 7))]
        case = {"kind": "db", "features": specs, "file": rng.random() < 0.4, "route": rng.choice(["create", "create", "update"]),
                "again": G.form_mapping(rng, surrogates=sur, nmax=3, exclude=("ID", "Parent")) if rng.random() < 0.5 else []}
        case["latin1"] = case["file"] and rng.random() < 0.75
        if rng.random() < 0.3:
            for spec in specs:
                if rng.random() < 0.7:
                    spec["line_attrs"] = G.param_pairs(rng)
                    taken = [k for k, _ in spec["line_attrs"]]
                    spec["items"] = [it for it in spec["items"] if it[0] not in taken]
            if case["again"] and specs[0].get("line_attrs") and rng.random() < 0.5:
                # the re-stored feature gets a parsed parameter-named key set again
                case["again"] = [[specs[0]["line_attrs"][0][0], case["again"][0][1]]] + case["again"][1:]
                seen_k = []
                case["again"] = [it for it in case["again"] if not (it[0] in seen_k or seen_k.append(it[0]))]
            if any(s.get("line_attrs") for s in specs):
                ctx.classes["db with parsed parameter-named keys, %s" % case["route"]] += 1
        execute(ctx, case)
        txt = "".join(text_of_forms(s["items"]) for s in specs)
        ctx.case(case, G.is_rich(txt) or any(f[0] in M.SCALAR_FORMS + M.SUBCLASS_FORMS for s in specs for _, f in s["items"]),
                 cls="db %s %s" % (case["route"], "file" if case["file"] else "memory"))
        if G.has_surrogate(txt):
            ctx.classes["db with lone surrogates, %s" % ("file" if case["file"] else "memory")] += 1
    # 4. equality over pools
    for _ in range(ctx.budget(300, 9600)):
        case = {"kind": "eq", "pool": G.pool(rng), "switch": rng.random() < 0.8}
        execute(ctx, case)
        ctx.case(case, True, cls="eq pool")
    # 4a. features whose coordinate columns the caller assigned (text of a column, int, int subclass, float)
    for _ in range(ctx.budget(400, 9600)):
        case = {"kind": "eq", "pool": assigned_pool(rng), "switch": rng.random() < 0.8}
        execute(ctx, case)
        ctx.case(case, True, sample=case if rng.random() < 0.05 else None, cls="eq pool with caller-assigned coordinates")
    # 4b. aliasing between decodes of one stored text; equality under a shared dialect object
    for _ in range(ctx.budget(300, 9600)):
        n = rng.randrange(1, 5)
        shared = rng.random() < 0.5
        common = ";".join("%s=%s" % (k, ",".join(v)) for k, v in [("Note", ["n1", "n2"]), ("Alias", ["a"]), ("tag", ["t%d" % rng.randrange(3)])])
        lines = []
        for i in range(n):
            extra = common if shared else ";".join("k%d=v%d,w%d" % (j, j, rng.randrange(9)) for j in range(rng.randrange(1, 4)))
            # no ID attribute: features get generated keys, so several of them can hold byte-identical attribute text
            lines.append("chr1\tsrc\tgene\t%d\t%d\t.\t+\t.\t%s" % (10 * i + 1, 10 * i + 5, extra))
        case = {"kind": "alias", "lines": lines}
        execute(ctx, case)
        ctx.case(case, True, sample=case if rng.random() < 0.02 else None, cls="alias shared-text" if shared else "alias")
    # 4c. JSON texts / database columns whose values are scalars
    for _ in range(ctx.budget(900, 18000)):
        case = gen_sjson_case(rng)
        execute(ctx, case)
        ctx.case(case, True, sample=case if rng.random() < 0.05 else None, cls="sjson " + case["route"])
        ctx.classes["sjson %s" % ("arbitrary Unicode" if case["rich"] else "reparse-safe values, " + case["fmt"])] += 1
    # 5. setting values, both switch settings (everything but the printed line)
    for _ in range(ctx.budget(12000, 240000)):
        case = gen_set_case(rng, "set")
        execute(ctx, case)
        ctx.case(case, set_nontrivial(case), sample=case, cls="set origin=" + case["origin"])
        ctx.classes["set fmt=" + case["fmt"]] += 1
    # 5b. attribute keys spelled like the fixed columns / other members of a Feature
    for _ in range(ctx.budget(2400, 48000)):
        case = gen_member_case(rng)
        execute(ctx, case)
        ctx.case(case, True, sample=case if rng.random() < 0.05 else None, cls="set member-named keys origin=" + case["origin"])
    # 5b'. attribute keys spelled like parameter names, arriving by parsing / from a database / from JSON text
    for _ in range(ctx.budget(2000, 40000)):
        case = gen_param_case(rng)
        execute(ctx, case)
        ctx.case(case, True, sample=case if rng.random() < 0.05 else None, cls="set parameter-named keys origin=" + case["origin"])
    # 5c. keep_order features under a dialect that lists the keys in another order
    for _ in range(ctx.budget(700, 14000)):
        case = G.korder_case(rng)
        execute(ctx, case)
        ctx.case(case, True, sample=case if rng.random() < 0.05 else None, cls="korder " + case["route"])
    # 6./7. the two places where a defect is expected to flood come last, so that they cannot push other reports out
    # of the per-shard record; even shards start with the printed line, odd shards with merge under the switch
    edit_phase(ctx, rng)
    late = [print_phase, lambda c, r: merge_phase(c, r, c.budget(4000, 80000), False)]
    if ctx.shard % 2:
        late.reverse()
    for phase in late:
        phase(ctx, rng)
    ctx.mon("Attributes invariant evaluations", contracts.EVALS["Attributes.invariant"])


MANIFEST = {
    "technique": "icontract invariant on the real Attributes class + differential checks against a mapping/union model, "
                 "stdlib json and plain sqlite3 as independent readers, all-pairs equality relation check",
    "text": "Generated mappings over arbitrary Unicode are set on parsed and database features in every supported way and "
            "under both settings of always_return_list; the monitor compares the stored values with a list-wrapping model, "
            "compares astuple/_jsonify/str and the per-key views between the two settings, runs the real "
            "_jsonify/_unjsonify/Feature(attributes=text) round trip beside the stdlib json reader, stores features with "
            "create_db/update (lone surrogates and astral characters included) and reads them back (FeatureDB, reopened "
            "FeatureDB, FeatureDB with a latin-1 decoding text_factory, raw sqlite3 bytes: valid ASCII-only JSON), judges "
            "merge_attributes against a union model with argument snapshots, and checks ==, != and hash on all ordered "
            "pairs of feature pools against equality of the printed lines (database records with identical lines under "
            "different primary keys included). Values are also given as instances of subclasses of str / list / tuple "
            "through every setting route under both switch settings; afterwards the stored values, the JSON text, the "
            "printed line, ==/hash against a twin with plain lists and merge_attributes are judged. "
            "Held = no executed case disagreed.",
    "note": "Trusted: stdlib json/sqlite3, the 60-line model. Not asked: tuple-valued merge arguments, order of equal "
            "numbers, nan/inf ordering, high+low surrogate sequences. F-C17-1 (str(feature) iterates the view when "
            "always_return_list is False) is reported by kind 'print' with reason 'str(feature) depends on always_return_list'.",
}
