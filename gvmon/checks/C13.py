"""
C13  All input forms are equivalent and dialect peeking never consumes data; transform; inspect.

Pull monitor: a one-shot source logs every next(); what the consumer yields / stores must be the same sequence.
Reference: the file's own lines (uniform regime) and one reference import; a recording transform; a Counter model of inspect.
"""
import gzip
import os
import random
from collections import Counter

from gvmon import dbdump
from gvmon.gen import files as F
from gvmon.models import dialect as M
from gvmon.monitors import contracts

FORMS = ["path", "gz", "string", "list", "generator", "iterator_object", "DataIterator", "FeatureDB", "symlink_gz", "symlink_plain"]
RULE = ("uniform-regime annotations of 0..25 lines in the 48 dialect points; each supplied in 10 input forms (path, .gz, symlink named .gz to a gzip blob without suffix, symlink named .gff to a "
        "plain file whose own name ends in .gz, from_string, list of Features, one-shot generator, __next__ object, DataIterator, FeatureDB) x checklines in "
        "{0,1,2,n-1,n,n+1,n+2}: yielded sequence == the file's lines, database content dump == reference import; "
        "late-key annotations (uniform spelling, further attribute keys first appearing on later lines; the FeatureDB input built with a look-ahead of "
        "its own) in all forms: database dump, iterator dialect and feature text under keep_order == the path form read with the same checklines; a "
        "recording transform (modify / skip by falsy values) and inspect() with random look_for subsets and limits in "
        "{None,1,n-1,n,n+3}; non-trivial = n >= 3; distinct by (annotation text, form, checklines class)")
REQUIRED = ["sparse-regime form comparisons", "form sequences compared", "databases compared", "one-shot pulls logged", "transform calls recorded",
            "inspect results compared", "in-place edits of features with identical attribute columns compared", "transforms that raise: outcomes observed", "sources that raise: outcomes observed", "what a transform saw compared across input forms",
            "sources that raise inside the look-ahead window", "large look-ahead windows: one-shot forms compared with the path form",
            "late-key regime: form comparisons against the path form with the same checklines",
            "late-key regime: iterator dialects and ordered feature texts compared with the path form",
            "late-key regime: FeatureDB source built with another look-ahead than the one asked for",
            "late-key regime: attribute keys that first appear after the first line"] + ["form=" + f for f in FORMS]
ASSUMPTIONS = [
    "annotations are written in the uniform regime, so every window infers the same dialect and all forms are comparable",
    "for GTF annotations the FeatureDB form is a database built without inference (its content is then the plain annotation)",
    "directives are compared among the file-like forms only (Feature iterables have no directive channel)",
    "inspect(limit=0) (falsy = no limit) is not exercised",
]
QUICK_SHARDS = 4


class NextOnly(object):
    """An iterator object with __next__ that is not a generator."""
    def __init__(self, items, log):
        self.items, self.i, self.log = items, 0, log

    def __iter__(self):
        return self

    def __next__(self):
        if self.i >= len(self.items):
            raise StopIteration
        self.log.append(self.i)
        self.i += 1
        return self.items[self.i - 1]


def setup(ctx):
    contracts.install_all()


def make_source(ctx, form, paths, text, ck, pulls, transform=None):
    """Returns (data, kwargs) for DataIterator/create_db; fresh objects on every call."""
    from gffutils.iterators import DataIterator
    import gffutils

    if form == "path":
        return paths["plain"], {}
    if form == "gz":
        return paths["gz"], {}
    if form in ("symlink_gz", "symlink_plain"):
        # the name the caller gives decides how the file is read, not the name of whatever a symlink resolves to
        return paths[form], {}
    if form == "string":
        return text, {"from_string": True}
    if form == "DataIterator":
        # an existing iterator is used as it is: a transform belongs to its construction
        return DataIterator(paths["plain"], checklines=ck, transform=transform), {}
    if form == "FeatureDB":
        return gffutils.FeatureDB(paths["srcdb"]), {}
    if paths.get("sparse"):
        # Feature objects as a user would build them one by one: each carries the dialect inferred from its own line
        from gffutils.feature import feature_from_line
        feats = [feature_from_line(l) for l in open(paths["plain"], encoding="utf-8").read().split("\n")
                 if l and not l.startswith("#")]
    else:
        feats = list(DataIterator(paths["plain"]))
    if form == "list":
        return feats, {}
    if form == "generator":
        def gen():
            for i, f in enumerate(feats):
                pulls.append(i)
                yield f
        return gen(), {}
    if form == "iterator_object":
        return NextOnly(feats, pulls), {}
    raise ValueError(form)


def norm_dump(d):
    return {"features": d["features"], "relations": d["relations"], "dialect": d["meta"][0][0] if d["meta"] else None,
            "autoincrements": d["autoincrements"], "duplicates": d["duplicates"]}


def _plain_dialect(d):
    return None if d is None else {k: (list(v) if isinstance(v, (list, tuple)) else v) for k, v in dict(d).items()}


def _ordered_text(feats):
    """The printed line of each yielded feature when it is asked to print its attributes in its dialect's key order."""
    out = []
    for f in feats:
        old = f.keep_order
        f.keep_order = True
        try:
            out.append(str(f))
        except Exception as ex:
            out.append("raised %s" % type(ex).__name__)
        finally:
            f.keep_order = old
    return out


def execute(ctx, case):
    kind = case["kind"]
    try:
        if kind == "forms":
            forms(ctx, case)
        elif kind == "transform":
            transform(ctx, case)
        elif kind == "inspect":
            inspect_case(ctx, case)
        elif kind == "aliasing":
            aliasing(ctx, case)
        elif kind == "transform_raises":
            transform_raises(ctx, case)
        elif kind == "source_raises":
            source_raises(ctx, case)
        elif kind == "transform_sees":
            transform_sees(ctx, case)
        elif kind == "bigwindow":
            bigwindow(ctx, case)
    finally:
        for v in contracts.drain():
            ctx.violation(case, v)


def prepare_files(ctx, case):
    import gffutils

    D, items = case["D"], case["items"]
    text = F.text_of(items, D)
    lines = F.feature_lines(items, D)
    if case.get("bom") and items and items[0]["t"] == "feat":
        # a UTF-8 byte order mark in front of the first line: whatever it becomes, every form sees the same text
        text = "\ufeff" + text
        lines = ["\ufeff" + lines[0]] + lines[1:]
    paths = {"plain": ctx.tmp(".gff"), "gz": ctx.tmp(".gff.gz"), "srcdb": ctx.tmp(".src.db"), "ref": ctx.tmp(".ref.db")}
    with open(paths["plain"], "w", encoding="utf-8", newline="") as fh:
        fh.write(text)
    raw = text.encode("utf-8")
    if len(raw) > 40 and len(text) % 3 == 0:
        # a multi-member gzip file (as produced by appending: gzip -c x >> a.gz, bgzip, cat a.gz b.gz)
        cut = raw.rfind(b"\n", 0, len(raw) // 2) + 1
        with gzip.open(paths["gz"], "wb") as fh:
            fh.write(raw[:cut])
        with gzip.open(paths["gz"], "ab") as fh:
            fh.write(raw[cut:])
    else:
        with gzip.open(paths["gz"], "wb") as fh:
            fh.write(raw)
    # content-addressed stores / workflow staging: the caller's name is a symlink to a blob named otherwise
    blob_gz, blob_plain = ctx.tmp(".blob.dat"), ctx.tmp(".stored.gz")
    import shutil
    shutil.copyfile(paths["gz"], blob_gz)
    shutil.copyfile(paths["plain"], blob_plain)
    paths["blob_gz"], paths["blob_plain"] = blob_gz, blob_plain
    paths["symlink_gz"], paths["symlink_plain"] = ctx.tmp(".link.gff.gz"), ctx.tmp(".link.gff")
    for k in ("symlink_gz", "symlink_plain"):
        if os.path.lexists(paths[k]):
            os.unlink(paths[k])
    os.symlink(blob_gz, paths["symlink_gz"])
    os.symlink(blob_plain, paths["symlink_plain"])
    return text, lines, paths


def cleanup(paths):
    for p in paths.values():
        if isinstance(p, str) and os.path.lexists(p):
            os.unlink(p)


def forms(ctx, case):
    import gffutils
    from gffutils.iterators import DataIterator

    D = case["D"]
    text, lines, paths = prepare_files(ctx, case)
    n = len(lines)
    sparse = case.get("regime") == "sparse"
    # late-key regime: uniform spelling, but attribute keys that first appear on later lines, so that dialect['order'] is a
    # function of the look-ahead window; every form is judged against the path form read with the SAME checklines
    late = case.get("regime") == "latekeys"
    path_seen = {}
    recs = [it["rec"] for it in case["items"] if it["t"] == "feat"]
    try:
        if sparse:
            paths["sparse"] = True
        ref = None
        if n:
            try:
                gffutils.create_db(paths["plain"], paths["srcdb"], checklines=case.get("src_ck", 10),
                                   disable_infer_genes=True, disable_infer_transcripts=True).conn.close()
                rdb = gffutils.create_db(paths["plain"], paths["ref"])
                ref = norm_dump(dbdump.dump_db(rdb))
                ref_directives = list(rdb.directives)
                rdb.conn.close()
            except Exception as ex:
                ctx.violation(case, {"why": "reference import raised %r" % (ex,), "text": text})
                return
        sparse_refs = {}
        for form in case["forms"]:
            if form == "FeatureDB" and (not n or sparse):
                continue
            for ck in case["cks"]:
                tag = {"form": form, "checklines": ck}
                if sparse:
                    # judged only when the reference vote recovers the file's dialect under both window conventions
                    if not (F.same_dialect(F.window_vote(recs, D, ck), D) and F.same_dialect(F.window_vote(recs, D, ck + 1), D)):
                        if form == "path":
                            ctx.skip("sparse annotation: reference vote does not recover the dialect for this checklines")
                        continue
                if (sparse or late) and n:
                    if ck not in sparse_refs:
                        try:
                            rdb = gffutils.create_db(paths["plain"], ":memory:", checklines=ck)
                            sparse_refs[ck] = norm_dump(dbdump.dump_db(rdb))
                            rdb.conn.close()
                        except Exception as ex:
                            ctx.violation(case, dict(tag, why="reference import raised %r" % (ex,), text=text))
                            return
                    ref = sparse_refs[ck]
                    ctx.mon("sparse-regime form comparisons" if sparse else "late-key regime: form comparisons against the path form with the same checklines")
                # --- sequence through DataIterator
                pulls = []
                try:
                    data, kw = make_source(ctx, form, paths, text, ck, pulls)
                    it = DataIterator(data, checklines=ck, **kw)
                    pulled_before = len(pulls)
                    seq, yielded = [], []
                    for f in it:
                        seq.append(str(f))
                        yielded.append(f)
                except Exception as ex:
                    ctx.violation(case, dict(tag, why="DataIterator raised %r" % (ex,), text=text))
                    return
                finally:
                    if form == "FeatureDB":
                        data.conn.close()
                ctx.mon("form sequences compared")
                ctx.mon("form=" + form)
                if seq != lines:
                    ctx.violation(case, dict(tag, why="yielded feature sequence differs from the annotation", got=seq, expected=lines))
                    return
                if form in ("generator", "iterator_object"):
                    ctx.mon("one-shot pulls logged", len(pulls))
                    ctx.mon("max pulls before first yield", 0)
                    if pulls != list(range(n)):
                        ctx.violation(case, dict(tag, why="one-shot source was not pulled exactly once per item in order", pulls=pulls, n=n))
                        return
                    ctx.monitors["max pulls before first yield"] = max(ctx.monitors["max pulls before first yield"], pulled_before)
                if late and n:
                    obs = {"dialect": _plain_dialect(it.dialect), "ordered_text": _ordered_text(yielded)}
                    if form == "path":
                        path_seen[ck] = obs
                    elif ck in path_seen:
                        ctx.mon("late-key regime: iterator dialects and ordered feature texts compared with the path form")
                        if form == "FeatureDB" and case.get("src_ck", 10) != ck:
                            ctx.mon("late-key regime: FeatureDB source built with another look-ahead than the one asked for")
                        for what in ("dialect", "ordered_text"):
                            if obs[what] != path_seen[ck][what]:
                                ctx.violation(case, dict(tag, why="the %s form and the path form, read with the same checklines, give another %s"
                                                         % (form, "iterator dialect" if what == "dialect" else "feature text under keep_order"),
                                                         got=obs[what], path_form=path_seen[ck][what], src_ck=case.get("src_ck", 10), text=text))
                                return
                if form in ("path", "gz", "string") and n and list(it.directives) != ref_directives:
                    ctx.violation(case, dict(tag, why="directives differ between file-like forms", got=list(it.directives), expected=ref_directives))
                    return
                if not n:
                    continue
                # --- database through create_db
                pulls = []
                data, kw = make_source(ctx, form, paths, text, ck, pulls)
                try:
                    db = gffutils.create_db(data, ":memory:", checklines=ck, **kw)
                except Exception as ex:
                    ctx.violation(case, dict(tag, why="create_db raised %r" % (ex,), text=text))
                    return
                finally:
                    if form == "FeatureDB":
                        data.conn.close()
                got = norm_dump(dbdump.dump_db(db))
                ddir = list(db.directives)
                db.conn.close()
                ctx.mon("databases compared")
                d = dbdump.diff(ref, got, keys=("features", "relations", "dialect", "autoincrements", "duplicates"))
                if d:
                    ctx.violation(case, dict(tag, why="database differs from the reference import of the same annotation", diff=d, text=text))
                    return
                if form in ("generator", "iterator_object") and pulls != list(range(n)):
                    ctx.violation(case, dict(tag, why="create_db did not pull the one-shot source exactly once per item in order", pulls=pulls, n=n))
                    return
                if form in ("path", "gz", "string") and ddir != ref_directives:
                    ctx.violation(case, dict(tag, why="db.directives differ between file-like forms", got=ddir, expected=ref_directives))
                    return
    finally:
        cleanup(paths)


def transform(ctx, case):
    """A recording transform: each feature exactly once; skipped iff the result is a false value."""
    import gffutils
    from gffutils.iterators import DataIterator

    D = case["D"]
    plan = case["plan"]          # per feature line: "keep" | "modify" | None | False | 0 | ""
    text, lines, paths = prepare_files(ctx, case)
    n = len(lines)
    try:
        for form in case["forms"]:
            ck = case["checklines"]
            calls = Counter()

            def tr(f, calls=calls):
                i = int(f.attributes["lineno"][0])
                calls[i] += 1
                action = plan[i]
                if action == "keep":
                    return f
                if action == "modify":
                    f.attributes["touched"] = ["yes"]
                    f.source = "transformed"
                    return f
                return action        # a false value
            pulls = []
            data, kw = make_source(ctx, form, paths, text, ck, pulls, transform=tr)
            try:
                it = DataIterator(data, checklines=ck, transform=tr, **kw)
                out = list(it)
            except Exception as ex:
                ctx.violation(case, {"why": "iteration with a transform raised %r" % (ex,), "form": form, "plan": plan, "text": text})
                return
            ctx.mon("transform calls recorded", sum(calls.values()))
            if dict(calls) != {i: 1 for i in range(n)}:
                ctx.violation(case, {"why": "transform not applied exactly once per feature", "form": form,
                                     "calls": dict(calls), "n": n, "checklines": ck})
                return
            kept = [i for i in range(n) if plan[i] in ("keep", "modify")]
            if any(not hasattr(f, "attributes") for f in out):
                ctx.violation(case, {"why": "a false transform result was yielded instead of being skipped", "form": form,
                                     "yielded": [repr(f)[:40] for f in out], "plan": plan})
                return
            got = [int(f.attributes["lineno"][0]) for f in out]
            if got != kept:
                ctx.violation(case, {"why": "skipped features are not exactly those mapped to a false value", "form": form,
                                     "yielded": got, "expected": kept, "plan": plan})
                return
            for f in out:
                i = int(f.attributes["lineno"][0])
                if (plan[i] == "modify") != (f.source == "transformed" and "touched" in f.attributes):
                    ctx.violation(case, {"why": "transform result not what was yielded", "form": form, "line": i})
                    return
            if not kept:
                continue
            calls.clear()
            data, kw = make_source(ctx, form, paths, text, ck, pulls, transform=tr)
            try:
                db = gffutils.create_db(data, ":memory:", checklines=ck, transform=tr, **kw)
            except Exception as ex:
                ctx.violation(case, {"why": "create_db with a transform raised %r" % (ex,), "form": form, "plan": plan, "text": text})
                return
            stored = [(int(f.attributes["lineno"][0]), f.source) for f in db.all_features() if f.source != "gffutils_derived"]
            db.conn.close()
            ctx.mon("transform calls recorded", sum(calls.values()))
            if dict(calls) != {i: 1 for i in range(n)}:
                ctx.violation(case, {"why": "create_db: transform not applied exactly once per feature", "form": form,
                                     "calls": dict(calls), "n": n, "checklines": ck})
                return
            if [i for i, _ in stored] != kept or any((s == "transformed") != (plan[i] == "modify") for i, s in stored):
                ctx.violation(case, {"why": "create_db: stored features are not exactly the transformed truthy ones", "form": form,
                                     "stored": stored, "expected": kept, "plan": plan})
                return
    finally:
        cleanup(paths)


def aliasing(ctx, case):
    """Several lines carry a byte-identical attributes column (the exon and CDS lines of one transcript do).  Each yielded
    feature is an object of its own: a transform (or a consumer) that edits one feature's value list in place edits that
    feature only, in every input form."""
    from gffutils.iterators import DataIterator

    D = case["D"]
    text, lines, paths = prepare_files(ctx, case)
    key = case["key"]
    expected = [list(dict((k, v) for k, v in it["rec"]["attrs"])[key]) + ["edited"] for it in case["items"] if it["t"] == "feat"]
    try:
        for form in case["forms"]:
            for how in ("transform", "consumer"):
                pulls = []

                def tr(f):
                    f.attributes[key].append("edited")
                    return f
                try:
                    if how == "transform":
                        data, kw = make_source(ctx, form, paths, text, case["checklines"], pulls, transform=tr)
                        out = [list(f.attributes[key]) for f in DataIterator(data, checklines=case["checklines"], transform=tr, **kw)]
                    else:
                        data, kw = make_source(ctx, form, paths, text, case["checklines"], pulls)
                        out = []
                        held = []
                        for f in DataIterator(data, checklines=case["checklines"], **kw):
                            f.attributes[key].append("edited")
                            held.append(f)
                        out = [list(f.attributes[key]) for f in held]
                except Exception as ex:
                    ctx.violation(case, {"why": "iteration raised %r" % (ex,), "form": form, "how": how, "text": text})
                    return
                ctx.mon("in-place edits of features with identical attribute columns compared")
                if out != expected:
                    ctx.violation(case, {"why": "an in-place edit of one yielded feature's values shows on other features (or not once)",
                                         "form": form, "how": how, "got": out, "expected": expected, "text": text})
                    return
    finally:
        cleanup(paths)


def transform_raises(ctx, case):
    """A transform that raises at feature k (ValueError, KeyError, StopIteration from an unguarded next()): the failure
    surfaces as an exception from the iteration / the import - the data never just ends there."""
    import gffutils
    from gffutils.iterators import DataIterator

    text, lines, paths = prepare_files(ctx, case)
    k, kind = case["k"], case["exc"]
    n = len(lines)
    try:
        for form in case["forms"]:
            for target in ("iterate", "create_db"):
                seen = [0]

                def tr(f):
                    seen[0] += 1
                    if seen[0] == k + 1:
                        if kind == "StopIteration":
                            return next(iter(()))       # the unguarded next() on an exhausted iterator
                        raise {"ValueError": ValueError, "KeyError": KeyError}[kind]("harness: transform fails at feature %d" % k)
                    return f
                pulls = []
                data, kw = make_source(ctx, form, paths, text, case["checklines"], pulls, transform=tr)
                raised, got = None, None
                try:
                    if target == "iterate":
                        got = len(list(DataIterator(data, checklines=case["checklines"], transform=tr, **kw)))
                    else:
                        db = gffutils.create_db(data, ":memory:", checklines=case["checklines"], transform=tr, **kw)
                        got = db.count_features_of_type()
                        db.conn.close()
                except BaseException as ex:
                    raised = ex
                ctx.mon("transforms that raise: outcomes observed")
                if raised is None:
                    ctx.violation(case, {"why": "a transform raised %s at feature %d of %d but %s ended normally with %r features"
                                                % (kind, k, n, target, got), "form": form, "text": text})
                    return
    finally:
        cleanup(paths)


def transform_sees(ctx, case):
    """What a transform SEES is the same in every input form: the feature as the iteration yields it (its printed line,
    its dialect), not a form-specific intermediate.  Sparse-regime annotations, where single lines exhibit less than the
    voted dialect, are where the forms could differ."""
    from gffutils.iterators import DataIterator

    text, lines, paths = prepare_files(ctx, dict(case, bom=False))
    paths["sparse"] = True
    try:
        seen_by_form = {}
        for form in case["forms"]:
            seen = []

            def tr(f, seen=seen):
                d = dict(f.dialect or {})
                d.pop("order", None)
                seen.append([str(f), sorted(d.items(), key=lambda kv: kv[0])])
                return f
            pulls = []
            data, kw = make_source(ctx, form, paths, text, case["checklines"], pulls, transform=tr)
            try:
                list(DataIterator(data, checklines=case["checklines"], transform=tr, **kw))
            except Exception as ex:
                ctx.violation(case, {"why": "iteration with a transform raised %r" % (ex,), "form": form, "text": text})
                return
            seen_by_form[form] = seen
        ref_form = case["forms"][0]
        for form in case["forms"][1:]:
            ctx.mon("what a transform saw compared across input forms")
            if seen_by_form[form] != seen_by_form[ref_form]:
                k = next((j for j in range(min(len(seen_by_form[form]), len(seen_by_form[ref_form])))
                          if seen_by_form[form][j] != seen_by_form[ref_form][j]), None)
                ctx.violation(case, {"why": "a transform sees another printed line / dialect in the %s form than in the %s form" % (form, ref_form),
                                     "feature": k, form: seen_by_form[form][k] if k is not None else len(seen_by_form[form]),
                                     ref_form: seen_by_form[ref_form][k] if k is not None else len(seen_by_form[ref_form]), "text": text})
                return
    finally:
        paths.pop("sparse", None)
        cleanup(paths)


def source_raises(ctx, case):
    """A one-shot source that fails while producing item k (inside or beyond the look-ahead window): the failure surfaces
    as an exception - construction, iteration or import never just end as if the data had run out."""
    import gffutils
    from gffutils.feature import feature_from_line
    from gffutils.iterators import DataIterator

    text, lines, paths = prepare_files(ctx, case)
    k = case["k"]
    try:
        feats = [feature_from_line(l) for l in lines]

        class Broken(Exception):
            pass

        def gen():
            for i, f in enumerate(feats):
                if i == k:
                    raise Broken("harness: the source fails at item %d" % k)
                yield f

        class It(object):
            def __init__(self):
                self.i = 0

            def __iter__(self):
                return self

            def __next__(self):
                if self.i == k:
                    raise Broken("harness: the source fails at item %d" % k)
                if self.i >= len(feats):
                    raise StopIteration
                self.i += 1
                return feats[self.i - 1]

        def lazy():
            # the usual way such a failure comes about: lines parsed lazily, one of them malformed
            return (feature_from_line(l if i != k else l.replace("\t", "\tNOT-A-NUMBER", 4).replace("\tNOT-A-NUMBER", "\t", 3))
                    for i, l in enumerate(lines))
        for how, make in (("generator", gen), ("iterator object", It), ("lazy parse", lazy)):
            for target in ("iterate", "create_db"):
                raised, got = None, None
                try:
                    if target == "iterate":
                        got = len(list(DataIterator(make(), checklines=case["checklines"])))
                    else:
                        db = gffutils.create_db(make(), ":memory:", checklines=case["checklines"])
                        got = db.count_features_of_type()
                        db.conn.close()
                except BaseException as ex:
                    raised = ex
                ctx.mon("sources that raise: outcomes observed")
                if k <= case["checklines"]:
                    ctx.mon("sources that raise inside the look-ahead window")
                if raised is None:
                    ctx.violation(case, {"why": "a one-shot source failed at item %d of %d (checklines %d) but %s ended normally with %r features"
                                                % (k, len(lines), case["checklines"], target, got), "source": how, "text": text})
                    return
                if target == "iterate" and how != "lazy parse" and not isinstance(raised, Broken):
                    chain, e = [], raised
                    while e is not None and len(chain) < 6:
                        chain.append(e)
                        e = e.__cause__ or e.__context__
                    if not any(isinstance(x, Broken) for x in chain):
                        ctx.violation(case, {"why": "the source's own exception was replaced by %r" % (raised,), "source": how, "k": k,
                                             "checklines": case["checklines"]})
                        return
    finally:
        cleanup(paths)


def bigwindow(ctx, case):
    """checklines larger than 1000 on an annotation whose spelling changes after record ~1000: every input form looks at
    the same window, so all forms report the same dialect and yield the same printed features."""
    import gffutils
    from gffutils.iterators import DataIterator

    D, D2 = case["D"], case["D2"]
    rng = random.Random(case["seed"])
    recs = F.uniform_records(rng, D, case["n1"], ids="unique", coords=True)
    recs2 = F.uniform_records(rng, D2, case["n2"], ids="unique", coords=True)
    for i, r in enumerate(recs2):
        for kv in r["attrs"]:
            if kv[0] == "ID":
                kv[1] = ["second%d" % i]
    text = F.text_of([{"t": "feat", "rec": r} for r in recs], D) + F.text_of([{"t": "feat", "rec": r} for r in recs2], D2)
    written_keys = set(k for r in recs + recs2 for k, _ in r["attrs"])
    src = ctx.tmp(".big.gff")
    with open(src, "w", encoding="utf-8", newline="") as fh:
        fh.write(text)
    try:
        ck = case["checklines"]
        ref = DataIterator(src, checklines=ck)
        ref_lines = [str(f) for f in ref]
        base = list(DataIterator(src, checklines=ck))
        for how in ("generator", "iter(list)", "map", "DataIterator over a generator"):
            if how == "generator":
                data = (f for f in base)
            elif how == "iter(list)":
                data = iter(list(base))
            elif how == "map":
                data = map(lambda f: f, base)
            else:
                data = DataIterator((f for f in base), checklines=ck)
            it = DataIterator(data, checklines=ck)
            got = [str(f) for f in it]
            ctx.mon("large look-ahead windows: one-shot forms compared with the path form")
            d1 = dict(it.dialect); d0 = dict(ref.dialect)
            # (only the keys the annotation was written with are compared in the key order: lines of the losing spelling,
            # parsed under the voted dialect, carry artefact keys - '', 'Parent;' - that per-line inference over the file does
            # not see; that is a property of mixtures, not of the input forms)
            d1["order"] = [k_ for k_ in d1.get("order", []) if k_ in written_keys]
            d0["order"] = [k_ for k_ in d0.get("order", []) if k_ in written_keys]
            if d1 != d0 or got != ref_lines:
                k = next((j for j in range(min(len(got), len(ref_lines))) if got[j] != ref_lines[j]), None)
                ctx.violation(case, {"why": "with checklines=%d the %s form does not agree with the path form" % (ck, how),
                                     "dialect_differs": {x: [d0.get(x), d1.get(x)] for x in d0 if d0.get(x) != d1.get(x) and x != "order"},
                                     "first_differing_feature": k,
                                     "n": [len(ref_lines), len(got)]})
                return
    finally:
        os.unlink(src)


def inspect_case(ctx, case):
    import gffutils
    from gffutils import inspect as I

    D, items = case["D"], case["items"]
    recs = [it["rec"] for it in items if it["t"] == "feat"]
    text, lines, paths = prepare_files(ctx, case)
    n = len(recs)
    try:
        look_for, limit, form = case["look_for"], case["limit"], case["form"]
        pulls = []
        if form == "FeatureDB":
            gffutils.create_db(paths["plain"], paths["srcdb"], disable_infer_genes=True, disable_infer_transcripts=True).conn.close()
        data, kw = make_source(ctx, form, paths, text, 10, pulls)
        try:
            res = I.inspect(data, look_for=list(look_for), limit=limit, verbose=False)
        except Exception as ex:
            ctx.violation(case, {"why": "inspect raised %r" % (ex,), "text": text})
            return
        finally:
            if form == "FeatureDB":
                data.conn.close()
        ctx.mon("inspect results compared")
        m = n if not limit else min(limit, n)
        exp = {}
        colmap = {"chrom": "seqid", "stop": "end"}
        for k in look_for:
            if k == "feature_count":
                continue
            if k == "attribute_keys":
                c = Counter()
                for r in recs[:m]:
                    c.update(kk for kk, _ in r["attrs"])
            else:
                col = colmap.get(k, k)
                c = Counter()
                for r in recs[:m]:
                    v = r[col]
                    if col in ("start", "end"):
                        v = None if v == "." else int(v)
                    c[v] += 1
            exp[k] = dict(c)
        exp["feature_count"] = m
        if res != exp:
            ctx.violation(case, {"why": "inspect() counts differ from what was iterated", "got": res, "expected": exp,
                                 "limit": limit, "look_for": look_for, "n": n})
    finally:
        cleanup(paths)


def annotation(rng, nmax=25, lineno=False, sparse=False):
    D = rng.choice(M.points())
    n = rng.choice([0, 1, 2, 3, 4, 5, 8, 11, 12, 13, nmax]) if not lineno else rng.randrange(1, 14)
    if sparse:
        n = max(n, 2)
        recs = F.sparse_records(rng, D, n, ids="unique")
    else:
        recs = F.uniform_records(rng, D, n, ids="unique", coords=True) if n else []
    for i, r in enumerate(recs):
        if D["fmt"] == "gtf" and r["featuretype"] == "exon":
            for c in ("start", "end"):
                if r[c] == ".":
                    r[c] = "500"
            if int(r["start"]) > int(r["end"]):
                r["start"], r["end"] = r["end"], r["start"]
        if lineno:
            r["attrs"].append(["lineno", [str(i)]])
    if not sparse and not D["repeated"] and recs and rng.random() < 0.3:
        # a comma list written with a blank after the comma ("kinase, putative"): legitimate text whose parse depends on
        # the mode (inference vs given dialect); only cross-form / cross-checklines agreement is asked of it here
        r = recs[rng.randrange(len(recs))]
        cands = [kv for kv in r["attrs"] if len(kv[1]) == 1 and kv[0] not in F.SINGLE]
        if cands:
            kv = cands[rng.randrange(len(cands))]
            kv[1] = [kv[1][0], " putative"]
    if lineno and recs:
        # keep the uniform regime: line 1 must carry every key (lineno is on every line, last)
        pass
    return D, F.decorate(rng, recs)


def late_key_annotation(rng):
    """A uniform-regime annotation (every line exhibits the whole spelling) in which further attribute keys first appear on
    later lines, at any position after the leading key(s): the voted spelling is the same for every window, the key order
    of the dialect is not."""
    from gvmon.gen import records as R
    D = rng.choice(M.points())
    n = rng.choice([3, 4, 5, 6, 8, 11, 12, 13, 16])
    recs = F.uniform_records(rng, D, n, ids="unique", coords=True)
    used = sorted(set(k for r in recs for k, _ in r["attrs"]) | set(["ID", "Parent", "gene_id", "transcript_id"]))
    lead = 2 if D["fmt"] == "gtf" else 1
    escaped = M.escapes(D)
    nlate = 0
    for i, r in enumerate(recs):
        if D["fmt"] == "gtf" and r["featuretype"] == "exon":
            for c in ("start", "end"):
                if r[c] == ".":
                    r[c] = "500"
            if int(r["start"]) > int(r["end"]):
                r["start"], r["end"] = r["end"], r["start"]
        if i == 0 or rng.random() < 0.35:
            continue
        for _ in range(rng.choice([1, 1, 2])):
            k = R.key(rng, wordlike=True, used=used)
            used.append(k)
            pos = rng.randrange(min(lead, len(r["attrs"])), len(r["attrs"]) + 1)
            r["attrs"].insert(pos, [k, [R.value(rng, escaped=escaped)]])
            nlate += 1
    return D, F.decorate(rng, recs), nlate


def run(ctx):
    rng = ctx.rng
    late_forms = [f for f in FORMS if not f.startswith("symlink")]
    for _ in range(ctx.budget(28, 1400)):
        D, items, nlate = late_key_annotation(rng)
        n = sum(1 for it in items if it["t"] == "feat")
        cks = sorted(set([0, 1, 2, max(0, n - 1), n, n + 1, n + 2, 10]))
        if ctx.tier == "quick":
            cks = sorted(set(rng.sample(cks, 3) + [rng.choice([0, 1, 2])]))
        # the database handed in as input was itself built with some look-ahead: the default, none, or the whole file
        case = {"kind": "forms", "D": D, "items": items, "forms": late_forms, "cks": cks, "regime": "latekeys", "bom": False,
                "src_ck": rng.choice([10, 10, 0, 2, n + 2])}
        execute(ctx, case)
        ctx.mon("late-key regime: attribute keys that first appear after the first line", nlate)
        text = F.text_of(items, D)
        for form in late_forms:
            for ck in cks:
                ctx.case((text, form, ck, case["src_ck"]), nlate > 0, cls="late keys: %s" % form)
    for _ in range(ctx.budget(120, 6000)):
        sparse = rng.random() < 0.3
        D, items = annotation(rng, sparse=sparse)
        n = sum(1 for it in items if it["t"] == "feat")
        cks = sorted(set([0, 1, 2, max(0, n - 1), n, n + 1, n + 2]))
        if ctx.tier == "quick":
            cks = sorted(set(rng.sample(cks, min(4, len(cks))) + [0]))
        case = {"kind": "forms", "D": D, "items": items, "forms": FORMS, "cks": cks, "regime": "sparse" if sparse else "uniform",
                "bom": (not sparse) and rng.random() < 0.08}
        if case["bom"]:
            case["forms"] = [f for f in FORMS if f != "FeatureDB"]
            ctx.mon("annotations starting with a byte order mark")
        execute(ctx, case)
        text = F.text_of(items, D)
        for form in FORMS:
            for ck in cks:
                cls = "ck=0" if ck == 0 else ("ck<n" if ck < n else ("ck=n" if ck == n else "ck>n"))
                ctx.case((text, form, cls), n >= 3, sample={"D": D, "form": form, "checklines": ck, "text": text[:300]} if rng.random() < 0.02 else None,
                         cls="%s %s" % (form, cls))
    for _ in range(ctx.budget(600, 24000)):
        D, items = annotation(rng, lineno=True)
        n = sum(1 for it in items if it["t"] == "feat")
        falsy = [None, False, 0, ""]
        plan = [rng.choice(["keep", "keep", "modify", rng.choice(falsy)]) for _ in range(n)]
        case = {"kind": "transform", "D": D, "items": items, "plan": plan, "checklines": rng.choice([0, 1, 2, n, n + 2]),
                "forms": rng.sample([f for f in FORMS if f != "FeatureDB"], 3)}
        execute(ctx, case)
        ctx.case(("transform", F.text_of(items, D), plan, case["checklines"], case["forms"]), n >= 3,
                 sample={"plan": plan, "forms": case["forms"]} if rng.random() < 0.05 else None, cls="transform")
    for _ in range(ctx.budget(60, 3000)):
        D, items = annotation(rng)
        n = sum(1 for it in items if it["t"] == "feat")
        if n < 1:
            continue
        case = {"kind": "transform_raises", "D": D, "items": items, "k": rng.randrange(0, n), "exc": rng.choice(["ValueError", "KeyError", "StopIteration", "StopIteration"]),
                "checklines": rng.choice([0, 1, 2, 10, n + 2]), "forms": rng.sample([f for f in FORMS if f != "FeatureDB"], 3)}
        execute(ctx, case)
        ctx.case(("transform_raises", F.text_of(items, D), case["k"], case["exc"], case["checklines"], case["forms"]), n >= 3, cls="transform raises")
    for _ in range(ctx.budget(60, 3000)):
        D, items = annotation(rng)
        n = sum(1 for it in items if it["t"] == "feat")
        if n < 1:
            continue
        ck = rng.choice([0, 1, 2, 10, n + 2])
        case = {"kind": "source_raises", "D": D, "items": [it for it in items if it["t"] == "feat"], "k": rng.randrange(0, n), "checklines": ck}
        execute(ctx, case)
        ctx.case(("source_raises", F.text_of(case["items"], D), case["k"], ck), n >= 3, cls="source raises")
    for _ in range(ctx.budget(120, 6000)):
        D, items = annotation(rng, sparse=True)
        feats_ = [it for it in items if it["t"] == "feat"]
        n = len(feats_)
        recs_ = [it["rec"] for it in feats_]
        ck = rng.choice([max(0, n - 1), n, n + 2, 10])
        v1, v2 = F.window_vote(recs_, D, ck), F.window_vote(recs_, D, ck + 1)
        if not (F.same_dialect(v1, D) and F.same_dialect(v2, D)) or v1["order"] != v2["order"]:
            ctx.skip("transform_sees: the reference vote does not recover the dialect under both window conventions")
            continue
        case = {"kind": "transform_sees", "D": D, "items": items, "checklines": ck, "forms": ["path", "list", "generator", "string", "iterator_object"]}
        execute(ctx, case)
        ctx.case(("transform_sees", F.text_of(items, D), ck), n >= 3, cls="transform sees (sparse regime)")
    if ctx.shard == 0 or ctx.tier == "thorough":
        D = rng.choice([p for p in M.points() if not p["trailing"]])
        D2 = dict(D, trailing=True)
        case = {"kind": "bigwindow", "D": D, "D2": D2, "n1": rng.choice([1001, 1002, 1100]), "n2": rng.choice([1300, 1500]),
                "checklines": rng.choice([3000, 5000]), "seed": rng.randrange(10 ** 6)}
        execute(ctx, case)
        ctx.case(("bigwindow", case["n1"], case["n2"], case["checklines"], case["seed"]), True, cls="large look-ahead window")
    import copy
    for _ in range(ctx.budget(100, 5000)):
        D, items = annotation(rng)
        feats = [it for it in items if it["t"] == "feat"]
        if len(feats) < 2:
            continue
        a0 = feats[0]["rec"]["attrs"]
        keyed = [k for k, v in a0 if v]
        if not keyed:
            continue
        key = keyed[-1]
        for j, it in enumerate(feats[1:]):
            it["rec"]["attrs"] = copy.deepcopy(a0)
            if rng.random() < 0.3:
                # not identical after all: the value under the key differs
                for kv in it["rec"]["attrs"]:
                    if kv[0] == key:
                        kv[1] = [kv[1][0] + "x%d" % j] + kv[1][1:]
        case = {"kind": "aliasing", "D": D, "items": items, "key": key, "checklines": rng.choice([0, 1, 2, 10, len(feats) + 2]),
                "forms": rng.sample([f for f in FORMS if f != "FeatureDB"], 4)}
        execute(ctx, case)
        ctx.case(("aliasing", F.text_of(items, D), key, case["checklines"], case["forms"]), len(feats) >= 3, cls="aliasing")
    opts = ["featuretype", "chrom", "attribute_keys", "feature_count", "source", "strand", "start", "end", "score", "frame", "seqid"]
    for _ in range(ctx.budget(1200, 40000)):
        D, items = annotation(rng)
        n = sum(1 for it in items if it["t"] == "feat")
        if not n:
            continue
        look_for = rng.sample(opts, rng.randrange(1, 6))
        limit = rng.choice([None, 1, max(1, n - 1), n, n + 3])
        form = rng.choice(["path", "gz", "list", "generator", "FeatureDB"])
        if form == "FeatureDB" and D["fmt"] == "gtf" and False:
            form = "path"
        case = {"kind": "inspect", "D": D, "items": items, "look_for": look_for, "limit": limit, "form": form}
        execute(ctx, case)
        ctx.case(("inspect", F.text_of(items, D), look_for, limit, form), n >= 3, cls="inspect")


MANIFEST = {
    "technique": "pull-log monitor on one-shot sources + cross-form comparison against the annotation's own lines and a reference import; recording transform; Counter model of inspect",
    "text": "The same generated annotation is handed to the real DataIterator and create_db in ten forms (two of them symlinks whose target is named differently from the link) for checklines "
            "values around the file length; the yielded sequence is compared with the file's own lines and each database with "
            "a reference import through an independent sqlite reader; one-shot sources log every pull so that a dropped, "
            "duplicated or reordered item is seen directly; a recording transform proves exactly-once application and "
            "skip-iff-falsy; inspect() is compared with a Counter over the model. Sparse-regime annotations (where the reference vote recovers the dialect) are compared across forms as well, with Feature lists built line by line; gzip files are partly multi-member; values may contain ', ' and characters that str.splitlines() takes for line ends.",
    "note": "Trusted: the uniform-regime generator. Held = every executed (annotation, form, checklines) combination agreed.",
}
