"""
C10  Update/delete histories leave exactly the modelled content; ids never recycle; .bak is the pre-operation database.

History + executable model (gvmon/models/history.py): every step of a history is applied to the real FeatureDB
(file database) and to the model; after every step the independent content dump must equal the model.
Fault enumeration: the feature source of an update raises at every position; the .bak file must equal the
pre-operation content.
"""
import itertools
import os
import random

from gvmon import dbdump
from gvmon.models.history import Model
from gvmon.monitors import contracts

LEVEL = "fault_enumeration"
RULE = ("GFF3 file databases with a depth-4 hierarchy, multi-parent and id-less features; histories over the alphabet "
        "{A: update(create_unique batch), B: update(merge batch), C: update(replace batch), E: update([]), D: delete, "
        "R: add_relation, O: close/reopen, M: store the outputs of merge() through update}: all words of length <= 3 (quick) / <= 5 (thorough), random words to length 12; "
        "fault cases: an update of n features whose one-shot source raises at position k for every k in 0..n, "
        "checklines 0 and 1; random words of length 2..6 on a database opened under another spelling of its path (symbolic link beside "
        "the file / in another directory, relative path, redundant components), '<path given>.bak' judged; non-trivial history = contains an update after a delete or reopen; distinct by (base salt, word) "
        "and by (n, k, checklines)")
REQUIRED = ["merges into a feature whose parent was deleted earlier", "the caller's Feature object handed in again after the merged feature was deleted",
            "updates whose text is written in another spelling than the database's dialect", "auto-keyed updates after a failed update on the same handle", "second-handle comparisons", "look-ups with Feature objects fetched before the step", "updates with hand-built Feature objects", "merge() outputs stored through update", "spawn-history steps compared", "bulk deletes (hundreds of ids in one call)", "iteration order compared after a step", "live-handle comparisons", "history steps applied", "content dumps compared with the model", ".bak compared with pre-operation content",
            ".bak of the path the database was opened under compared with pre-operation content",
            "auto-generated keys checked for freshness", "faults injected", "faults injected mid-import (beyond the peek window)",
            "reopen steps", "failpoints fired inside gffutils", "metamorphic comparisons (batched updates vs single import)",
            "metamorphic comparisons (delete undoes the last update)"]
ASSUMPTIONS = [
    "relations accumulate: an update adds level-1 rows for Parent values and level-2 rows = compositions of two level-1 "
    "rows of the state after the update; delete removes exactly the rows mentioning the id; a level-2 row whose "
    "grandparent is not a stored feature is neither demanded nor forbidden",
    "merge batches only duplicate features whose columns agree (C05 owns the full merge semantics); replace batches keep "
    "the replaced feature's Parent values",
    "after a failed update only the .bak file is judged (the statement promises nothing about the main file); the history ends there",
    "meta rows / directives are not part of 'features and relations'; update([]) must leave the whole content dump identical",
]
EXHAUSTIVE_NOTE = "all words over the 7-operation alphabet up to the depth bound; all fault positions 0..n for n in 1..5; failpoints at the 1st/2nd/3rd/5th call of 9 internal functions during an update"
QUICK_SHARDS = 4
ALPHABET = "ABCEDROM"
_STATES = set()
COLS = ("seqid", "source", "featuretype", "start", "end", "score", "strand", "frame")


def setup(ctx):
    contracts.install_all()


def rec(ftype, start, end, attrs, seqid="chr1", strand="+"):
    return {"cols": {"seqid": seqid, "source": "src", "featuretype": ftype, "start": start, "end": end, "score": ".",
                     "strand": strand, "frame": "."}, "attrs": [[k, list(v)] for k, v in attrs]}


def line(r):
    c = r["cols"]
    parts = []
    for k, v in r["attrs"]:
        parts.append("%s=%s" % (k, ",".join(v)))
    return "\t".join([c["seqid"], c["source"], c["featuretype"], str(c["start"]), str(c["end"]), c["score"], c["strand"],
                      c["frame"], ";".join(parts)])


def base_records(salt):
    rng = random.Random(salt)
    if salt % 5 == 4:
        # every feature has an explicit ID: the autoincrements table starts out empty
        return [
            rec("gene", 100, 900, [["ID", ["a"]], ["Name", ["A1", "A2"]]]),
            rec("mRNA", 100, 900, [["ID", ["b"]], ["Parent", ["a"]]]),
            rec("exon", 100, 300, [["ID", ["c"]], ["Parent", ["b"]], ["Note", ["n1"]]]),
            rec("CDS", 150, 250, [["ID", ["d"]], ["Parent", ["c"]]]),
            rec("exon", 400, 500, [["ID", ["e9"]], ["Parent", ["b", "ghost"]]]),
            rec("exon", 280, 410, [["ID", ["e8"]], ["Parent", ["b"]]]),
            rec("gene", 1000, 2000, [["ID", ["g2"]], ["Note", ["x"]]]),
        ]
    recs = [
        rec("gene", 100, 900, [["ID", ["a"]], ["Name", ["A1", "A2"]]]),
        rec("mRNA", 100, 900, [["ID", ["b"]], ["Parent", ["a"]]]),
        rec("exon", 100, 300, [["ID", ["c"]], ["Parent", ["b"]], ["Note", ["n1"]]]),
        rec("CDS", 150, 250, [["ID", ["d"]], ["Parent", ["c"]]]),
        rec("exon", 400, 500, [["Parent", ["b"]]]),
        rec("exon", 280, 410, [["Parent", ["b"]]]),            # overlaps both exons above: merge() has something to merge
        rec("gene", 1000, 2000, [["ID", ["g2"]], ["Note", ["x"]]]),
        rec("mRNA", 1000, 2000, [["ID", ["m2"]], ["Parent", ["g2", "a"]]]),
        rec("region", 1, 5000, [["Note", ["whole"]]]),
    ]
    for i in range(rng.randrange(0, 3)):
        recs.append(rec("exon", 1100 + 100 * i, 1150 + 100 * i, [["Parent", ["m2"]]] if i % 2 else [["ID", ["e%d" % i]], ["Parent", ["m2", "ghost"]]]))
    if rng.random() < 0.5:
        recs.append(rec("gene", 3000, 3100, [["Name", ["anon"]]], strand="-"))
    return recs


def derive(op, model, step, salt):
    """Concrete arguments of an operation, derived deterministically from the model state."""
    rng = random.Random(salt * 1000 + step)
    ids = sorted(model.feats)
    pick = lambda: ids[rng.randrange(len(ids))] if ids else None
    # features stored under their own ID attribute (a later arrival with that ID collides with exactly them)
    own = [k for k in ids if dict((a, v) for a, v in model.feats[k]["attrs"]).get("ID") == [k]]
    pick_own = lambda: own[rng.randrange(len(own))] if own else None
    if op == "A":
        nid = "n%da" % step
        batch = [rec("mRNA", 10 * step + 1, 10 * step + 50, [["ID", [nid]], ["Parent", [pick() or "ghost"]]]),
                 rec("exon", 10 * step + 1, 10 * step + 20, [["Parent", [nid]]]),
                 # a key base that did not exist when the database was created
                 rec("tRNA", 10 * step + 2, 10 * step + 9, [["Note", ["no id %d" % step]]], seqid="chrNew%d" % (step % 3))]
        k = pick_own()
        if k:
            batch.append(rec("match", 7000 + step, 7100 + step, [["ID", [k]], ["Note", ["dup%d" % step]]]))
        return {"op": "update", "strategy": "create_unique", "batch": batch}
    if op == "B":
        batch = []
        k = pick_own()
        variant = rng.randrange(4)
        spawned = [(key, d) for key, ds in sorted(model.dups.items()) for d in ds if d in model.feats and key in model.feats]
        gone = [key for key, ds in sorted(model.dups.items()) if key not in model.feats and any(d in model.feats for d in ds)]
        if variant == 2 and spawned:
            # an arrival that agrees with a feature filed earlier under '<key>_n': it is merged into that one
            key, d = spawned[rng.randrange(len(spawned))]
            f = model.feats[d]
            attrs = [["ID", [key]]] + [[a, list(v)] for a, v in f["attrs"] if a == "Parent"] + [["Note", ["into-spawn%d" % step]]]
            batch.append({"cols": dict(f["cols"]), "attrs": attrs})
        elif variant == 3 and gone:
            # the key itself was deleted meanwhile and comes back (no collision: a plain insert)
            key = gone[rng.randrange(len(gone))]
            batch.append(rec("gene", 9000 + step, 9100 + step, [["ID", [key]], ["Note", ["back%d" % step]]]))
        elif k and variant == 1:
            # same key, other coordinates: filed under a fresh '<key>_n'
            f = model.feats[k]
            cols = dict(f["cols"])
            cols["start"], cols["end"] = 20000 + 97 * step + salt, 20050 + 97 * step + salt
            attrs = [[a, list(v)] for a, v in f["attrs"] if a in ("ID", "Parent")] + [["Note", ["spawn%d" % step]]]
            batch.append({"cols": cols, "attrs": attrs})
        elif k:
            f = model.feats[k]
            attrs = [[a, list(v)] for a, v in f["attrs"] if a in ("ID", "Parent")]
            attrs.append(["Note", ["merged%d" % step]])
            batch.append({"cols": dict(f["cols"]), "attrs": attrs})
        p = pick()
        batch.append(rec("exon", 20 * step + 3, 20 * step + 9, [["ID", ["n%db" % step]], ["Parent", [p or "ghost"]]]))
        return {"op": "update", "strategy": "merge", "batch": batch}
    if op == "C":
        k = pick_own()
        # half of the time the replaced feature is the child of a hand-made relation (if there is one): replacing a
        # feature takes ITS Parent links with it, nothing else
        manual_children = [c for (p_, c, l_) in sorted(getattr(model, "manual", ())) if c in own and (p_, c, l_) in model.rels]
        if manual_children and rng.random() < 0.5:
            k = manual_children[rng.randrange(len(manual_children))]
        if not k:
            return {"op": "update", "strategy": "replace", "batch": []}
        f = model.feats[k]
        attrs = [["ID", [k]]] + [[a, list(v)] for a, v in f["attrs"] if a == "Parent"] + [["Name", ["repl%d" % step]]]
        cols = dict(f["cols"])
        cols["start"] = (cols["start"] or 1) + 1
        cols["end"] = max(cols["start"], cols["end"] or 1)
        return {"op": "update", "strategy": "replace", "batch": [{"cols": cols, "attrs": attrs}]}
    if op == "E":
        return {"op": "update", "strategy": rng.choice(["create_unique", "merge", "error"]), "batch": []}
    if op == "D":
        k = pick()
        if not k:
            return {"op": "noop"}
        how = rng.choice(["str", "feature", "list", "generator"])
        more = [pick()] if how in ("list", "generator") else []
        return {"op": "delete", "ids": sorted(set([k] + more)), "how": how}
    if op == "R":
        if len(ids) < 2:
            return {"op": "noop"}
        direct = sorted((p_, c_) for (p_, c_, l_) in model.rels if l_ == 1 and p_ in model.feats and c_ in model.feats)
        for _ in range(30):
            p, c = rng.sample(ids, 2)
            lvl = rng.choice([1, 1, 2])
            if direct and rng.random() < 0.35:
                # a pair that is already a Parent link, related once more at another level
                p, c = direct[rng.randrange(len(direct))]
                lvl = rng.choice([2, 2, 3])
            if (p, c, lvl) not in model.rels and (p, c, lvl) not in model.optional:
                return {"op": "add_relation", "parent": p, "child": c, "level": lvl, "as_feature": rng.random() < 0.5,
                        "hooks": rng.random() < 0.4}
        return {"op": "noop"}
    if op == "O":
        return {"op": "reopen"}
    if op == "M":
        return {"op": "store_merged"}
    raise ValueError(op)


def to_features(batch, how, ctx):
    """Batch as a list of Features, a one-shot generator or a file path."""
    from gffutils.feature import feature_from_line

    if how == "path":
        p = ctx.tmp(".upd.gff")
        with open(p, "w", encoding="utf-8") as fh:
            fh.write("\n".join(line(r) for r in batch) + "\n")
        return p, p
    feats = [feature_from_line(line(r)) for r in batch]
    if how == "generator":
        return (f for f in feats), None
    return feats, None


def is_auto(key, feat):
    d = dict((k, v) for k, v in feat["attributes"])
    return not ("ID" in d and d["ID"] and d["ID"][0] == key)


def execute(ctx, case):
    try:
        if case["kind"] == "history":
            history(ctx, case)
        elif case["kind"] == "failpoint":
            failpoint(ctx, case)
        elif case["kind"] == "metamorphic":
            metamorphic(ctx, case)
        elif case["kind"] == "bulk":
            bulk(ctx, case)
        elif case["kind"] == "spawn_history":
            spawn_history(ctx, case)
        elif case["kind"] == "merge_after_delete":
            merge_after_delete(ctx, case)
        else:
            fault(ctx, case)
    finally:
        for v in contracts.drain():
            ctx.violation(case, v)


def build_base(ctx, salt):
    import gffutils

    recs = base_records(salt)
    dbfn = ctx.tmp(".db")
    text = "\n".join(line(r) for r in recs) + "\n"
    db = gffutils.create_db(text, dbfn, from_string=True)
    model = Model()
    model.update(recs, "error")
    return db, dbfn, model, text


def cleanup(dbfn):
    for p in (dbfn, dbfn + ".bak"):
        if os.path.exists(p):
            os.unlink(p)


VIAS = ("link", "link in another directory", "relative", "redundant components")


def make_alias(ctx, dbfn, via):
    """Another spelling of the path of the database file `dbfn` (the caller opens the database under THAT name):
    returns (path to open, list of things to remove afterwards) or (None, []) where the platform cannot do it."""
    made = []
    try:
        if via == "link":
            alias = ctx.tmp(".current.db")
            os.symlink(dbfn, alias)
            made.append(alias)
        elif via == "link in another directory":
            d = ctx.tmp(".dir")
            os.mkdir(d)
            made.append(d)
            alias = os.path.join(d, "current.db")
            os.symlink(dbfn, alias)
            made.insert(0, alias)
        elif via == "relative":
            alias = os.path.relpath(dbfn)
        else:
            alias = os.path.join(os.path.dirname(dbfn), ".", ".", os.path.basename(dbfn))
    except (OSError, NotImplementedError, AttributeError, ValueError):
        remove_alias(made)
        return None, []
    return alias, made


def remove_alias(made, opened=None):
    for p in ([opened + ".bak"] if opened else []) + list(made):
        try:
            if os.path.isdir(p) and not os.path.islink(p):
                os.rmdir(p)
            elif os.path.lexists(p):
                os.unlink(p)
        except OSError:
            pass


def history(ctx, case):
    import gffutils

    salt, word = case["salt"], case["word"]
    db, dbfn, model, text = build_base(ctx, salt)
    trace = []
    other = None
    handles = {}
    # the name under which the caller opens (and reopens) the database; '<that name>.bak' is the backup the statement means
    opened, made = dbfn, []
    if case.get("via"):
        opened, made = make_alias(ctx, dbfn, case["via"])
        if opened is None:
            db.conn.close()
            cleanup(dbfn)
            ctx.skip("this platform cannot make a path alias of kind %r" % case["via"])
            return
        db.conn.close()
        db = gffutils.FeatureDB(opened)
        trace.append({"opened as": case["via"]})
        ctx.mon("histories on a database opened under another spelling of its path (%s)" % case["via"])
    aliased = opened != dbfn
    try:
        d = model.compare(dbdump.dump(dbfn))
        if d:
            ctx.violation(case, dict(d, step=-1, note="base import differs from the model", base=text))
            return
        # a second, long-lived FeatureDB object on the same file (never reopened); primed with every kind of read
        other = gffutils.FeatureDB(dbfn)
        if not live_agrees(ctx, case, other, dbdump.dump(dbfn), -1, trace, who="second handle"):
            return
        list(other.region(seqid="no_such_seqid", start=1, end=10))
        handles = {f.id: f for f in db.all_features()}
        for step, op in enumerate(word):
            args = derive(op, model, step, salt)
            trace.append(args if args["op"] != "update" else dict(args, batch=[line(r) for r in args["batch"]]))
            if args["op"] == "noop":
                continue
            before = dbdump.dump(dbfn)
            ever_before = set(model.ever)
            ctx.mon("history steps applied")
            try:
                if args["op"] == "update":
                    how = ["list", "generator", "path"][(salt + step) % 3] if args["batch"] else "list"
                    data, tmp = to_features(args["batch"], how, ctx)
                    try:
                        # the verbose argument only controls logging: not given / False / True / 'debug'
                        vkw = [{}, {"verbose": False}, {"verbose": True}, {"verbose": "debug"}][(salt // 3 + step) % 4]
                        ctx.mon("updates with verbose=%r" % (vkw.get("verbose", "not given"),))
                        db.update(data, merge_strategy=args["strategy"], make_backup=True, **vkw)
                    finally:
                        if tmp and os.path.exists(tmp):
                            os.unlink(tmp)
                    if args["batch"]:
                        model.update(args["batch"], args["strategy"])
                    check_bak(ctx, case, opened, before, step, trace, aliased=aliased)
                elif args["op"] == "delete":
                    ids = args["ids"]
                    if args["how"] == "str":
                        db.delete(ids[0], make_backup=True)
                    elif args["how"] == "feature":
                        db.delete(db[ids[0]], make_backup=True)
                    elif args["how"] == "generator":
                        db.delete((db[i] for i in list(ids)), make_backup=True)      # a one-shot iterable of Features
                    else:
                        db.delete([db[i] if n % 2 else i for n, i in enumerate(ids)], make_backup=True)
                    model.delete(ids)
                    check_bak(ctx, case, opened, before, step, trace, aliased=aliased)
                elif args["op"] == "add_relation":
                    p, c = args["parent"], args["child"]
                    kw, pe, ce = {}, None, None
                    if args.get("hooks"):
                        # the documented hook functions: they return the (modified) features, which are written back
                        pend = (model.feats[p]["cols"]["end"] or 1) + 7

                        def parent_func(parent, child, pend=pend):
                            parent.attributes["adopted"] = [child.id]
                            parent.end = pend
                            return parent

                        def child_func(parent, child):
                            child.attributes["adopted_by"] = [parent.id]
                            child.score = "77"
                            return child
                        kw = {"parent_func": parent_func, "child_func": child_func}
                        pe = {"cols": {"end": pend}, "attrs": [["adopted", [c]]]}
                        ce = {"cols": {"score": "77"}, "attrs": [["adopted_by", [p]]]}
                    if args["as_feature"]:
                        db.add_relation(db[p], db[c], args["level"], **kw)
                    else:
                        db.add_relation(p, c, args["level"], **kw)
                    model.add_relation(p, c, args["level"], parent_edit=pe, child_edit=ce)
                elif args["op"] == "reopen":
                    db.conn.close()
                    db = gffutils.FeatureDB(opened)
                    ctx.mon("reopen steps")
                elif args["op"] == "store_merged":
                    # merge() hands out generated keys from the live counters; storing its outputs makes them persistent
                    srcs = list(db.features_of_type("exon", order_by=("seqid", "strand", "start")))
                    merged = [m for m in db.merge(srcs) if getattr(m, "children", None)]
                    recs = []
                    for m in merged:
                        recs.append({"cols": {"seqid": m.seqid, "source": m.source, "featuretype": m.featuretype, "start": m.start,
                                              "end": m.end, "score": m.score, "strand": m.strand, "frame": m.frame},
                                     "attrs": [[k, list(m.attributes[k])] for k in m.attributes.keys()]})
                        base, _, n = m.id.rpartition("_")
                        if n.isdigit():
                            # the statement: such a key continues the numbering and is never handed out again
                            if m.id in model.ever:
                                ctx.violation(case, {"why": "merge() handed out the key %r that was handed out earlier" % m.id, "trace": trace})
                                return
                            model.counters[base] = max(model.counters.get(base, 0), int(n))
                    if merged:
                        db.update(merged, merge_strategy="error", make_backup=True)
                        model.update(recs, "error")
                        check_bak(ctx, case, opened, before, step, trace, aliased=aliased)
                        ctx.mon("merge() outputs stored through update")
            except Exception as ex:
                ctx.violation(case, {"why": "step %d (%s) raised %r" % (step, args["op"], ex), "trace": trace, "base": text})
                return
            after = dbdump.dump(dbfn)
            ctx.mon("content dumps compared with the model")
            st = (tuple(sorted(f["id"] for f in after["features"])), tuple(map(tuple, after["relations"])))
            if st not in _STATES:
                _STATES.add(st)
                ctx.mon("distinct database states (feature ids x relation rows) reached")
            d = model.compare(after)
            if d:
                ctx.violation(case, dict(d, step=step, trace=trace, base=text))
                return
            if args["op"] in ("reopen",) or (args["op"] == "update" and not args["batch"]):
                dd = dbdump.diff(before, after)
                if dd:
                    ctx.violation(case, {"why": "%s changed the database content" % ("reopen" if args["op"] == "reopen" else "update with no features"),
                                         "diff": dd, "step": step, "trace": trace})
                    return
            # a full iteration keeps the relative order of the features that were neither added nor replaced
            if args["op"] in ("delete", "add_relation", "reopen") or (args["op"] == "update" and not args["batch"]):
                alive = set(f["id"] for f in after["features"])
                want = [f["id"] for f in before["features"] if f["id"] in alive]
                got_order = [f.id for f in db.all_features()]
                ctx.mon("iteration order compared after a step")
                if got_order != want:
                    ctx.violation(case, {"why": "the iteration order of untouched features changed after %s" % args["op"],
                                         "before": want, "after": got_order, "step": step, "trace": trace})
                    return
            # freshness: an auto-generated key never equals a key handed out earlier
            new_ids = set(f["id"] for f in after["features"]) - set(f["id"] for f in before["features"])
            byid = {f["id"]: f for f in after["features"]}
            for k in new_ids:
                if is_auto(k, byid[k]):
                    ctx.mon("auto-generated keys checked for freshness")
                    if k in ever_before:
                        ctx.violation(case, {"why": "auto-generated key %r was handed out earlier in this history" % k,
                                             "step": step, "trace": trace})
                        return
            # the live FeatureDB object must agree with the file it just changed
            if not live_agrees(ctx, case, db, after, step, trace):
                return
            # ... and so must another FeatureDB object that has been open on that file all along
            if not live_agrees(ctx, case, other, after, step, trace, who="second handle"):
                return
            # Feature objects fetched before this step are still valid keys: db[f] is the feature now stored under f.id
            if not stale_handles(ctx, case, db, handles, after, step, trace):
                return
            handles.update({f.id: f for f in db.all_features()})
    finally:
        for h in (db, other):
            try:
                h.conn.close()
            except Exception:
                pass
        cleanup(dbfn)
        if aliased:
            remove_alias(made, opened)


def stale_handles(ctx, case, db, handles, dump, step, trace):
    import gffutils

    byid = {f["id"]: f for f in dump["features"]}
    for k, h in list(handles.items())[:40]:
        ctx.mon("look-ups with Feature objects fetched before the step")
        try:
            g = db[h]
        except gffutils.FeatureNotFoundError:
            if k in byid:
                ctx.violation(case, {"why": "db[<Feature fetched earlier>] raised FeatureNotFoundError although its id is stored", "id": k,
                                     "step": step, "trace": trace})
                return False
            handles.pop(k, None)
            continue
        except Exception as ex:
            ctx.violation(case, {"why": "db[<Feature fetched earlier>] raised %r" % (ex,), "id": k, "step": step, "trace": trace})
            return False
        if k not in byid:
            ctx.violation(case, {"why": "db[<Feature fetched earlier>] returned a feature although that id is no longer stored",
                                 "id": k, "returned": g.id, "step": step, "trace": trace})
            return False
        if g.id != k or (g.start, g.end, g.featuretype) != (byid[k]["start"], byid[k]["end"], byid[k]["featuretype"]):
            ctx.violation(case, {"why": "db[<Feature fetched earlier>] returned another feature than the one stored under its id",
                                 "id": k, "returned": [g.id, g.start, g.end], "stored": [byid[k]["start"], byid[k]["end"]],
                                 "step": step, "trace": trace})
            return False
    return True


def live_agrees(ctx, case, db, dump, step, trace, who="the handle that made the change"):
    """Look-ups, iteration and summaries through the open handle == the content read independently from the file."""
    byid = {f["id"]: f for f in dump["features"]}
    try:
        ctx.mon("live-handle comparisons" if who != "second handle" else "second-handle comparisons")
        for sid in sorted(set(g["seqid"] for g in byid.values())):
            hits = sorted(f.id for f in db.region(seqid=sid))
            want = sorted(k for k, g in byid.items() if g["seqid"] == sid)
            if hits != want:
                ctx.violation(case, {"why": "region(seqid=%r) through an open handle (%s) differs from the file" % (sid, who),
                                     "live": hits, "stored": want, "step": step, "trace": trace})
                return False
        for k in sorted(byid):
            g = byid[k]
            f = db[k]
            got = {"seqid": f.seqid, "source": f.source, "featuretype": f.featuretype, "start": f.start, "end": f.end,
                   "score": f.score, "strand": f.strand, "frame": f.frame}
            exp = {c: g[c] for c in got}
            attrs = [[a, list(f.attributes[a])] for a in f.attributes.keys()]
            if f.id != k or got != exp or attrs != g["attributes"]:
                ctx.violation(case, {"why": "db[%r] through the open handle differs from the stored feature" % k, "live": [got, attrs],
                                     "stored": [exp, g["attributes"]], "step": step, "trace": trace})
                return False
        ids = sorted(f.id for f in db.all_features())
        if ids != sorted(byid):
            ctx.violation(case, {"why": "all_features() through the open handle differs from the file", "live": ids, "stored": sorted(byid),
                                 "step": step, "trace": trace})
            return False
        types = sorted(set(g["featuretype"] for g in byid.values()))
        if sorted(db.featuretypes()) != types or sorted(db.seqids()) != sorted(set(g["seqid"] for g in byid.values())) or \
                db.count_features_of_type() != len(byid) or any(
                    db.count_features_of_type(t) != sum(1 for g in byid.values() if g["featuretype"] == t) for t in types):
            ctx.violation(case, {"why": "featuretypes()/seqids()/counts through the open handle differ from the file",
                                 "live_types": sorted(db.featuretypes()), "stored_types": types, "step": step, "trace": trace})
            return False
        rel = set(tuple(r) for r in dump["relations"])
        for k in sorted(byid)[:6]:
            kids = sorted(c.id for c in db.children(k, level=1))
            exp = sorted(c for (p, c, l) in rel if p == k and l == 1 and c in byid)
            if kids != exp:
                ctx.violation(case, {"why": "children(%r, level=1) through the open handle differs from the relations table" % k,
                                     "live": kids, "stored": exp, "step": step, "trace": trace})
                return False
    except Exception as ex:
        ctx.violation(case, {"why": "reading through the open handle raised %r after step %d" % (ex, step), "trace": trace})
        return False
    return True


def check_bak(ctx, case, dbfn, before, step, trace, aliased=False):
    bak = dbfn + ".bak"
    ctx.mon(".bak compared with pre-operation content")
    if aliased:
        ctx.mon(".bak of the path the database was opened under compared with pre-operation content")
    if not os.path.exists(bak):
        ctx.violation(case, {"why": "no .bak file after step %d" % step, "trace": trace})
        return False
    d = dbdump.diff(before, dbdump.dump(bak))
    if d:
        ctx.violation(case, {"why": ".bak differs from the pre-operation database", "diff": d, "step": step, "trace": trace})
        return False
    return True


class Injected(Exception):
    pass


def fault(ctx, case):
    """The feature source of an update raises after yielding k of n features."""
    from gffutils.feature import feature_from_line

    salt, n, k, ck = case["salt"], case["n"], case["k"], case["checklines"]
    db, dbfn, model, text = build_base(ctx, salt)
    try:
        batch = [rec("exon", 6000 + 10 * i, 6005 + 10 * i, [["ID", ["f%d" % i]], ["Parent", ["b"]]]) for i in range(n)]
        strategy = "create_unique"
        if case.get("autokeys"):
            # features without an ID (keys exon_1, exon_2, ... come from the counters) and, among them, arrivals under the
            # existing key 'b' with other coordinates (filed under a fresh 'b_n' by the merge strategy)
            batch = [rec("exon", 6000 + 10 * i, 6005 + 10 * i, [["Parent", ["b"]], ["Note", ["auto%d" % i]]]) if i % 3 else
                     rec("mRNA", 26000 + 10 * i, 26005 + 10 * i, [["ID", ["b"]], ["Note", ["other place %d" % i]]]) for i in range(n)]
            strategy = "merge"
        feats = [feature_from_line(line(r)) for r in batch]

        def source():
            for i, f in enumerate(feats):
                if i == k:
                    raise Injected("injected failure at position %d" % k)
                yield f
            if k >= n:
                return
        # a previous, successful operation leaves an older .bak behind: it must be overwritten
        db.delete("d", make_backup=True)
        model.delete(["d"])
        before = dbdump.dump(dbfn)
        raised = None
        try:
            db.update(source(), merge_strategy=strategy, make_backup=True, checklines=ck)
        except Injected as ex:
            raised = ex
        except Exception as ex:
            raised = ex
        ctx.mon("faults injected")
        if k < n and k > ck:
            ctx.mon("faults injected mid-import (beyond the peek window)")
        if k < n and raised is None:
            ctx.violation(case, {"why": "the source's failure at position %d of %d was swallowed" % (k, n)})
            return
        if k >= n and raised is not None:
            ctx.violation(case, {"why": "update raised %r although the source did not fail" % (raised,)})
            return
        ctx.mon(".bak compared with pre-operation content")
        bak = dbfn + ".bak"
        if not os.path.exists(bak):
            ctx.violation(case, {"why": "no .bak file after a failing update"})
            return
        d = dbdump.diff(before, dbdump.dump(bak))
        if d:
            ctx.violation(case, {"why": ".bak differs from the pre-operation database after a failure at position %d of %d" % (k, n),
                                 "diff": d, "checklines": ck})
            return
        del raised
        if case.get("autokeys"):
            # whatever the failed update left behind: the SAME handle goes on handing out keys nobody holds.  (The failed
            # importer's own connection keeps its write lock until that object is garbage-collected - an immediate retry
            # raises 'database is locked' on the unchanged tree; not part of the statement, so collect first.)
            import gc
            gc.collect()
            held = set(f["id"] for f in dbdump.dump(dbfn)["features"])
            more = [feature_from_line(line(rec("exon", 46000 + 10 * i, 46005 + 10 * i, [["Parent", ["b"]], ["Note", ["later%d" % i]]])))
                    for i in range(3)]
            try:
                db.update(more, make_backup=False)      # default strategy: any collision of a handed-out key raises
            except Exception as ex:
                ctx.violation(case, {"why": "an update of features without ID raised %r on the handle whose previous update had "
                                            "failed part-way (position %d of %d)" % (ex, k, n), "keys_held_after_the_failure": sorted(held)[:30]})
                return
            now = [f for f in dbdump.dump(dbfn)["features"]]
            fresh = [f["id"] for f in now if f["id"] not in held]
            ctx.mon("auto-keyed updates after a failed update on the same handle")
            if len(fresh) != 3 or len(set(f["id"] for f in now)) != len(now):
                ctx.violation(case, {"why": "after a failed update, three further features without ID did not each get a key of their own",
                                     "new_keys": fresh, "held_before": sorted(held)[:30]})
            return
        if k >= n:
            model.update(batch, "create_unique")
            d = model.compare(dbdump.dump(dbfn))
            if d:
                ctx.violation(case, dict(d, note="successful update in the fault harness"))
        else:
            try:
                main_same = dbdump.diff(before, dbdump.dump(dbfn)) is None
                ctx.mon("main file unchanged after failed update" if main_same else "main file changed after failed update (not judged)")
            except Exception:
                ctx.mon("main file unreadable after failed update (not judged)")
    finally:
        try:
            db.conn.close()
        except Exception:
            pass
        cleanup(dbfn)


def by_id(dump, loose_derived=True):
    out = {}
    for f in dump["features"]:
        f = dict(f)
        f.pop("bin", None)
        if isinstance(f["attributes"], list):
            # key order / value order of features that went through a merge is not part of the statement
            f["attributes"] = sorted([k, sorted(v)] for k, v in f["attributes"])
        out[f["id"]] = f
    return out


def metamorphic(ctx, case):
    """update adds features and their relations: importing batches one after the other must give the features and
    relations of a single import of their concatenation; deleting the last batch again must give back the rest.
    Works for GFF3 and for GTF (where it also covers the inferred genes/transcripts) without any model of inference."""
    import gffutils
    from gvmon.gen import genemodels as GM

    rng = random.Random(case["seed"])
    fmt = case["fmt"]
    render = (lambda g: GM.gff3(g, None).replace("##gff-version 3\n", "")) if fmt == "gff3" else (lambda g: GM.gtf(g, None))
    batches = []
    for b in range(case["nbatches"]):
        genes = GM.models(rng, ngenes=rng.randrange(1, 3), prefix="b%d" % b)
        batches.append(render(genes))
    one, inc = ctx.tmp(".one.db"), ctx.tmp(".inc.db")
    try:
        try:
            gffutils.create_db("".join(batches), one, from_string=True).conn.close()
            db = gffutils.create_db(batches[0], inc, from_string=True)
            snapshots = [dbdump.dump(inc)]
            for i, b in enumerate(batches[1:]):
                if (case["seed"] + i) % 2:
                    db.conn.close()
                    db = gffutils.FeatureDB(inc)
                    ctx.mon("reopen steps")
                how = (case["seed"] + i) % 4
                if fmt == "gff3" and how in (0, 1) and (case["seed"] // 4 + i) % 2 == 0:
                    # the update's text uses another legal punctuation than the file the database was made from
                    # ('; ' between attributes and a trailing semicolon): it is read in ITS spelling
                    restyled = []
                    for l in b.splitlines():
                        cols = l.split("\t")
                        if len(cols) == 9 and cols[8] and not l.startswith("#"):
                            cols[8] = "; ".join(x for x in cols[8].split(";") if x) + ";"
                        restyled.append("\t".join(cols))
                    b = "\n".join(restyled) + "\n"
                    ctx.mon("updates whose text is written in another spelling than the database's dialect")
                if how == 3:
                    # hand-built Feature objects (they carry the library's default dialect, not the file's)
                    import gffutils as _g
                    from gffutils.feature import feature_from_line
                    built = []
                    for l in b.splitlines():
                        if not l:
                            continue
                        f0 = feature_from_line(l)
                        built.append(_g.Feature(seqid=f0.seqid, source=f0.source, featuretype=f0.featuretype, start=f0.start, end=f0.end,
                                                score=f0.score, strand=f0.strand, frame=f0.frame,
                                                attributes={k: list(f0.attributes[k]) for k in f0.attributes.keys()}))
                    db.update(built, make_backup=False)
                    ctx.mon("updates with hand-built Feature objects")
                elif how == 0:
                    db.update(b, from_string=True, make_backup=False)
                elif how == 1:
                    p = ctx.tmp(".batch")
                    with open(p, "w") as fh:
                        fh.write(b)
                    try:
                        db.update(p, make_backup=False)
                    finally:
                        os.unlink(p)
                else:
                    from gffutils.feature import feature_from_line
                    db.update((feature_from_line(l) for l in b.splitlines() if l), make_backup=False)
                ctx.mon("history steps applied")
                snapshots.append(dbdump.dump(inc))
        except Exception as ex:
            ctx.violation(case, {"why": "metamorphic route raised %r" % (ex,), "fmt": fmt, "batches": batches})
            return
        a, b = dbdump.dump(one), snapshots[-1]
        # the database keeps the dialect it was created with, whatever the updates' inputs looked like
        reopened = gffutils.FeatureDB(inc)
        same_fmt = reopened.dialect.get("fmt") == snapshots[0]["meta"][0][0] and True
        d0 = dict((k, v) for k, v in snapshots[0]["meta"][0][0]) if isinstance(snapshots[0]["meta"][0][0], list) else {}
        dialect_now = dict(reopened.dialect)
        reopened.conn.close()
        if d0 and (dialect_now.get("fmt"), dialect_now.get("keyval separator")) != (d0.get("fmt"), d0.get("keyval separator")):
            ctx.violation(case, {"why": "the database's dialect changed through updates (observed after reopening)", "fmt": fmt,
                                 "created_with": [d0.get("fmt"), d0.get("keyval separator")],
                                 "now": [dialect_now.get("fmt"), dialect_now.get("keyval separator")]})
            return
        ctx.mon("metamorphic comparisons (batched updates vs single import)")
        fa, fb = by_id(a), by_id(b)
        if fa != fb:
            only = sorted(set(fa) ^ set(fb))
            diff = only[:6] or [[fa[k], fb[k]] for k in fa if fa[k] != fb[k]][:2]
            ctx.violation(case, {"why": "features after create+update(s) differ from a single import of the same lines", "fmt": fmt,
                                 "difference": diff, "batches": batches})
            return
        if a["relations"] != b["relations"]:
            ra, rb = set(map(tuple, a["relations"])), set(map(tuple, b["relations"]))
            ctx.violation(case, {"why": "relations after create+update(s) differ from a single import of the same lines", "fmt": fmt,
                                 "only_single_import": sorted(ra - rb)[:8], "only_updates": sorted(rb - ra)[:8], "batches": batches})
            return
        # delete the last batch again: back to the previous snapshot (features and relations)
        if len(snapshots) > 1:
            prev = snapshots[-2]
            gone = sorted(set(by_id(b)) - set(by_id(prev)))
            try:
                db.delete([g if i % 2 else db[g] for i, g in enumerate(gone)], make_backup=False)
            except Exception as ex:
                ctx.violation(case, {"why": "deleting the last batch raised %r" % (ex,), "fmt": fmt})
                return
            c = dbdump.dump(inc)
            ctx.mon("metamorphic comparisons (delete undoes the last update)")
            if by_id(c) != by_id(prev) or c["relations"] != prev["relations"]:
                rc, rp = set(map(tuple, c["relations"])), set(map(tuple, prev["relations"]))
                ctx.violation(case, {"why": "deleting every feature of the last update does not give back the previous features and relations",
                                     "fmt": fmt, "relations_left_over": sorted(rc - rp)[:8], "relations_missing": sorted(rp - rc)[:8],
                                     "features_differ": sorted(set(by_id(c)) ^ set(by_id(prev)))[:8], "batches": batches})
                return
        db.conn.close()
    finally:
        for p in (one, inc, inc + ".bak"):
            if os.path.exists(p):
                os.unlink(p)


FAILPOINTS = ["_populate_from_lines", "_id_handler", "_insert", "_do_merge", "_update_relations", "relations_generator",
              "_finalize", "_increment_featuretype_autoid", "set_pragmas"]
_fp = {"target": None, "nth": 0, "count": 0, "fired": False, "installed": False}


def _install_failpoints():
    """Source-free failpoints: a sys.monitoring PY_START callback raises when the n-th call of the chosen gffutils
    function starts (functions of create.py / interface.py / iterators.py only)."""
    import sys
    if _fp["installed"]:
        return
    mon = sys.monitoring
    mon.use_tool_id(5, "gvmon-c10-failpoints")

    def on_start(code, offset):
        if _fp["target"] is None or code.co_name != _fp["target"] or "gffutils" not in code.co_filename:
            return mon.DISABLE if _fp["target"] is None or code.co_name != _fp["target"] else None
        _fp["count"] += 1
        if _fp["count"] == _fp["nth"] and not _fp["fired"]:
            _fp["fired"] = True
            raise Injected("failpoint: %s call #%d" % (code.co_name, _fp["nth"]))
        return None

    mon.register_callback(5, mon.events.PY_START, on_start)
    _fp["installed"] = True


def _arm(target, nth):
    import sys
    _install_failpoints()
    _fp.update(target=target, nth=nth, count=0, fired=False)
    sys.monitoring.set_events(5, sys.monitoring.events.PY_START)
    sys.monitoring.restart_events()


def _disarm():
    import sys
    _fp["target"] = None
    sys.monitoring.set_events(5, 0)


def failpoint(ctx, case):
    """An update (or a delete fed by a failing source) is interrupted inside gffutils itself; .bak must hold the
    complete pre-operation database."""
    from gffutils.feature import feature_from_line

    salt = case["salt"]
    db, dbfn, model, text = build_base(ctx, salt)
    try:
        # an earlier operation leaves an older .bak behind
        db.delete("d", make_backup=True)
        before = dbdump.dump(dbfn)
        raised = None
        if case["op"] == "update":
            batch = [rec("exon", 6000 + 10 * i, 6005 + 10 * i, [["ID", ["f%d" % i]], ["Parent", ["b"]]]) for i in range(3)]
            batch.append(rec("gene", 100, 900, [["ID", ["a"]], ["Name", ["A1", "A2"]], ["Note", ["again"]]]))   # collides: merge path
            batch.append(rec("exon", 7000, 7005, [["Parent", ["b"]]]))                                          # auto-generated key
            feats = [feature_from_line(line(r)) for r in batch]
            _arm(case["target"], case["nth"])
            try:
                db.update(feats, merge_strategy="merge", make_backup=True)
            except Injected as ex:
                raised = ex
            except Exception as ex:
                raised = ex
            finally:
                _disarm()
        else:
            ids = sorted(model.feats)[:4]

            def src():
                for i, k in enumerate(ids):
                    if i == case["nth"]:
                        raise Injected("delete source fails at %d" % i)
                    yield k
            try:
                db.delete(src(), make_backup=True)
            except Injected as ex:
                raised = ex
        fired = _fp["fired"] if case["op"] == "update" else raised is not None
        if not fired:
            ctx.mon("failpoints never reached (not evidence)")
            return
        ctx.mon("failpoints fired inside gffutils")
        ctx.mon("failpoint fired: %s" % (case["target"] if case["op"] == "update" else "delete source"))
        if raised is None:
            ctx.violation(case, {"why": "an exception raised inside gffutils during %s was swallowed" % case["op"]})
            return
        ctx.mon(".bak compared with pre-operation content")
        bak = dbfn + ".bak"
        if not os.path.exists(bak):
            ctx.violation(case, {"why": "no .bak file after an interrupted %s" % case["op"]})
            return
        d = dbdump.diff(before, dbdump.dump(bak))
        if d:
            ctx.violation(case, {"why": ".bak differs from the pre-operation database after a failure inside gffutils",
                                 "diff": d, "failpoint": [case.get("target"), case["nth"]], "op": case["op"]})
            return
        del raised
    finally:
        _disarm()
        try:
            db.conn.close()
        except Exception:
            pass
        cleanup(dbfn)


def bulk(ctx, case):
    """One delete() call with hundreds of ids (and one update adding hundreds of children under one parent)."""
    import gffutils

    n, k = case["n"], case["k"]
    recs = [rec("gene", 1, 10 ** 6, [["ID", ["g"]]]), rec("mRNA", 1, 10 ** 6, [["ID", ["m"]], ["Parent", ["g"]]])]
    recs += [rec("exon", 10 * i + 1, 10 * i + 5, [["ID", ["e%04d" % i]], ["Parent", ["m"]]]) for i in range(n)]
    dbfn = ctx.tmp(".db")
    try:
        db = gffutils.create_db("\n".join(line(r) for r in recs[:2 + n // 2]) + "\n", dbfn, from_string=True)
        model = Model()
        model.update(recs[:2 + n // 2], "error")
        db.update("\n".join(line(r) for r in recs[2 + n // 2:]) + "\n", from_string=True, make_backup=False)
        model.update(recs[2 + n // 2:], "error")
        d = model.compare(dbdump.dump(dbfn))
        if d:
            ctx.violation(case, dict(d, note="bulk update"))
            return
        rng = random.Random(case["seed"])
        victims = rng.sample(["e%04d" % i for i in range(n)], k)
        form = case["form"]
        if form == "ids":
            db.delete(list(victims), make_backup=False)
        elif form == "features":
            db.delete([db[v] for v in victims], make_backup=False)
        else:
            db.delete((db[v] for v in victims), make_backup=False)
        model.delete(victims)
        ctx.mon("bulk deletes (hundreds of ids in one call)")
        d = model.compare(dbdump.dump(dbfn))
        if d:
            ctx.violation(case, dict(d, note="after one delete() call with %d ids (%s)" % (k, form)))
            return
        db.conn.close()
    except Exception as ex:
        ctx.violation(case, {"why": "bulk update/delete raised %r" % (ex,)})
    finally:
        cleanup(dbfn)


def merge_after_delete(ctx, case):
    """A feature whose parent was deleted is merged (same columns) with an arrival that names ANOTHER parent: the stored
    attributes are the union, the relations added are those the ARRIVAL names - the deleted parent's link does not come
    back.  Then the feature is deleted and the caller's same Feature object is handed in again: what is stored is what
    that object says now."""
    import gffutils
    from gffutils.feature import feature_from_line

    db, dbfn, model, text = build_base(ctx, case["salt"])
    trace = []
    try:
        steps = []
        db.delete("a", make_backup=False)
        model.delete(["a"])
        trace.append("delete a (the parent of b)")
        stored = model.feats["b"]
        arrival = {"cols": dict(stored["cols"]), "attrs": [["ID", ["b"]], ["Parent", ["g2"]], ["Note", ["moved"]]]}
        f_obj = feature_from_line(line(arrival))
        how = case["how"]
        if how == "object":
            db.update([f_obj], merge_strategy="merge", make_backup=False)
        else:
            db.update(line(arrival) + "\n", from_string=True, merge_strategy="merge", make_backup=False)
        model.update([arrival], "merge")
        trace.append("merge-update b with Parent=g2 (%s)" % how)
        ctx.mon("merges into a feature whose parent was deleted earlier")
        d = model.compare(dbdump.dump(dbfn))
        if d:
            ctx.violation(case, dict(d, trace=trace))
            return
        if how == "object":
            db.delete("b", make_backup=False)
            model.delete(["b"])
            db.update([f_obj], merge_strategy="merge", make_backup=False)
            model.update([arrival], "merge")
            trace.append("delete b, hand in the same Feature object again")
            ctx.mon("the caller's Feature object handed in again after the merged feature was deleted")
            d = model.compare(dbdump.dump(dbfn))
            if d:
                ctx.violation(case, dict(d, trace=trace))
                return
        db.conn.close()
    except Exception as ex:
        ctx.violation(case, {"why": "history raised %r" % (ex,), "trace": trace})
    finally:
        cleanup(dbfn)


def spawn_history(ctx, case):
    """A multi-line feature (same ID, different coordinates) under merge_strategy='merge': the later segments are filed
    under '<ID>_n'.  Deleting one of the features and continuing to merge must follow the model: a segment that comes
    again is merged into the feature holding that segment, whichever of the group was deleted or re-added meanwhile."""
    import gffutils

    salt = case["salt"]
    rng = random.Random(salt)
    db, dbfn, model, text = build_base(ctx, salt)
    trace = []
    try:
        nseg = rng.randrange(2, 4)
        segs = [rec("CDS", 30000 + 500 * i + salt, 30100 + 500 * i + salt, [["ID", ["cds1"]], ["Parent", ["b"]], ["Note", ["seg%d" % i]]])
                for i in range(nseg + 1)]
        steps = [("update", segs, "the segments arrive")]
        victim = ["cds1", "cds1_1", "cds1_%d" % nseg][case["delete_which"] % 3]
        steps.append(("delete", [victim], "one of the group is deleted"))
        if case["readd"]:
            steps.append(("update", [rec("CDS", 40000, 40100, [["ID", ["cds1"]], ["Note", ["again"]]])], "the ID arrives again elsewhere"))
        again = segs[1 + case["again_which"] % nseg]
        steps.append(("update", [dict(again, attrs=[[k, list(v)] for k, v in again["attrs"]] + [["Alias", ["second-time"]]])],
                      "a segment arrives a second time"))
        for what, arg, why in steps:
            trace.append([what, [line(r) for r in arg] if what == "update" else arg, why])
            if what == "update":
                try:
                    model.update(arg, "merge")
                except NotImplementedError:
                    ctx.skip("spawn history: two candidates agree (not judged)")
                    return
                db.update("\n".join(line(r) for r in arg) + "\n", from_string=True, merge_strategy="merge", make_backup=False)
            else:
                if arg[0] not in model.feats:
                    continue
                db.delete(arg[0], make_backup=False)
                model.delete(arg)
            if case["reopen"]:
                db.conn.close()
                db = gffutils.FeatureDB(dbfn)
            ctx.mon("spawn-history steps compared")
            d = model.compare(dbdump.dump(dbfn))
            if d:
                ctx.violation(case, dict(d, trace=trace, note="multi-line feature under merge across a delete"))
                return
    except Exception as ex:
        ctx.violation(case, {"why": "spawn history raised %r" % (ex,), "trace": trace})
    finally:
        try:
            db.conn.close()
        except Exception:
            pass
        cleanup(dbfn)


def nontrivial(word):
    seen = False
    for op in word:
        if op in "DO":
            seen = True
        elif op in "ABC" and seen:
            return True
    return False


def run(ctx):
    rng = ctx.rng
    depth = 3 if ctx.tier == "quick" else 5
    i = 0
    for L in range(1, depth + 1):
        for word in itertools.product(ALPHABET, repeat=L):
            i += 1
            if not ctx.mine(i):
                continue
            word = "".join(word)
            case = {"kind": "history", "salt": (ctx.seed * 7 + i) % 50, "word": word}
            execute(ctx, case)
            ctx.case(("history", case["salt"], word), nontrivial(word), sample=case if nontrivial(word) and L == depth else None,
                     cls="exhaustive history len %d" % L)
    for _ in range(ctx.budget(400, 16000)):
        L = rng.randrange(4, 13)
        word = "".join(rng.choice(ALPHABET + "ABCD") for _ in range(L))
        case = {"kind": "history", "salt": rng.randrange(1000), "word": word}
        execute(ctx, case)
        ctx.case(("history", case["salt"], word), nontrivial(word), cls="random history")
    # the same histories on a database the caller opens under another spelling of its path (a symbolic link beside the
    # file or in another directory, a relative path, redundant path components): '<the path given>.bak' is the backup
    for _ in range(ctx.budget(120, 3000)):
        L = rng.randrange(2, 7)
        word = "".join(rng.choice("ABCDDOM") for _ in range(L))
        case = {"kind": "history", "salt": rng.randrange(1000), "word": word, "via": VIAS[rng.randrange(len(VIAS))]}
        execute(ctx, case)
        ctx.case(("history", case["salt"], word, case["via"]), nontrivial(word), sample=case if rng.random() < 0.05 else None,
                 cls="history on a database opened through %s" % ("a symbolic link" if "link" in case["via"] else "a non-canonical path"))
    j = 0
    for n in range(1, 6):
        for k in range(0, n + 1):
            for ck in (0, 1):
                j += 1
                if not ctx.mine(j):
                    continue
                case = {"kind": "fault", "salt": (ctx.seed + j) % 50, "n": n, "k": k, "checklines": ck}
                execute(ctx, case)
                ctx.case(("fault", n, k, ck), k < n, sample=case, cls="fault position")
    # failures beyond the importer's read-ahead, among features keyed by the counters, then more such features on the same handle
    for n, k, ck in ((16, 13, 10), (16, 15, 10), (20, 14, 1), (30, 27, 10), (8, 5, 0), (16, 16, 10)):
        j += 1
        if not ctx.mine(j):
            continue
        case = {"kind": "fault", "salt": (ctx.seed + j) % 50, "n": n, "k": k, "checklines": ck, "autokeys": True}
        execute(ctx, case)
        ctx.case(("fault-autokeys", n, k, ck), k < n, sample=case, cls="fault position (auto-keyed features)")
    run_failpoints(ctx)
    j = 0
    for dw in range(3):
        for readd in (False, True):
            for aw in range(2):
                for reopen in (False, True):
                    j += 1
                    if not ctx.mine(j):
                        continue
                    case = {"kind": "spawn_history", "salt": (ctx.seed * 3 + j) % 50, "delete_which": dw, "readd": readd, "again_which": aw, "reopen": reopen}
                    execute(ctx, case)
                    ctx.case(("spawn_history", dw, readd, aw, reopen, case["salt"]), True, sample=case, cls="multi-line feature under merge across a delete")
    for j, (salt, how) in enumerate([(s_, h) for s_ in range(0, 10 if ctx.tier == "quick" else 50) for h in ("object", "text")]):
        if not ctx.mine(j):
            continue
        case = {"kind": "merge_after_delete", "salt": salt, "how": how}
        execute(ctx, case)
        ctx.case(("merge_after_delete", salt, how), True, sample=case, cls="merge after the parent was deleted")
    for j, form in enumerate(["ids", "features", "generator"]):
        if ctx.mine(j) or ctx.tier == "thorough":
            case = {"kind": "bulk", "n": rng.choice([1100, 1300]), "k": rng.choice([501, 640, 1001]), "seed": rng.randrange(10 ** 6), "form": form}
            execute(ctx, case)
            ctx.case(("bulk", case["n"], case["k"], form, case["seed"]), True, sample=case, cls="bulk delete")
    for _ in range(ctx.budget(160, 6000)):
        case = {"kind": "metamorphic", "fmt": rng.choice(["gff3", "gtf"]), "seed": rng.randrange(10 ** 6), "nbatches": rng.randrange(2, 5)}
        execute(ctx, case)
        ctx.case(("metamorphic", case["fmt"], case["seed"], case["nbatches"]), True, sample=case if rng.random() < 0.02 else None,
                 cls="metamorphic %s" % case["fmt"])


def run_failpoints(ctx):
    j = 0
    for target in FAILPOINTS:
        for nth in (1, 2, 3, 5):
            j += 1
            if not ctx.mine(j):
                continue
            case = {"kind": "failpoint", "op": "update", "target": target, "nth": nth, "salt": (ctx.seed + j) % 50}
            execute(ctx, case)
            ctx.case(("failpoint", target, nth), True, sample=case, cls="failpoint inside gffutils")
    for nth in range(0, 4):
        j += 1
        if ctx.mine(j):
            case = {"kind": "failpoint", "op": "delete", "nth": nth, "salt": (ctx.seed + j) % 50}
            execute(ctx, case)
            ctx.case(("failpoint-delete", nth), True, sample=case, cls="delete with a failing source")


MANIFEST = {
    "technique": "history replay against an executable reference model with an independent sqlite content dump after every step; key-freshness monitor; enumerated source-failure positions with .bak comparison",
    "text": "Every word over a 7-operation alphabet up to a depth bound (and random longer words) is applied step by step to a "
            "real file database and to a reference model; after each step the content read with plain sqlite3 must equal the "
            "model (features, attributes, relations), reopen and empty updates must leave the dump identical, auto-generated "
            "keys must be fresh with respect to every key seen in the history, and the .bak file must equal the pre-operation "
            "dump. The update source is made to fail at every position 0..n (inside and beyond the peek window) and the .bak "
            "file compared again. Further case kinds: model-free metamorphic cases for GFF3 and GTF (create + batched updates == one import; deleting the last batch undoes it), scripted multi-line-feature histories under 'merge' across deletes, one delete() call with hundreds of ids, add_relation with the documented hook functions, source-free failpoints raised inside nine internal functions during an update (sys.monitoring), and a comparison of the live handle (look-ups, iteration order, counts, featuretypes) with the file after every step.",
    "note": "Trusted: gvmon/models/history.py. GTF databases are covered by the metamorphic cases only (batched updates of new "
            "genes == single import; deleting a batch undoes it); updates that change existing GTF genes re-infer extents, "
            "which no property fixes, and are not generated. Crash points other than a failing source (e.g. power loss during the "
            "SQLite commit) are out of reach of this harness.",
}
