"""
C02  GFF3 hierarchy: children/parents are exactly the Parent graph, two levels deep.

History + model: a generated annotation graph (DAG, depth <= 4, 0-3 Parent values per line, shared children,
shortcuts, dangling Parent values) is written in several line orders; each order is imported by the real create_db.
For every stored feature and level in {1, 2, None} the ids returned by the real children()/parents() are compared as
multisets with the reference model (gvmon/models/hierarchy.py: L1 = Parent edges, L2 = L1 o L1), the relations table is
read with plain sqlite3 and compared with the model, query arguments are composed with a brute-force filter, and the
relation sets of all orders of one graph must coincide.  After that several generators of the same FeatureDB are
kept alive at once (nested loops, zip, random schedules): each must yield what it yields alone.  A separate "wide"
class has one feature with more than 1000 direct children, the last of which have children themselves.
Further classes: lines WITHOUT an ID attribute (stored under '<featuretype>_<n>'), several of them byte-identical under one
parent; files that mix both spellings of several parents (repeated keys / comma list) with either one in the majority;
ids and Parent values that differ only in letter case, look numeric or consist of SQL wildcard characters.
"""
import os
import random
import tempfile
from collections import Counter

from gvmon import dbdump
from gvmon.gen import graphs as G
from gvmon.models import hierarchy as H
from gvmon.monitors import contracts, sqltrace

RULE = ("GFF3 annotation graphs: DAGs of 1-4 layers and <= 12 lines, every line names 0-3 Parent values drawn from any "
        "earlier layer (shared children, multi-parent lines, 'diamond + shortcut' a->b->c plus a->c) or naming no line at "
        "all (dangling), Parent written as a comma list or as repeated keys, ID before or after Parent; each graph is "
        "imported under several line orders (parents first, children first, random; every permutation for <= 5 lines "
        "[quick: a sample of the graphs; thorough: all of them, plus a sample of the 6-line graphs]). Word-like ids ([A-Za-z0-9_.:-]) form the main class; "
        "a separate 'hostile id' class renames 1-3 ids to ones with blanks inside / at the ends, non-ASCII characters, "
        "U+0085/U+00A0 or percent-escaped TAB/LF. non-trivial = >= 1 multi-parent line or >= 1 level-2 pair or a dangling "
        "Parent value; distinct = canonical edge list + line order.  'wide' class: one gene with 1005-1100 direct children "
        "(a few also name a second gene), 6-9 of them - most numbered >= 1000 - with 1-3 children of their own (some of which "
        "also name the gene: shortcut, or a second transcript), one feature below an exon; written forward and reversed or "
        "shuffled; every feature is queried.  'interleaved generators' (every import): a nested loop children(x,1) -> "
        "children(t,1)/parents(t) and two schedules (zip-like round robin or random) over 2-4 live children()/parents() "
        "generators of the one FeatureDB; each generator is compared with the same call consumed alone with list() and with "
        "the model.  'lines without ID attribute': 1-n lines that nobody names as Parent lose their ID attribute (they are "
        "stored under '<featuretype>_<n>', n counting the id-less lines of that featuretype in file order, so the model is "
        "built per line order), 70% of them are written 2-4 times BYTE-IDENTICALLY (same parents: level-1 and level-2 "
        "relatives of the same features), others once more with other coordinates; every order <= 5 lines for a sample.  "
        "'mixed spelling': every line writes Parent (and mostly two Dbxref values) as repeated keys while 1-2 lines with >= 2 "
        "parents use one comma list (3 of 4 graphs; the inferred dialect, read from FeatureDB.dialect, is counted), or "
        "the reverse mixture.  'look-alike ids': 2-5 ids / dangling Parent values of related lines are renamed within one "
        "family: letter-case variants of one word, numeric-looking ('1', '01', '1.0', '1e0', ...), SQL wildcard strings ('%', "
        "'_', 'a_', 'ab', 'a%', ...; '%' is written %25)")
REQUIRED = ["imports", "children()/parents() calls compared with the model", "relation rows compared",
            "level-2 rows compared", "argument-composition queries compared", "iter_by_parent_childs groups compared",
            "line-order pairs with identical relation sets", "dangling Parent values (no error, no phantom)",
            "shortcut relatives (level 1 and level 2 of one feature) returned once for level=None",
            "wide: features with > 1000 direct children compared at levels 1/2/None",
            "wide: level-2 relatives reached through a child numbered >= 1000 (file order) compared",
            "wide: level-2 relatives reached through a child ranked >= 1000 by id compared",
            "wide: nested loops over > 1000 children, one or two inner generators each",
            "interleaved: generators consumed while another generator of the same FeatureDB was alive",
            "interleaved: nested loops with >= 2 outer items and a non-empty inner result",
            "interleaved: schedules over >= 2 non-empty generators (one with >= 2 items)",
            "id-less: lines without ID attribute imported",
            "id-less: byte-identical lines imported (beyond the first of each text)",
            "id-less: children() results holding >= 2 byte-identical features, each returned once, level=1",
            "id-less: children() results holding >= 2 byte-identical features, each returned once, level=2",
            "id-less: children() results holding >= 2 byte-identical features, each returned once, level=None",
            "id-less: parents() of one of several byte-identical features compared (non-empty)",
            "mixed spelling: imports whose inferred dialect says 'repeated keys' with a comma-list Parent of >= 2 values",
            "mixed spelling: imports whose inferred dialect says no repeated keys with a Parent written as repeated keys",
            "mixed spelling: lines with a comma-list Parent and another attribute as repeated keys",
            "look-alike ids: ids / Parent values renamed within one family"]
REQUIRED_CLASSES = ["ids=word", "ids=hostile", "Parent=comma list", "Parent=repeated keys", "order=children first",
                    "graph: multi-parent", "graph: level-2 pairs", "graph: dangling Parent", "graph: shortcut (level 1 and 2)",
                    "graph: two level-2 paths to one feature", "graph: wide (> 1000 direct children)",
                    "lines without ID attribute", "lines without ID attribute: byte-identical lines",
                    "lines without ID attribute: byte-identical lines with >= 2 parents",
                    "mixed spelling: majority repeat", "mixed spelling: majority comma", "ids=confusable",
                    "confusable ids: letter case", "confusable ids: numeric-looking", "confusable ids: SQL wildcard"]
ASSUMPTIONS = [
    "the reference model gvmon/models/hierarchy.py is a faithful reading of the statement: relatives are stored features "
    "only; level 2 = composition of two Parent edges; level None = union",
    "relations table: every written (Parent value, id) pair at level 1 and every level-2 pair of a stored feature must be "
    "present and nothing else, except level-2 rows whose parent is a dangling value (unobservable through "
    "children()/parents() of a stored feature; the statement is silent): accepted either way",
    "order_by: ties may come in any order; several columns together with reverse=True: order not judged (statement "
    "silent); order_by is given as a column name or a list of column names out of seqid/start/end/featuretype/strand/length "
    "(length only in list form: the string form is C11's finding F-C11-1)",
    "limit=(seqid,start,end) keeps features on that seqid overlapping [start,end] (completely_within=True: contained), "
    "coordinates far below 2^29 (larger ones are C06's)",
    "iter_by_parent_childs(featuretype) is judged as [parent] + all children(parent) for every stored feature of that "
    "type, groups in any order (its level/order_by arguments are not exercised)",
    "a line without ID attribute is a stored feature of its own under the id '<featuretype>_<n>', n = 1, 2, ... counting the "
    "id-less lines of that featuretype in file order (byte-identical lines included: identical text does not make them one "
    "feature); such lines are never named as Parent and no written ID / Parent value has that shape (other id_spec settings "
    "and update() are C04's); for these graphs the relation sets of two line orders are compared after replacing each "
    "generated id by the text of its line",
    "Parent=a,b and Parent=a;Parent=b name the same two parents whatever spelling the rest of the file uses",
    "ids are compared as exact strings (letter case, leading zeros, '%' and '_' are ordinary characters)",
    "Parent lists do not repeat a value; graphs are acyclic",
    "interleaved generators: the database is not modified while they are alive; each generator is compared as a multiset "
    "with the same call consumed alone (the statement fixes no order without order_by) and with the model",
]
QUICK_SHARDS = 4
THOROUGH_SHARDS = 16
LEVELS = (1, 2, None)
ORDER_BYS = ["start", "end", "seqid", "featuretype", "strand", ["start"], ["seqid", "start"], ["featuretype", "end"],
             ["length"], ["strand", "length", "start"]]


def setup(ctx):
    contracts.install_all()
    sqltrace.install()


def tag(case):
    return "hostile-id class: " if case.get("ids") == "hostile" else ""


_WIDE = {}


def graph_of(case):
    if case["kind"] == "wide":
        key = repr(sorted(case["wide"].items()))
        if key not in _WIDE:
            _WIDE.clear()
            _WIDE[key] = G.wide_graph(case["wide"])
        return _WIDE[key]
    return case["graph"]


def orders_of(case):
    n = len(graph_of(case)["nodes"])
    if case["orders"] == "all":
        return G.all_orders(n)
    if case["kind"] == "wide":
        return [G.order_of_spec(n, spec) for spec in case["orders"]]
    return case["orders"]


def shown(case, oi, order, text):
    """(order, text) as written into a violation: the small spec and the head of the text for wide graphs."""
    if case["kind"] == "wide":
        return case["orders"][oi], text[:600] + "... [%d lines: G.text_of(G.wide_graph(case['wide']), order)]" % len(order)
    return order, text


def model_of(nodes):
    visible, lower, upper = H.gff3_triples(nodes)
    return H.Relatives(visible, [n["id"] for n in nodes]), lower, upper


def execute(ctx, case):
    g = graph_of(case)
    idless = any(n.get("noid") for n in g["nodes"])
    model = None if idless else model_of(g["nodes"])
    first = None
    for oi, order in enumerate(orders_of(case)):
        # lines without an ID attribute: the stored ids, hence the model, depend on the line order
        nodes = H.resolve_ids(g["nodes"], order)
        rel, lower, upper = model or model_of(nodes)
        table = one_import(ctx, case, oi, order, nodes, rel, lower, upper)
        order = shown(case, oi, order, "")[0]
        for v in contracts.drain():
            ctx.violation(case, dict(v, why=tag(case) + "contract: " + str(v.get("why"))))
        if table is None:
            return
        if first is None:
            first = (order, table)
        elif table != first[1]:
            ctx.violation(case, {"why": tag(case) + "the relation set depends on the order of the lines",
                                 "order_a": first[0], "order_b": order,
                                 "only_a": sorted(set(first[1]) - set(table))[:10], "only_b": sorted(set(table) - set(first[1]))[:10],
                                 "text_a": None if case["kind"] == "wide" else G.text_of(g, first[0]),
                                 "text_b": None if case["kind"] == "wide" else G.text_of(g, order)})
            return
        else:
            ctx.mon("line-order pairs with identical relation sets")


def one_import(ctx, case, oi, order, nodes, rel, lower, upper):
    """Import one line order (nodes: the graph's nodes with the ids of this order); returns the relation rows read from
    the table (sorted; the ids of id-less lines replaced by the text of their line), or None after a violation."""
    import gffutils

    g = graph_of(case)
    byid = {n["id"]: n for n in nodes}
    text = G.text_of(g, order)
    # id-less lines: stored id -> text of the line; `twin`: those whose text occurs more than once in the file
    anon = {n["id"]: G.line_of(n, g.get("edge", "raw")) for n in nodes if n.get("noid")}
    ntext = Counter(anon.values())
    twin = {i: t for i, t in anon.items() if ntext[t] > 1}
    minority = mixed_minority(nodes)
    full_order = order
    T = tag(case)
    src = None
    dbfn = ":memory:" if case.get("db", "memory") == "memory" else ctx.tmp(".db")
    if case.get("input", "path") == "path":
        src = ctx.tmp(".gff3")
        with open(src, "w", encoding="utf-8", newline="") as fh:
            fh.write(text)
        data, from_string = src, False
    else:
        data, from_string = text, True
    order, text = shown(case, oi, order, text)   # from here on: what is written into violation details
    sqltrace.reset()
    db = None
    try:
        try:
            db = gffutils.create_db(data, dbfn, from_string=from_string)
        except Exception as ex:
            ctx.violation(case, {"why": T + "create_db raised %s" % type(ex).__name__, "error": repr(ex), "order": order, "text": text})
            return None
        ctx.mon("imports")
        if anon:
            ctx.mon("id-less: imports with lines that have no ID attribute")
            ctx.mon("id-less: lines without ID attribute imported", len(anon))
            ctx.mon("id-less: byte-identical lines imported (beyond the first of each text)", len(twin) - len(set(twin.values())))
        if minority:
            rk = bool(db.dialect.get("repeated keys"))
            if rk and minority["comma"]:
                ctx.mon("mixed spelling: imports whose inferred dialect says 'repeated keys' with a comma-list Parent of >= 2 values")
                ctx.mon("mixed spelling: comma-list Parent values (>= 2) under an inferred 'repeated keys' dialect", minority["comma"])
            if not rk and minority["repeat"]:
                ctx.mon("mixed spelling: imports whose inferred dialect says no repeated keys with a Parent written as repeated keys")
            if minority["both"]:
                ctx.mon("mixed spelling: lines with a comma-list Parent and another attribute as repeated keys", minority["both"])
        # -- the stored features: one per line, no phantom ---------------------------------------------
        dump = dbdump.dump_db(db)
        got_ids = sorted(f["id"] for f in dump["features"])
        if got_ids != sorted(byid):
            ctx.violation(case, {"why": T + "stored features differ from the lines (phantom or missing feature%s)"
                                        % ("; a line without ID is expected under '<featuretype>_<n>', n counting such lines "
                                           "of that featuretype in file order" if anon else ""),
                                 "unexpected": sorted(set(got_ids) - set(byid)), "missing": sorted(set(byid) - set(got_ids)),
                                 "order": order, "text": text})
            return None
        # -- the relations table ------------------------------------------------------------------------
        rows = [tuple(r) for r in dump["relations"]]
        table = set(rows)
        ctx.mon("relation rows compared", len(rows))
        ctx.mon("level-2 rows compared", sum(1 for r in rows if r[2] == 2))
        if len(rows) != len(table) or not (lower <= table <= upper):
            ctx.violation(case, {"why": T + "relations table differs from L1 u L2 of the Parent graph",
                                 "missing": sorted(lower - table)[:12], "unexpected": sorted(table - upper)[:12],
                                 "order": order, "text": text})
            return None
        dangling = {p for p, c, lv in lower if p not in byid}
        ctx.mon("dangling Parent values (no error, no phantom)", len(dangling))
        # -- children()/parents() for every stored feature and level ----------------------------------------
        q = random.Random(case["qseed"] * 1009 + oi)
        late2 = {}   # feature with > 1000 direct children -> level-2 relatives through its children number >= 1000
        for x in byid:
            if len(rel.children(x, 1)) > 1000:
                kids = [nodes[i]["id"] for i in full_order if x in nodes[i]["parents"]]
                late2[x] = (set().union(*[rel.children(t, 1) for t in kids[1000:]]),
                            set().union(*[rel.children(t, 1) for t in sorted(kids)[1000:]]))
        for x in byid:
            arg = x
            if q.random() < 0.25:
                try:
                    arg = db[x]
                except Exception as ex:
                    ctx.violation(case, {"why": T + "db[id] raised %s for a stored feature" % type(ex).__name__, "id": x,
                                         "error": repr(ex), "order": order, "text": text})
                    return None
            for level in LEVELS:
                for name, fn, model in (("children", db.children, rel.children), ("parents", db.parents, rel.parents)):
                    try:
                        got = list(fn(arg, level=level))
                    except Exception as ex:
                        ctx.violation(case, {"why": T + "%s(level=%r) raised %s" % (name, level, type(ex).__name__), "id": x,
                                             "error": repr(ex), "order": order, "text": text})
                        return None
                    ctx.mon("children()/parents() calls compared with the model")
                    ids = sorted(f.id for f in got)
                    exp = sorted(model(x, level))
                    if ids != exp or x in ids:
                        why = "%s(x, level=%r) differs from the Parent graph" % (name, level)
                        if len(set(ids)) != len(ids):
                            why = "%s(x, level=%r) returns a feature more than once" % (name, level)
                        elif x in ids:
                            why = "%s(x, level=%r) contains x itself" % (name, level)
                        elif set(exp) - set(ids) and set(exp) - set(ids) <= set(twin) and not set(ids) - set(exp):
                            why = ("%s(x, level=%r): of several byte-identical lines without ID (distinct stored features) "
                                   "not every one is returned" % (name, level))
                        ctx.violation(case, {"why": T + why, "x": x, "got": ids, "expected": exp, "order": order, "text": text})
                        return None
                    for f in got:
                        n = byid[f.id]
                        if (f.featuretype, f.seqid, f.start, f.end, f.strand) != (n["type"], n["seqid"], n["start"], n["end"], n["strand"]):
                            ctx.violation(case, {"why": T + "%s() returned a feature whose columns are not those of its line" % name,
                                                 "x": x, "id": f.id, "got": str(f), "order": order, "text": text})
                            return None
                    if exp:
                        ctx.mon("non-empty relative sets compared")
                        if anon:
                            observe_idless(ctx, name, level, x, exp, anon, twin)
                    if level is None:
                        ctx.mon("shortcut relatives (level 1 and level 2 of one feature) returned once for level=None",
                                len(model(x, 1) & model(x, 2)))
                    if x in late2 and name == "children":
                        ctx.mon("wide: features with > 1000 direct children compared at levels 1/2/None")
                        if level == 2:
                            ctx.mon("wide: level-2 relatives reached through a child numbered >= 1000 (file order) compared",
                                    len(late2[x][0]))
                            ctx.mon("wide: level-2 relatives reached through a child ranked >= 1000 by id compared",
                                    len(late2[x][1]))
        # -- several generators of this FeatureDB alive at once ------------------------------------------------
        if not interleaved(ctx, case, db, q, rel, byid, order, text):
            return None
        # -- featuretype / limit / order_by / reverse composed with the brute-force filter ---------------------
        nq = case.get("nqueries", 8)
        busy = [x for x in byid if rel.children(x) or rel.parents(x)] or list(byid)
        for _ in range(nq):
            if not argument_query(ctx, case, db, q, rel, byid, busy, order, text):
                return None
        # -- iter_by_parent_childs ----------------------------------------------------------------------------
        for ft in ("gene", q.choice(sorted({n["type"] for n in nodes}))):
            try:
                groups = [[f.id for f in grp] for grp in db.iter_by_parent_childs(featuretype=ft)]
            except Exception as ex:
                ctx.violation(case, {"why": T + "iter_by_parent_childs raised %s" % type(ex).__name__, "error": repr(ex),
                                     "featuretype": ft, "order": order, "text": text})
                return None
            got = sorted((grp[0], sorted(grp[1:])) for grp in groups if grp)
            exp = sorted((x, sorted(rel.children(x))) for x, n in byid.items() if n["type"] == ft)
            ctx.mon("iter_by_parent_childs groups compared", len(exp))
            if got != exp or any(not grp for grp in groups):
                ctx.violation(case, {"why": T + "iter_by_parent_childs differs from [parent] + children(parent)",
                                     "featuretype": ft, "got": got, "expected": exp, "order": order, "text": text})
                return None
        ctx.mon("sql: SELECT DISTINCT ... JOIN relations statements traced",
                sum(1 for _, s in sqltrace.LOG if "JOIN relations" in s and "DISTINCT" in s))
        return tuple(sorted((anon.get(p, p), anon.get(c, c), lv) for p, c, lv in table))
    finally:
        if db is not None:
            try:
                db.conn.close()
            except Exception:
                pass
        for p in (src, dbfn):
            if p and p != ":memory:" and os.path.exists(p):
                os.unlink(p)
        if src is None:
            # from_string=True: gffutils leaves its own copy of the string in the temp directory (C20's F-C20-1)
            tdir = tempfile.gettempdir()
            if tdir.startswith(ctx.scratch):
                for name in os.listdir(tdir):
                    try:
                        os.unlink(os.path.join(tdir, name))
                    except OSError:
                        pass


def mixed_minority(nodes):
    """Counts of the lines that matter for the mixed-spelling class (None when the file has no line with >= 2 parents)."""
    multi = [n for n in nodes if len(n["parents"]) >= 2]
    if not multi:
        return None
    rep_other = lambda n: len({e.split("=")[0] for e in n.get("extra") or []}) < len(n.get("extra") or [])
    return {"comma": sum(1 for n in multi if n["style"] == "comma"), "repeat": sum(1 for n in multi if n["style"] == "repeat"),
            "both": sum(1 for n in multi if n["style"] == "comma" and rep_other(n))}


def observe_idless(ctx, name, level, x, exp, anon, twin):
    """Monitors of the id-less class for one agreeing, non-empty children()/parents() result."""
    if name == "parents":
        if x in anon:
            ctx.mon("id-less: parents() of a feature without ID attribute compared (non-empty)")
            if x in twin:
                ctx.mon("id-less: parents() of one of several byte-identical features compared (non-empty)")
        return
    n_anon = sum(1 for i in exp if i in anon)
    if n_anon:
        ctx.mon("id-less: children() results holding features without ID attribute, level=%r" % (level,))
    groups = Counter(twin[i] for i in exp if i in twin)
    if any(v > 1 for v in groups.values()):
        ctx.mon("id-less: children() results holding >= 2 byte-identical features, each returned once, level=%r" % (level,))
        ctx.mon("id-less: byte-identical features returned side by side", sum(v for v in groups.values() if v > 1))


def interleaved(ctx, case, db, q, rel, byid, order, text):
    """Generators of one FeatureDB consumed nested and on interleaved schedules: each yields its own full result."""
    T = tag(case)
    fns = {"children": (db.children, rel.children), "parents": (db.parents, rel.parents)}

    def bad(why, **kw):
        ctx.violation(case, dict({"why": T + why, "order": order, "text": text}, **kw))
        return False

    def compare(what, call, got, alone):
        name, x, level, ft = call
        exp = sorted(y for y in fns[name][1](x, level) if ft is None or byid[y]["type"] == ft)
        ctx.mon("interleaved: generators consumed while another generator of the same FeatureDB was alive")
        if sorted(got) != sorted(alone):
            return bad("interleaved generators (%s): %s(x, level=%r) yields something else than when consumed alone with list()"
                       % (what, name, level), x=x, featuretype=ft, got=got[:40], alone=alone[:40], n_got=len(got), n_alone=len(alone))
        if sorted(got) != exp:
            return bad("interleaved generators (%s): %s(x, level=%r) differs from the Parent graph" % (what, name, level),
                       x=x, featuretype=ft, got=sorted(got)[:40], expected=exp[:40], n_got=len(got), n_expected=len(exp))
        return True

    def solo(call):
        name, x, level, ft = call
        return [f.id for f in fns[name][0](x, level=level, featuretype=ft)]

    try:
        # 1. nested loops: for t in children(x, 1): for e in children(t, 1) / parents(t)
        wide = [x for x in byid if len(rel.children(x, 1)) >= 2]
        deep = [x for x in wide if rel.children(x, 2)]
        x = q.choice(deep or wide or list(byid))
        if case["kind"] == "wide":
            x = max(sorted(byid), key=lambda y: len(rel.children(y, 1)))
        inner_calls = q.choice([["children"], ["children", "parents"], ["parents", "children"]])
        plevel = q.choice([1, None])
        alone = solo(("children", x, 1, None))
        alone_inner = {}
        for t in alone:
            for nm in inner_calls:
                c = (nm, t, 1 if nm == "children" else plevel, None)
                alone_inner[c] = solo(c)
        outer, inner = [], {}
        for t in db.children(x, level=1):
            outer.append(t.id)
            arg = t if q.random() < 0.5 else t.id
            for nm in inner_calls:
                c = (nm, t.id, 1 if nm == "children" else plevel, None)
                got = []
                for e in fns[nm][0](arg, level=c[2]):
                    got.append(e.id)
                inner.setdefault(c, []).extend(got)
        if not compare("outer loop of a nested loop", ("children", x, 1, None), outer, alone):
            return False
        for c, got in inner.items():
            if not compare("inner loop of a nested loop", c, got, alone_inner.get(c, [])):
                return False
        if len(alone) >= 2 and any(inner.values()):
            ctx.mon("interleaved: nested loops with >= 2 outer items and a non-empty inner result")
        if len(alone) > 1000:
            ctx.mon("wide: nested loops over > 1000 children, one or two inner generators each")
        # 2. schedules over 2-4 live generators: zip-like round robin or random picks
        cands = [(nm, y, lv) for y in byid for nm in fns for lv in LEVELS if fns[nm][1](y, lv)]
        if len(cands) > 400:
            cands = q.sample(cands, 400)
        for _ in range(2):
            k = q.choice([2, 2, 3, 4])
            calls = []
            for _ in range(k):
                if cands and q.random() < 0.9:
                    nm, y, lv = q.choice(cands)
                else:
                    nm, y, lv = q.choice(list(fns)), q.choice(list(byid)), q.choice(LEVELS)
                ft = None
                if q.random() < 0.2:
                    ft = q.choice(sorted({byid[z]["type"] for z in fns[nm][1](y, lv)}) or ["exon"])
                calls.append((nm, y, lv, ft))
            alones = [solo(c) for c in calls]
            gens = [fns[nm][0](y, level=lv, featuretype=ft) for nm, y, lv, ft in calls]
            got = [[] for _ in calls]
            live = list(range(k))
            zipped = q.random() < 0.5
            turn = 0
            while live:
                i = live[turn % len(live)] if zipped else q.choice(live)
                turn += 1
                try:
                    got[i].append(next(gens[i]).id)
                except StopIteration:
                    live.remove(i)
            for c, gt, al in zip(calls, got, alones):
                if not compare("zip/round robin" if zipped else "random schedule", c, gt, al):
                    return False
            sizes = sorted(len(a) for a in alones if a)
            if len(sizes) >= 2 and sizes[-1] >= 2:
                ctx.mon("interleaved: schedules over >= 2 non-empty generators (one with >= 2 items)")
    except Exception as ex:
        return bad("interleaved generators raised %s" % type(ex).__name__, error=repr(ex))
    return True


def argument_query(ctx, case, db, q, rel, byid, busy, order, text):
    T = tag(case)
    x = q.choice(busy)
    direction = q.choice(["children", "children", "parents"])
    level = q.choice(LEVELS)
    base = sorted(rel.children(x, level) if direction == "children" else rel.parents(x, level))
    types = sorted({byid[y]["type"] for y in base}) or sorted({n["type"] for n in byid.values()})
    kw = {}
    r = q.random()
    if r < 0.35:
        kw["featuretype"] = q.choice(types)
    elif r < 0.6:
        pick = q.sample(types, min(len(types), q.choice([1, 2, 2])))
        if q.random() < 0.3:
            pick.append("no_such_type")
        kw["featuretype"] = pick if q.random() < 0.7 else tuple(pick)
    if q.random() < 0.45:
        anchor = byid[q.choice(base)] if base else byid[q.choice(list(byid))]
        s = max(1, anchor["start"] + q.choice([-300, -1, 0, 0, 1, 5]))
        e = max(s, anchor["end"] + q.choice([-5, -1, 0, 0, 1, 300, 4000]))
        if q.random() < 0.2:
            s, e = anchor["end"], anchor["end"]
        kw["limit"] = (anchor["seqid"] if q.random() < 0.85 else q.choice(G.SEQIDS), s, e)
        if q.random() < 0.35:
            kw["completely_within"] = True
    if q.random() < 0.6:
        ob = q.choice(ORDER_BYS)
        kw["order_by"] = ob if isinstance(ob, str) or q.random() < 0.7 else tuple(ob)
        if q.random() < 0.45:
            kw["reverse"] = True
    elif q.random() < 0.1:
        kw["reverse"] = True  # without order_by: no order promised, same set
    fn = db.children if direction == "children" else db.parents
    try:
        got = list(fn(x, level=level, **kw))
    except Exception as ex:
        ctx.violation(case, {"why": T + "%s with query arguments raised %s" % (direction, type(ex).__name__), "error": repr(ex),
                             "x": x, "level": level, "args": kw, "order": order, "text": text})
        return False
    ctx.mon("argument-composition queries compared")
    feat = lambda y: {"featuretype": byid[y]["type"], "seqid": byid[y]["seqid"], "start": byid[y]["start"],
                      "end": byid[y]["end"], "strand": byid[y]["strand"]}
    exp = sorted(y for y in base if H.keep(feat(y), kw.get("featuretype"), kw.get("limit"), kw.get("completely_within", False)))
    ids = [f.id for f in got]
    if sorted(ids) != exp:
        ctx.violation(case, {"why": T + "%s with featuretype/limit arguments differs from the filtered model set" % direction,
                             "x": x, "level": level, "args": kw, "got": sorted(ids), "expected": exp, "order": order, "text": text})
        return False
    if exp:
        ctx.mon("argument-composition queries with a non-empty answer")
    verdict = H.order_holds([feat(y) for y in ids], kw.get("order_by"), kw.get("reverse", False))
    if verdict is False:
        ctx.violation(case, {"why": T + "%s: result is not in order_by/reverse order" % direction, "x": x, "level": level,
                             "args": kw, "got": ids, "order": order, "text": text})
        return False
    if verdict and len(ids) > 1:
        ctx.mon("ordered results (>= 2 features) checked")
    return True


def classify(ctx, case):
    g = graph_of(case)
    nodes = H.resolve_ids(g["nodes"], range(len(g["nodes"])))     # the shape of the graph is the same for every order
    ids = {n["id"] for n in nodes}
    visible, lower, upper = H.gff3_triples(nodes)
    multi = any(len(n["parents"]) > 1 for n in nodes)
    lvl2 = any(lv == 2 for _, _, lv in visible)
    dang = any(p not in ids for n in nodes for p in n["parents"])
    pairs = {(p, c) for p, c, lv in visible if lv == 1}
    shortcut = any((p, c) in pairs for p, c, lv in visible if lv == 2)
    depth = 1 + max(n["layer"] for n in nodes)
    l1 = [(p, c) for p, c, lv in visible if lv == 1]
    kids = {}
    for p, c in l1:
        kids.setdefault(p, set()).add(c)
    paths = {}
    for a, b in l1:
        for c in kids.get(b, ()):
            paths[(a, c)] = paths.get((a, c), 0) + 1
    twopaths = any(v > 1 for v in paths.values())
    widest = max([len(v) for v in kids.values()] or [0])
    for cond, name in ((twopaths, "graph: two level-2 paths to one feature"), (widest > 1000, "graph: wide (> 1000 direct children)"),
                       (multi, "graph: multi-parent"), (lvl2, "graph: level-2 pairs"), (dang, "graph: dangling Parent"),
                       (shortcut, "graph: shortcut (level 1 and 2)"), (depth == 4, "graph: depth 4"),
                       (any(n["style"] == "comma" and len(n["parents"]) > 1 for n in nodes), "Parent=comma list"),
                       (any(n["style"] == "repeat" and len(n["parents"]) > 1 for n in nodes), "Parent=repeated keys")):
        if cond:
            ctx.classes[name] += 1
    ctx.classes["ids=" + case["ids"]] += 1
    klass = case.get("klass")
    if klass == "idless":
        ctx.classes["lines without ID attribute"] += 1
        texts = Counter(G.line_of(n) for n in nodes if n.get("noid"))
        twins = {t for t, k in texts.items() if k > 1}
        if twins:
            ctx.classes["lines without ID attribute: byte-identical lines"] += 1
            if any(len(n["parents"]) > 1 for n in nodes if n.get("noid") and G.line_of(n) in twins):
                ctx.classes["lines without ID attribute: byte-identical lines with >= 2 parents"] += 1
        for v in case.get("variants", ()):
            ctx.classes["lines without ID attribute: " + v] += 1
        return True
    if klass == "mixed":
        ctx.classes["mixed spelling: majority %s" % case["majority"]] += 1
        return True
    if klass == "confusable":
        ctx.classes["confusable ids: " + case["family"]] += 1
        return True
    return multi or lvl2 or dang


def children_first(nodes, order):
    at = {i: k for k, i in enumerate(order)}
    pos = {nodes[i]["id"]: k for k, i in enumerate(order) if not nodes[i].get("noid")}
    return any(p in pos and pos[p] > at[j] for j, n in enumerate(nodes) for p in n["parents"])


def account(ctx, case):
    nontrivial = classify(ctx, case)
    g = graph_of(case)
    if case["kind"] == "wide":
        for spec in case["orders"]:
            ctx.case(("wide", sorted(case["wide"].items()), spec), nontrivial, cls="line orders imported (wide graphs)",
                     sample={"wide": case["wide"], "order": spec})
        return
    canon = G.canonical(g)
    klass = case.get("klass")
    cls = {None: "line orders imported", "idless": "line orders imported (lines without ID attribute)",
           "mixed": "line orders imported (mixed spelling of several parents)",
           "confusable": "line orders imported (look-alike ids)"}[klass]
    extra = G.spelling(g) if klass == "mixed" else None
    for order in orders_of(case):
        if children_first(g["nodes"], order):
            ctx.classes["order=children first"] += 1
        ctx.case((canon, order, case["ids"], g.get("edge"), repr(extra)), nontrivial, cls=cls,
                 sample={"ids": case["ids"], "order": order, "text": G.text_of(g, order)[:700]})


def minimal_hostile(gene_id, flavour):
    def node(i, nid, ft, parents):
        return {"id": nid, "type": ft, "seqid": "chr1", "start": 1, "end": 9, "strand": "+", "layer": i, "parents": parents,
                "style": "comma", "idpos": "first", "name": None}
    g = {"nodes": [node(0, gene_id, "gene", []), node(1, "b", "mRNA", [gene_id]), node(2, "c", "exon", ["b"])], "edge": "pct"}
    return {"kind": "graph", "ids": "hostile", "flavours": [flavour], "graph": g, "qseed": 1, "orders": [[0, 1, 2]],
            "nqueries": 2, "db": "memory", "input": "path"}


def run(ctx):
    rng = ctx.rng
    thorough = ctx.tier == "thorough"
    # 0. wide graphs: one feature with more than 1000 direct children (about 1 s per import)
    for _ in range(ctx.budget(4, 16)):
        case = {"kind": "wide", "ids": "word", "wide": G.wide_params(rng), "qseed": rng.randrange(10 ** 9),
                "orders": [["forward"], rng.choice([["reverse"], ["shuffle", rng.randrange(10 ** 6)]])],
                "nqueries": 6, "db": "file" if rng.random() < 0.25 else "memory", "input": "path"}
        execute(ctx, case)
        account(ctx, case)
    # 1. word-like ids (first: its violations are reported before those of the hostile class)
    for i in range(ctx.budget(620, 9000)):
        g = G.graph(rng)
        n = len(g["nodes"])
        every = n > 1 and (n <= 5 or (n == 6 and i % 16 == 0)) if thorough else (1 < n <= 5 and i % 6 == 0)
        case = {"kind": "graph", "ids": "word", "graph": g, "qseed": rng.randrange(10 ** 9),
                "orders": "all" if every else G.sample_orders(rng, n, 4),
                "nqueries": 3 if every else 8,
                "db": "file" if rng.random() < 0.15 else "memory", "input": "string" if rng.random() < 0.15 else "path"}
        if every:
            ctx.classes["graphs imported under every permutation of their lines"] += 1
        execute(ctx, case)
        account(ctx, case)
    # 2. hostile ids (separate class; DESIGN F-C02-1): two minimal chains gene -> mRNA -> exon first, then random graphs
    if ctx.shard == 0:
        for gid, fl in ((" a", "leading blank"), ("a\tx", "escaped TAB inside")):
            case = minimal_hostile(gid, fl)
            ctx.classes["hostile id: " + fl] += 1
            execute(ctx, case)
            account(ctx, case)
    for _ in range(ctx.budget(240, 3000)):
        g = G.graph(rng, max_nodes=8)
        flavours = G.make_hostile(rng, g)
        if not flavours:
            continue
        n = len(g["nodes"])
        case = {"kind": "graph", "ids": "hostile", "flavours": flavours, "graph": g, "qseed": rng.randrange(10 ** 9),
                "orders": G.sample_orders(rng, n, 2), "nqueries": 4, "db": "memory", "input": "path"}
        for fl in flavours:
            ctx.classes["hostile id: " + fl] += 1
        execute(ctx, case)
        account(ctx, case)
    # 3. lines without an ID attribute, several of them byte-identical
    for i in range(ctx.budget(140, 2400)):
        g = G.graph(rng, max_nodes=10)
        variants = G.make_idless(rng, g)
        if not variants:
            ctx.mon("generator: graphs without a line that could lose its ID (not imported)")
            continue
        n = len(g["nodes"])
        every = n <= 5 and (thorough or i % 4 == 0)
        case = {"kind": "graph", "klass": "idless", "ids": "word", "variants": sorted(set(variants)), "graph": g,
                "qseed": rng.randrange(10 ** 9), "orders": "all" if every else G.sample_orders(rng, n, 3),
                "nqueries": 3 if every else 5, "db": "file" if rng.random() < 0.15 else "memory",
                "input": "string" if rng.random() < 0.15 else "path"}
        execute(ctx, case)
        account(ctx, case)
    # 4. both spellings of several parents in one file (repeated keys / comma list), either one in the majority
    for i in range(ctx.budget(100, 2000)):
        g = G.graph(rng)
        majority = "repeat" if i % 4 else "comma"
        if not G.make_mixed(rng, g, majority):
            ctx.mon("generator: graphs in which no line could get two parents (not imported)")
            continue
        n = len(g["nodes"])
        case = {"kind": "graph", "klass": "mixed", "majority": majority, "ids": "word", "graph": g,
                "qseed": rng.randrange(10 ** 9), "orders": G.sample_orders(rng, n, 3), "nqueries": 3,
                "db": "memory", "input": "string" if rng.random() < 0.15 else "path"}
        execute(ctx, case)
        account(ctx, case)
    # 5. look-alike ids: letter case only, numeric-looking, SQL wildcard characters
    for _ in range(ctx.budget(100, 2000)):
        g = G.graph(rng)
        fam = G.make_confusable(rng, g)
        if not fam:
            continue
        n = len(g["nodes"])
        case = {"kind": "graph", "klass": "confusable", "family": fam[0], "ids": "confusable", "graph": g,
                "qseed": rng.randrange(10 ** 9), "orders": G.sample_orders(rng, n, 3), "nqueries": 4,
                "db": "file" if rng.random() < 0.15 else "memory", "input": "path"}
        ctx.mon("look-alike ids: ids / Parent values renamed within one family", fam[1])
        execute(ctx, case)
        account(ctx, case)
    ctx.mon("make_query contract evaluations", contracts.EVALS["helpers.make_query"])


MANIFEST = {
    "technique": "generated Parent graphs x line orders -> real create_db; children()/parents()/relations table vs reference graph model",
    "text": "Each generated GFF3 graph is imported by the real create_db under several line orders (all permutations for small "
            "graphs). For every stored feature and level in {1, 2, None} the ids returned by the real children() and parents() "
            "are compared as multisets with a reference model of the Parent graph (level 2 = composition of two edges), so "
            "duplicates, missing second parents, wrong join direction and self-relatives are seen; featuretype, limit, "
            "order_by and reverse are composed with a brute-force filter; iter_by_parent_childs is compared with [parent] + "
            "children; the relations table is read with plain sqlite3 and must be L1 u L2; all orders of a graph must give "
            "the same relation set. A 'wide' class puts more than 1000 direct children under one feature, the last of them with "
            "children of their own, and queries every feature. On every imported database two or more children()/parents() "
            "generators are kept alive at once (nested loops, zip-like round robin, random schedules); each must yield what "
            "the same call yields when consumed alone and what the model says. Three more classes: lines without ID attribute "
            "(stored under '<featuretype>_<n>'), several byte-identical under the same parents - each is a stored feature and "
            "must come back once at every level; files mixing repeated-key and comma-list spelling of several parents with "
            "either one deciding the inferred dialect; ids that differ only in letter case, look numeric or are made of SQL "
            "wildcard characters. Held = no executed import disagreed.",
    "note": "Trusted: gvmon/models/hierarchy.py. The hostile-id class (blanks at the ends, U+0085/U+00A0, escaped TAB/LF) is "
            "kept apart: its violations are prefixed 'hostile-id class:'. update()/delete() histories are C10's.",
}
