"""
C02  GFF3 hierarchy: children/parents are exactly the Parent graph, two levels deep.

History + model: a generated annotation graph (DAG, depth <= 4, 0-3 Parent values per line, shared children,
shortcuts, dangling Parent values) is written in several line orders; each order is imported by the real create_db.
For every stored feature and level in {1, 2, None} the ids returned by the real children()/parents() are compared as
multisets with the reference model (gvmon/models/hierarchy.py: L1 = Parent edges, L2 = L1 o L1), the relations table is
read with plain sqlite3 and compared with the model, query arguments are composed with a brute-force filter, and the
relation sets of all orders of one graph must coincide.  After that several generators of the same FeatureDB are
kept alive at once (nested loops, zip, random schedules): each must yield what it yields alone.  A separate "wide"
class has one feature with more than 1000 direct children, the last of which have children themselves.
Further classes: lines WITHOUT an ID attribute (stored under '<featuretype>_<n>'), several of them byte-identical under one
parent; files that mix both spellings of several parents (repeated keys / comma list) with either one in the majority;
ids and Parent values that differ only in letter case, look numeric or consist of SQL wildcard characters; the verbose
argument of create_db / FeatureDB.update (not given, False, True, 'debug'); update() adding a third level under stored
features; process history (imports that failed half-way earlier in the same process, with the same ids and other Parent
links; a second create_db running inside the transform of the judged one); the documented pragmas argument of create_db /
FeatureDB (absent, the defaults, defaults + foreign_keys='ON', other result-neutral settings) on files with dangling Parent
values and children before their parents; the same file written with LF, CRLF and bare CR line ends (path, from_string, gzip);
ids of features with grandparents / grandchildren that hold a character GFF3 writes percent-encoded - every ASCII control
character U+0001-U+001F / U+007F and ; = & , % in turn (klass "esc", make_escaped).

Optional case fields (all replayable): "verboses" (one import per line order and value) or "verbose"; "split" (first k
lines by create_db, the others by update); "prior" (specs of G.failing_prior, run before every judged import); "nested"
(spec of G.nested_spec); "pragmas" (list of G.pragma_specs entries, one import per line order and entry), "reopen" (file
database: judged through a FeatureDB opened anew with the same pragmas argument); "eols" (keys of G.EOLS, one import per
line order and terminator) or "eol", "header" ('##gff-version 3' in front), "last" (False: no terminator after the last
line); "input" = path | string | gzip.
"""
import gzip
import os
import random
import tempfile
import unicodedata
from collections import Counter

from gvmon import dbdump
from gvmon.gen import graphs as G
from gvmon.models import hierarchy as H
from gvmon.monitors import contracts, sqltrace

RULE = ("GFF3 annotation graphs: DAGs of 1-4 layers and <= 12 lines, every line names 0-3 Parent values drawn from any "
        "earlier layer (shared children, multi-parent lines, 'diamond + shortcut' a->b->c plus a->c) or naming no line at "
        "all (dangling), Parent written as a comma list or as repeated keys, ID before or after Parent; each graph is "
        "imported under several line orders (parents first, children first, random; every permutation for <= 5 lines "
        "[quick: a sample of the graphs; thorough: all of them, plus a sample of the 6-line graphs]). Word-like ids ([A-Za-z0-9_.:-]) form the main class; "
        "a separate 'hostile id' class renames 1-3 ids to ones with blanks inside / at the ends, non-ASCII characters, "
        "U+0085/U+00A0 or percent-escaped TAB/LF. non-trivial = >= 1 multi-parent line or >= 1 level-2 pair or a dangling "
        "Parent value; distinct = canonical edge list + line order.  'wide' class: one gene with 1005-1100 direct children "
        "(a few also name a second gene), 6-9 of them - most numbered >= 1000 - with 1-3 children of their own (some of which "
        "also name the gene: shortcut, or a second transcript), one feature below an exon; written forward and reversed or "
        "shuffled; every feature is queried.  'interleaved generators' (every import): a nested loop children(x,1) -> "
        "children(t,1)/parents(t) and two schedules (zip-like round robin or random) over 2-4 live children()/parents() "
        "generators of the one FeatureDB; each generator is compared with the same call consumed alone with list() and with "
        "the model.  'lines without ID attribute': 1-n lines that nobody names as Parent lose their ID attribute (they are "
        "stored under '<featuretype>_<n>', n counting the id-less lines of that featuretype in file order, so the model is "
        "built per line order), 70% of them are written 2-4 times BYTE-IDENTICALLY (same parents: level-1 and level-2 "
        "relatives of the same features), others once more with other coordinates; every order <= 5 lines for a sample.  "
        "'mixed spelling': every line writes Parent (and mostly two Dbxref values) as repeated keys while 1-2 lines with >= 2 "
        "parents use one comma list (3 of 4 graphs; the inferred dialect, read from FeatureDB.dialect, is counted), or "
        "the reverse mixture.  'look-alike ids': 2-5 ids / dangling Parent values of related lines are renamed within one "
        "family: letter-case variants of one word, numeric-looking ('1', '01', '1.0', '1e0', ...), SQL wildcard strings ('%', "
        "'_', 'a_', 'ab', 'a%', ...; '%' is written %25).  "
        "'verbose': one graph, one line order, imported with verbose not given / False / True / 'debug' in a drawn sequence; all "
        "relation sets must coincide and agree with the model.  'update': the lines of layers 0-1 by create_db and the lines of "
        "layer >= 2 by FeatureDB.update (third level under existing features; 3 of 5), or any line order cut anywhere (random cut), "
        "under each of the four verbose values (given to both calls).  'process history': before EACH judged import 1-2 imports "
        "that fail half-way run in the same process - a file with the ids of the judged file and other Parent links (3 of 4) or "
        "an unrelated file, spoiled behind >= 1 Parent-bearing line by a duplicate ID (merge_strategy='error'), a non-integer "
        "start, an ID attribute with two values, a transform or an id_spec callable that raises at the k-th feature; through "
        "create_db or FeatureDB.update, into ':memory:' or a file - and/or the judged import gets an identity transform that, at "
        "a drawn feature, runs a second create_db into ':memory:' (same ids with other links, or unrelated; that inner database is "
        "judged against ITS graph too); verbose drawn; 1 of 5 judged imports is create_db + update.  'pragmas': one graph (3 of "
        "4 redrawn until a Parent value names no line), 1-2 line orders (parents first, children first, random), imported with the "
        "pragmas argument absent, dict(constants.default_pragmas), dict(constants.default_pragmas, foreign_keys='ON') and 1-2 "
        "drawn dictionaries (1-2 entries of G.PRAGMA_POOL - foreign_keys, synchronous, journal_mode, cache_size, page_size, "
        "temp_store, reverse_unordered_selects, automatic_index, case_sensitive_like, secure_delete, recursive_triggers - on top "
        "of the defaults or alone), in a drawn sequence; ':memory:' or a file, 6 of 10 file databases judged through a new "
        "FeatureDB(dbfn, pragmas=...); 1 of 5 as create_db + update; all relation sets must coincide and agree with the model.  "
        "'line ends': one graph, 2 line orders, written with LF, CRLF and bare CR after every line (drawn sequence), given as a "
        "path (2 of 4), via from_string (1 of 4) or as a gzip file (1 of 4; LF and CRLF only), 35% with a '##gff-version 3' line "
        "in front, 25% without terminator after the last line; all relation sets must coincide and agree with the model.  "
        "'ids not in normal form C': 1-3 ids / Parent values (features WITH children first) are renamed to texts that Unicode "
        "normalisation would change - a letter followed by a combining mark ('re' + U+0301 + 'gion'), two combining marks in "
        "non-canonical order, conjoining Hangul jamo, ANGSTROM / OHM / KELVIN SIGN, a CJK compatibility ideograph - and in 1 of 2 "
        "graphs one feature with children exists in BOTH spellings (composed and decomposed) as two features, each named as "
        "Parent by >= 1 line (some lines name both); 3 line orders, path / from_string, ':memory:' / file; the expected ids and "
        "relatives are those of the INPUT text, code point for code point.  "
        "'imports overlapping in time': 2-4 threads, released together by a threading.Barrier, each run create_db on its own file "
        "(G.forest_graph: 9-16 genes, 2-4 transcripts each, 3-6 exons per transcript, parts below exons: 150-400 lines, four "
        "layers, multi-parent lines, shortcuts, dangling values; forward / reversed / shuffled) into its own ':memory:' or file "
        "database, 2 rounds per case [thorough: 3]; every other case the files share ALL ids and differ in the Parent links; each "
        "thread reads its database itself (plain sqlite3 dump + children()/parents() of 12 drawn features at levels 1/2/None) and "
        "every database must be the Parent graph of its own file.  'non-UTF-8 locale': a graph with level-2 pairs, 2-4 ids (one "
        "with grandchildren first) renamed to words outside ASCII (Latin-1, Cyrillic, CJK, Hebrew, Greek, a non-BMP letter, the euro "
        "sign) and written percent-encoded into an ASCII-only file, imported by a child process started with LC_ALL/LANG = C or "
        "POSIX (or LC_CTYPE=C), PYTHONUTF8=0, PYTHONCOERCECLOCALE=0; the child prints a JSON summary (ids, relations table read with "
        "plain sqlite3, children()/parents() of every feature at every level) that is judged against the model.  "
        "'ids with characters that GFF3 writes percent-encoded': for EVERY character of ESCAPED_CHARS (the ASCII control characters "
        "U+0001-U+001F and U+007F, and ; = & , %) 2 graphs [thorough: 6] with level-2 pairs in which a feature WITH grandparents "
        "(and in 1 of 2 a feature with grandchildren, in 1 of 3 one more id / dangling Parent value) carries the character in front, "
        "inside, at the end or twice in its id; in 1 of 3 graphs another feature is renamed to the part of such an id in front of / "
        "behind the character; every id and Parent value is written percent-encoded (%1F, %3B, ...), 2-3 line orders, path / "
        "from_string, ':memory:' / file; the expected ids and relatives are those of the decoded input text")
REQUIRED = ["imports", "children()/parents() calls compared with the model", "relation rows compared",
            "level-2 rows compared", "argument-composition queries compared", "iter_by_parent_childs groups compared",
            "line-order pairs with identical relation sets", "dangling Parent values (no error, no phantom)",
            "shortcut relatives (level 1 and level 2 of one feature) returned once for level=None",
            "wide: features with > 1000 direct children compared at levels 1/2/None",
            "wide: level-2 relatives reached through a child numbered >= 1000 (file order) compared",
            "wide: level-2 relatives reached through a child ranked >= 1000 by id compared",
            "wide: nested loops over > 1000 children, one or two inner generators each",
            "interleaved: generators consumed while another generator of the same FeatureDB was alive",
            "interleaved: nested loops with >= 2 outer items and a non-empty inner result",
            "interleaved: schedules over >= 2 non-empty generators (one with >= 2 items)",
            "id-less: lines without ID attribute imported",
            "id-less: byte-identical lines imported (beyond the first of each text)",
            "id-less: children() results holding >= 2 byte-identical features, each returned once, level=1",
            "id-less: children() results holding >= 2 byte-identical features, each returned once, level=2",
            "id-less: children() results holding >= 2 byte-identical features, each returned once, level=None",
            "id-less: parents() of one of several byte-identical features compared (non-empty)",
            "mixed spelling: imports whose inferred dialect says 'repeated keys' with a comma-list Parent of >= 2 values",
            "mixed spelling: imports whose inferred dialect says no repeated keys with a Parent written as repeated keys",
            "mixed spelling: lines with a comma-list Parent and another attribute as repeated keys",
            "look-alike ids: ids / Parent values renamed within one family",
            "history: earlier imports in the same process that failed half-way",
            "history: failed earlier imports that used the ids of the judged file with other Parent links",
            "history: (Parent value, id) pairs read by failed earlier imports before they raised",
            "history: imports judged right after a failed import in the same process",
            "history: pairs read by a failed or nested import, both ids stored in the judged database, confirmed not related that way",
            "history: earlier imports failed by: duplicate", "history: earlier imports failed by: start",
            "history: earlier imports failed by: transform",
            "nested: imports during which a transform ran a second create_db (two creators alive at once)",
            "nested: inner databases compared with their own Parent graph",
            "verbose: imports with verbose=False", "verbose: imports with verbose=True", "verbose: imports with verbose='debug'",
            "verbose='debug': level-2 rows compared", "verbose=True: level-2 rows compared",
            "verbose: pairs of imports (other verbose value) with identical relation sets",
            "update: FeatureDB.update calls that added lines to a judged database",
            "update: calls with verbose='debug'", "update: calls with verbose=True", "update: calls with verbose=False",
            "update: lines of a third (or deeper) level added under existing features",
            "update: level-2 pairs joining a feature of the create_db call with one of the update call",
            "pragmas: imports with the pragmas argument given", "pragmas: imports with foreign_keys switched on",
            "pragmas: judged connections that report foreign_keys = 1",
            "pragmas: imports with foreign_keys on of a file with >= 1 dangling Parent value",
            "pragmas: dangling Parent values imported with foreign_keys on (no error, no phantom)",
            "pragmas: imports with foreign_keys on of a file with a child before its parent",
            "pragmas: level-2 rows compared (foreign_keys on)",
            "pragmas: pairs of imports (other pragmas setting) with identical relation sets",
            "pragmas: FeatureDB objects opened anew with the pragmas argument and judged",
            "line ends: imports of a file with CRLF line ends", "line ends: imports of a file with bare CR line ends",
            "line ends: bare CR, given as a path", "line ends: bare CR, given via from_string",
            "line ends: CRLF, given as a path", "line ends: CRLF, given via from_string", "line ends: CRLF, given as a gzip file",
            "line ends: level-2 rows compared (bare CR)", "line ends: level-2 rows compared (CRLF)",
            "line ends: pairs of imports (bare CR against LF or CRLF) with identical relation sets",
            "line ends: pairs of imports (other line terminator) with identical relation sets",
            "line ends: imports of a file with a '##gff-version 3' line in front",
            "line ends: imports of a file whose last line has no terminator",
            "non-NFC ids: stored features whose id (taken from the input text) is not in normal form C",
            "non-NFC ids: non-empty children() results of a feature whose id is not in normal form C compared, level=1",
            "non-NFC ids: non-empty children() results of a feature whose id is not in normal form C compared, level=2",
            "non-NFC ids: non-empty parents() results holding a feature whose id is not in normal form C compared",
            "non-NFC ids: imports holding the composed and the decomposed spelling of one name as two features",
            "non-NFC ids: children() results of the two spellings of one name that differ from each other, both as the model says",
            "threads: rounds of 2-4 imports started together behind a barrier",
            "threads: rounds in which all create_db calls overlapped in time (start of the last < end of the first)",
            "threads: imports that ran while another import ran in the same process",
            "threads: level-2 rows compared", "threads: databases equal to the Parent graph of their own file",
            "threads: level-2 pairs of another thread's file over ids stored here too, confirmed absent here",
            "locale: imports under a preferred encoding that is not UTF-8",
            "locale: stored features with an id outside ASCII (percent-encoded in an ASCII file)",
            "locale: level-2 rows with an id outside ASCII compared", "locale: databases equal to the Parent graph of their file",
            "escaped characters: stored features whose id holds an ASCII control character (written %XX)",
            "escaped characters: stored features whose id holds one of ; = & , % (written %XX)",
            "escaped characters: level-2 rows whose child id holds such a character compared",
            "escaped characters: level-2 rows whose parent id holds such a character compared",
            "escaped characters: non-empty children(level=2) results holding such an id compared",
            "escaped characters: non-empty parents(level=2) results of a feature with such an id compared",
            "escaped characters: imports in which another stored id is a part of such an id (split at the character)"]
REQUIRED_CLASSES = ["ids=word", "ids=hostile", "Parent=comma list", "Parent=repeated keys", "order=children first",
                    "graph: multi-parent", "graph: level-2 pairs", "graph: dangling Parent", "graph: shortcut (level 1 and 2)",
                    "graph: two level-2 paths to one feature", "graph: wide (> 1000 direct children)",
                    "lines without ID attribute", "lines without ID attribute: byte-identical lines",
                    "lines without ID attribute: byte-identical lines with >= 2 parents",
                    "mixed spelling: majority repeat", "mixed spelling: majority comma", "ids=confusable",
                    "confusable ids: letter case", "confusable ids: numeric-looking", "confusable ids: SQL wildcard",
                    "verbose: one file under all four values (not given / False / True / 'debug')",
                    "update: third level", "update: random cut",
                    "history: after a failed import of a file with the same ids and other Parent links",
                    "history: after a failed import of an unrelated file",
                    "history: a transform runs a second create_db (two creators alive at once)",
                    "history: judged import = create_db + FeatureDB.update",
                    "pragmas: file with a dangling Parent value", "pragmas: a line order with a child before its parent",
                    "pragmas: dangling Parent value and a child before its parent in one file",
                    "pragmas: judged through FeatureDB(dbfn, pragmas=...)", "pragmas: dictionary without the library's defaults",
                    "pragma: foreign_keys", "pragma: synchronous", "pragma: journal_mode", "pragma: cache_size",
                    "line ends: one file under LF, CRLF and bare CR", "line ends: given as a path",
                    "line ends: given via from_string", "line ends: given as a gzip file (LF and CRLF only)",
                    "ids=non-NFC", "non-NFC id: letter + combining mark", "non-NFC id: conjoining Hangul jamo",
                    "non-NFC id: ANGSTROM SIGN", "non-NFC id: OHM SIGN", "non-NFC id: KELVIN SIGN",
                    "non-NFC ids: composed and decomposed spelling as two features, each with children",
                    "threads: files with the same ids and other Parent links", "threads: files with ids of their own",
                    "threads: a ':memory:' target", "threads: a file target", "ids=escaped character"] + \
                   ["escaped character in an id: U+%04X" % i for i in list(range(1, 32)) + [127] + [ord(c) for c in ";=&,%"]]
ASSUMPTIONS = [
    "the reference model gvmon/models/hierarchy.py is a faithful reading of the statement: relatives are stored features "
    "only; level 2 = composition of two Parent edges; level None = union",
    "relations table: every written (Parent value, id) pair at level 1 and every level-2 pair of a stored feature must be "
    "present and nothing else, except level-2 rows whose parent is a dangling value (unobservable through "
    "children()/parents() of a stored feature; the statement is silent): accepted either way",
    "order_by: ties may come in any order; several columns together with reverse=True: order not judged (statement "
    "silent); order_by is given as a column name or a list of column names out of seqid/start/end/featuretype/strand/length "
    "(length only in list form: the string form is C11's finding F-C11-1)",
    "limit=(seqid,start,end) keeps features on that seqid overlapping [start,end] (completely_within=True: contained), "
    "coordinates far below 2^29 (larger ones are C06's)",
    "iter_by_parent_childs(featuretype) is judged as [parent] + all children(parent) for every stored feature of that "
    "type, groups in any order (its level/order_by arguments are not exercised)",
    "a line without ID attribute is a stored feature of its own under the id '<featuretype>_<n>', n = 1, 2, ... counting the "
    "id-less lines of that featuretype in file order (byte-identical lines included: identical text does not make them one "
    "feature); such lines are never named as Parent and no written ID / Parent value has that shape (other id_spec settings "
    "and update() are C04's); for these graphs the relation sets of two line orders are compared after replacing each "
    "generated id by the text of its line",
    "Parent=a,b and Parent=a;Parent=b name the same two parents whatever spelling the rest of the file uses",
    "ids are compared as exact strings (letter case, leading zeros, '%' and '_' are ordinary characters)",
    "ids are opaque text: two ids that are canonically equivalent under Unicode normalisation but differ in code points "
    "('\u00e9' / 'e' + U+0301, precomposed Hangul / conjoining jamo, U+00C5 / ANGSTROM SIGN) are two ids; a Parent value names "
    "the feature whose ID has exactly its code points; the stored id is the ID text of the line, unnormalised (expected ids "
    "and relatives are computed from the input text, never from what the database returns)",
    "Parent lists do not repeat a value; graphs are acyclic",
    "the verbose argument (not given, False, True, 'debug') only controls logging: the relations are the same under all of them",
    "lines added by FeatureDB.update(make_backup=False) are GFF3 input like the lines given to create_db: after the call every "
    "stored feature's relatives are the Parent graph of all lines imported so far (new ids only, default merge_strategy, no "
    "id-less lines; other update()/delete() histories are C10's)",
    "an import that raised earlier in the same process, for whatever database, is no input of the import judged next: the "
    "judged database is the Parent graph of ITS lines only.  Nothing is demanded of the failed import itself (a spoiled import "
    "that does not raise is counted and ignored)",
    "an identity transform (returns the feature it was given) does not change the input; a create_db call made from inside it "
    "for another ':memory:' database is an independent import: both databases are the Parent graphs of their own files",
    "the documented pragmas argument of create_db / FeatureDB configures the sqlite connection (durability, caching, page "
    "size, enforcement of declared constraints, order of unordered results); it is no input of the Parent graph: under every "
    "dictionary drawn from G.PRAGMA_POOL (with or without constants.default_pragmas; foreign_keys='ON' included) a file imports "
    "without error - dangling Parent values and children before parents included - and the relations are those of the model and "
    "of the import without the argument.  Pragmas that change what a connection may do or return (query_only, locking_mode, "
    "count_changes, defer_foreign_keys, journal_mode=OFF/WAL, ...) are not drawn; FeatureDB.update is called without the argument",
    "a line ends with LF, CR LF or a bare CR (Unix, DOS, classic Mac OS text files); the terminator is not part of the line: "
    "the same lines under each of the three conventions, given as a path or via from_string, are the same annotation.  A "
    "'##gff-version 3' line in front and a missing terminator after the last line change nothing either.  Bare CR inside a gzip "
    "file is NOT generated: the unchanged tree splits gzip input on LF only (a known limitation outside this statement: the "
    "whole file is read as one line); gzip input is generated with LF and CRLF",
    "create_db calls that run at the same time in different threads of one process, each on its own input file and its own "
    "database (':memory:' or its own path), are independent imports: each database is the Parent graph of ITS file (checked on "
    "the unchanged tree first: threaded imports work there); a FeatureDB is only used by the thread that made it",
    "the process locale is no input of the Parent graph: an ASCII-only GFF3 file whose ids are percent-encoded UTF-8 text imports "
    "without error under a C / POSIX locale with Python's UTF-8 mode off, and children()/parents() are the Parent graph over the "
    "decoded ids (a child process that reports a UTF-8 preferred encoding anyway is skipped and counted)",
    "ids are the percent-DECODED text of the ID attribute (the GFF3 rule: control characters and ; = & , % are written %XX): an "
    "id / Parent value may hold any ASCII control character U+0001-U+001F / U+007F or one of ; = & , % when the file writes it "
    "percent-encoded; such characters are ordinary characters of an opaque id (no character is a separator inside an id); NUL and "
    "raw (unencoded) control bytes are not generated",
    "interleaved generators: the database is not modified while they are alive; each generator is compared as a multiset "
    "with the same call consumed alone (the statement fixes no order without order_by) and with the model",
]
QUICK_SHARDS = 4
THOROUGH_SHARDS = 16
LEVELS = (1, 2, None)
ORDER_BYS = ["start", "end", "seqid", "featuretype", "strand", ["start"], ["seqid", "start"], ["featuretype", "end"],
             ["length"], ["strand", "length", "start"]]


def setup(ctx):
    contracts.install_all()
    sqltrace.install()


def tag(case):
    if case.get("klass") == "esc":
        return "ids with percent-encoded characters (%s): " % ", ".join(case.get("chars") or ())
    return "hostile-id class: " if case.get("ids") == "hostile" else ""


# characters that GFF3 writes percent-encoded in column 9: the ASCII control characters (NUL left out) and ; = & , %
ESCAPED_CHARS = [chr(i) for i in range(1, 32)] + [chr(127)] + list(";=&,%")
ESCAPED_PUNCT = set(";=&,%")
ESCAPED_EXCLUDED = set()     # characters taken out of the committed workload (none)


def uname(ch):
    return "U+%04X" % ord(ch)


def make_escaped(rng, g, ch):
    """Rename ids (consistently in every Parent list) so that they hold `ch`: always a feature with grandparents, in 1 of 2 a
    feature with grandchildren, in 1 of 3 one more id / dangling value; in 1 of 3 another feature gets a PART of such an id.
    Returns None when the graph has no level-2 pair, else {"renamed": n, "parts": n}."""
    nodes = g["nodes"]
    ids = [n["id"] for n in nodes]
    visible = H.gff3_triples(nodes)[0]
    low = sorted({c for p, c, lv in visible if lv == 2})
    top = sorted({p for p, c, lv in visible if lv == 2})
    if not low:
        return None
    dangling = sorted({p for n in nodes for p in n["parents"]} - set(ids))
    picks = [rng.choice(low)]
    if rng.random() < 0.5:
        picks.append(rng.choice(top))
    if rng.random() < 0.34:
        picks.append(rng.choice(ids + dangling))
    taken = set(ids) | set(dangling)
    mapping, parts = {}, []
    for old in picks:
        if old in mapping:
            continue
        k = rng.randrange(1, len(old)) if len(old) > 1 else 1
        new = rng.choice([ch + old, old + ch, old[:k] + ch + old[k:], old[:k] + ch + old[k:], old[:k] + ch + old[k:] + ch + "x",
                          old + ch + rng.choice("AbZ9")])
        if new in taken:
            continue
        mapping[old] = new
        taken.add(new)
        parts += [x for x in new.split(ch) if x]
    nparts = 0
    if mapping and rng.random() < 0.34:
        others = [i for i in ids if i not in mapping]
        rng.shuffle(others)
        for old, part in zip(others[:rng.choice([1, 2])], rng.sample(parts, len(parts))):
            if part not in taken:
                mapping[old] = part
                taken.add(part)
                nparts += 1
    for n in nodes:
        n["id"] = mapping.get(n["id"], n["id"])
        n["parents"] = [mapping.get(p, p) for p in n["parents"]]
    g["edge"] = "pct"
    return {"renamed": len(mapping) - nparts, "parts": nparts} if mapping else None


_WIDE = {}


def graph_of(case):
    if case["kind"] == "wide":
        key = repr(sorted(case["wide"].items()))
        if key not in _WIDE:
            _WIDE.clear()
            _WIDE[key] = G.wide_graph(case["wide"])
        return _WIDE[key]
    return case["graph"]


def orders_of(case):
    n = len(graph_of(case)["nodes"])
    if case["orders"] == "all":
        return G.all_orders(n)
    if case["kind"] == "wide":
        return [G.order_of_spec(n, spec) for spec in case["orders"]]
    return case["orders"]


def shown(case, oi, order, text):
    """(order, text) as written into a violation: the small spec and the head of the text for wide graphs."""
    if case["kind"] == "wide":
        return case["orders"][oi], text[:600] + "... [%d lines: G.text_of(G.wide_graph(case['wide']), order)]" % len(order)
    return order, text


def model_of(nodes):
    visible, lower, upper = H.gff3_triples(nodes)
    return H.Relatives(visible, [n["id"] for n in nodes]), lower, upper


def runs_of(case):
    """(order index, line order, verbose value, {"pragmas": pragma spec or None, "eol": key of G.EOLS}) of every judged
    import of a case."""
    orders = orders_of(case)
    vs = case.get("verboses") or [case.get("verbose", "absent")]
    ps = case.get("pragmas") or [None]
    es = case.get("eols") or [case.get("eol", "lf")]
    return [(oi, order, v, {"pragmas": p, "eol": e}) for oi, order in enumerate(orders) for v in vs for p in ps for e in es]


def execute(ctx, case):
    if case["kind"] == "threads":
        return execute_threads(ctx, case)
    if case["kind"] == "locale":
        return execute_locale(ctx, case)
    g = graph_of(case)
    idless = any(n.get("noid") for n in g["nodes"])
    model = None if idless else model_of(g["nodes"])
    first = None
    for oi, order, verbose, var in runs_of(case):
        # lines without an ID attribute: the stored ids, hence the model, depend on the line order
        nodes = H.resolve_ids(g["nodes"], order)
        rel, lower, upper = model or model_of(nodes)
        table = one_import(ctx, case, oi, order, nodes, rel, lower, upper, verbose, var)
        order = shown(case, oi, order, "")[0]
        for v in contracts.drain():
            ctx.violation(case, dict(v, why=tag(case) + "contract: " + str(v.get("why"))))
        if table is None:
            return
        if first is None:
            first = (order, table, verbose, var)
        elif table != first[1]:
            what = " and ".join(w for w, differs in (("the order of the lines", order != first[0]),
                                                     ("the verbose argument", verbose != first[2]),
                                                     ("the pragmas argument", var["pragmas"] != first[3]["pragmas"]),
                                                     ("the line terminator", var["eol"] != first[3]["eol"])) if differs)
            ctx.violation(case, {"why": tag(case) + "the relation set depends on " + what,
                                 "order_a": first[0], "order_b": order, "verbose_a": first[2], "verbose_b": verbose,
                                 "pragmas_a": first[3]["pragmas"], "pragmas_b": var["pragmas"],
                                 "eol_a": first[3]["eol"], "eol_b": var["eol"], "split": case.get("split"),
                                 "only_a": sorted(set(first[1]) - set(table))[:10], "only_b": sorted(set(table) - set(first[1]))[:10],
                                 "text_a": None if case["kind"] == "wide" else G.text_of(g, first[0]),
                                 "text_b": None if case["kind"] == "wide" else G.text_of(g, order)})
            return
        else:
            if order != first[0]:
                ctx.mon("line-order pairs with identical relation sets")
            if verbose != first[2]:
                ctx.mon("verbose: pairs of imports (other verbose value) with identical relation sets")
            if var["pragmas"] != first[3]["pragmas"]:
                ctx.mon("pragmas: pairs of imports (other pragmas setting) with identical relation sets")
            if var["eol"] != first[3]["eol"]:
                ctx.mon("line ends: pairs of imports (other line terminator) with identical relation sets")
                if "cr" in (var["eol"], first[3]["eol"]):
                    ctx.mon("line ends: pairs of imports (bare CR against LF or CRLF) with identical relation sets")


class _Noting(object):
    """ctx whose violations also say under which verbose value / history / split the import ran."""

    def __init__(self, ctx, extra):
        self._ctx, self._extra = ctx, extra

    def violation(self, case, detail):
        return self._ctx.violation(case, dict(self._extra, **detail))

    def __getattr__(self, name):
        return getattr(self._ctx, name)


class _Spoiled(Exception):
    """Raised by the callables of a spoiled earlier import."""


def _sweep_tempdir(ctx):
    # from_string=True: gffutils leaves its own copy of the string in the temp directory (C20's F-C20-1)
    tdir = tempfile.gettempdir()
    if tdir.startswith(ctx.scratch):
        for name in os.listdir(tdir):
            try:
                os.unlink(os.path.join(tdir, name))
            except OSError:
                pass


def run_prior(ctx, spec):
    """One earlier import of the process history that is built to FAIL half-way (see G.failing_prior).  Nothing of it is
    judged; what it did is counted.  Returns True when it raised."""
    import gffutils

    seen = [0]

    def counting(inner):
        def fn(f):
            if seen[0] == spec["at"]:
                raise _Spoiled("callable of the earlier import raises at feature number %d" % spec["at"])
            seen[0] += 1
            return inner(f)
        return fn

    kw = {"checklines": spec["checklines"]}
    if spec["fail"] == "transform":
        kw["transform"] = counting(lambda f: f)
    elif spec["fail"] == "id_spec":
        kw["id_spec"] = counting(lambda f: f.attributes["ID"][0])
    src = None
    dbfn = ":memory:" if spec["db"] == "memory" else ctx.tmp(".db")
    if spec["input"] == "path":
        src = ctx.tmp(".gff3")
        with open(src, "w", encoding="utf-8", newline="") as fh:
            fh.write(spec["text"])
    data, from_string = (src, False) if src else (spec["text"], True)
    old = None
    raised = False
    try:
        if spec["via"] == "update":
            old = gffutils.create_db("chrZ\tsrc\tregion\t1\t2\t.\t+\t.\tID=__old__\n", dbfn, from_string=True)
            old.update(data, from_string=from_string, make_backup=False, **kw)
        else:
            old = gffutils.create_db(data, dbfn, from_string=from_string, **kw)
    except Exception:
        raised = True
    finally:
        if old is not None:
            try:
                old.conn.close()
            except Exception:
                pass
        for p in (src, dbfn, dbfn + ".bak"):
            if p and p != ":memory:" and os.path.exists(p):
                os.unlink(p)
    if not raised:
        ctx.mon("history: spoiled earlier imports that did not raise (nothing demanded)")
        return False
    ctx.mon("history: earlier imports in the same process that failed half-way")
    ctx.mon("history: earlier imports failed by: " + spec["fail"])
    if spec["via"] == "update":
        ctx.mon("history: earlier imports that failed inside FeatureDB.update")
    if spec["same_ids"]:
        ctx.mon("history: failed earlier imports that used the ids of the judged file with other Parent links")
    ctx.mon("history: (Parent value, id) pairs read by failed earlier imports before they raised", len(spec["pairs"]))
    return True


def judge_nested(ctx, case, ndb, g2, info):
    """The database built by the import that ran inside the judged one: exactly the Parent graph of ITS file."""
    nodes = g2["nodes"]
    rel, lower, upper = model_of(nodes)
    dump = dbdump.dump_db(ndb)
    got_ids = sorted(f["id"] for f in dump["features"])
    want_ids = sorted(n["id"] for n in nodes)
    rows = [tuple(r) for r in dump["relations"]]
    table = set(rows)
    T = tag(case) + "import run from the transform of another import: "
    if got_ids != want_ids:
        ctx.violation(case, dict(info, why=T + "stored features differ from its lines", got=got_ids, expected=want_ids))
        return False
    if len(rows) != len(table) or not (lower <= table <= upper):
        ctx.violation(case, dict(info, why=T + "relations table differs from L1 u L2 of ITS Parent graph",
                                 missing=sorted(lower - table)[:12], unexpected=sorted(table - upper)[:12],
                                 nested_text=G.text_of(g2, range(len(nodes)))))
        return False
    ctx.mon("relation rows compared", len(rows))
    for x in want_ids:
        for level in LEVELS:
            for name, fn, model in (("children", ndb.children, rel.children), ("parents", ndb.parents, rel.parents)):
                ids = sorted(f.id for f in fn(x, level=level))
                ctx.mon("children()/parents() calls compared with the model")
                if ids != sorted(model(x, level)):
                    ctx.violation(case, dict(info, why=T + "%s(x, level=%r) differs from ITS Parent graph" % (name, level), x=x,
                                             got=ids, expected=sorted(model(x, level)), nested_text=G.text_of(g2, range(len(nodes)))))
                    return False
    ctx.mon("nested: inner databases compared with their own Parent graph")
    return True


def write_input(ctx, text, gz):
    """The text as a file (bytes as given: no newline translation), gzip-compressed under a '.gz' name when gz."""
    path = ctx.tmp(".gff3.gz" if gz else ".gff3")
    with (gzip.open(path, "wb") if gz else open(path, "wb")) as fh:
        fh.write(text.encode("utf-8"))
    return path


def one_import(ctx, case, oi, order, nodes, rel, lower, upper, verbose="absent", var=None):
    """Import one line order (nodes: the graph's nodes with the ids of this order) after the earlier imports of
    case["prior"], with the given verbose value, pragmas setting and line terminator (var), the last
    len(order) - case["split"] lines through FeatureDB.update, and possibly a second import running inside
    (case["nested"]); returns the relation rows read from the table (sorted; the ids of id-less lines replaced by the
    text of their line), or None after a violation."""
    import gffutils
    from gffutils import constants

    var = var or {"pragmas": None, "eol": case.get("eol", "lf")}
    pspec, eol = var["pragmas"], var["eol"]
    g = graph_of(case)
    byid = {n["id"]: n for n in nodes}
    mk = lambda idx: G.text_of(g, idx, eol, case.get("last", True), bool(case.get("header")))
    text = mk(order)
    # id-less lines: stored id -> text of the line; `twin`: those whose text occurs more than once in the file
    anon = {n["id"]: G.line_of(n, g.get("edge", "raw")) for n in nodes if n.get("noid")}
    ntext = Counter(anon.values())
    twin = {i: t for i, t in anon.items() if ntext[t] > 1}
    minority = mixed_minority(nodes)
    nonnfc = {i for i in byid if unicodedata.normalize("NFC", i) != i} if case.get("klass") == "nfc" else set()
    esc = {i for i in byid if set(i) & set(ESCAPED_CHARS)} if case.get("klass") == "esc" else set()
    full_order = order
    T = tag(case)
    src = src2 = nsrc = None
    split = case.get("split")
    nested = case.get("nested")
    used_string = nested is not None and nested["input"] == "string"
    failed_before = 0
    for spec in case.get("prior") or ():
        used_string = used_string or spec["input"] == "string" or spec["via"] == "update"
        failed_before += run_prior(ctx, spec)
    dbfn = ":memory:" if case.get("db", "memory") == "memory" else ctx.tmp(".db")
    text_a = text if split is None else mk(order[:split])
    text_b = None if split is None else mk(order[split:])
    how = case.get("input", "path")
    if how == "gzip" and eol == "cr":
        raise AssertionError("harness: bare CR line ends inside a gzip file are not generated (see ASSUMPTIONS)")
    if how in ("path", "gzip"):
        src = write_input(ctx, text_a, how == "gzip")
        data, from_string = src, False
        if text_b is not None:
            src2 = write_input(ctx, text_b, how == "gzip")
        data2 = src2
    else:
        data, from_string = text_a, True
        data2 = text_b
        used_string = True
    kw = {} if verbose == "absent" else {"verbose": verbose}
    pkw = {}
    if pspec is not None and pspec != "absent":
        pkw["pragmas"] = dict(constants.default_pragmas if pspec["default"] else {}, **pspec["set"])
    kw.update(pkw)
    inner = {"calls": 0, "db": None, "error": None, "fired": False}
    if nested is not None:
        inner_text = G.text_of(nested["graph"], range(len(nested["graph"]["nodes"])))
        if nested["input"] == "path":
            nsrc = ctx.tmp(".gff3")
            with open(nsrc, "w", encoding="utf-8", newline="") as fh:
                fh.write(inner_text)

        def transform(f):
            if inner["calls"] == nested["at"] and not inner["fired"]:
                inner["fired"] = True
                try:
                    inner["db"] = gffutils.create_db(nsrc or inner_text, ":memory:", from_string=nsrc is None)
                except Exception as ex:
                    inner["error"] = ex
            inner["calls"] += 1
            return f
        kw["transform"] = transform
    order, text = shown(case, oi, order, text)   # from here on: what is written into violation details
    info = {"order": order, "text": text}
    if verbose != "absent":
        info["verbose"] = verbose
    if split is not None:
        info["split"] = "the first %d lines by create_db, the others by FeatureDB.update" % split
    if case.get("prior"):
        info["history"] = "after %d import(s) built to fail half-way (case['prior'])" % len(case["prior"])
    if nested is not None:
        info["nested"] = "a transform ran a second create_db at feature number %d (case['nested'])" % nested["at"]
    if pspec is not None:
        info["pragmas"] = "argument not given" if pspec == "absent" else pkw["pragmas"]
    if case.get("eols") or eol != "lf":
        info["line_terminator"] = {"lf": "LF", "crlf": "CR LF", "cr": "bare CR"}[eol] + \
            (", given as a gzip file" if how == "gzip" else ", given via from_string" if how == "string" else ", given as a path")
    if len(info) > 2:
        ctx = _Noting(ctx, {k: v for k, v in info.items() if k not in ("order", "text")})
    sqltrace.reset()
    db = None
    try:
        try:
            db = gffutils.create_db(data, dbfn, from_string=from_string, **kw)
        except Exception as ex:
            ctx.violation(case, dict(info, why=T + "create_db raised %s" % type(ex).__name__, error=repr(ex)))
            return None
        if split is not None:
            try:
                # the same verbose value / transform; the pragmas argument belongs to create_db and FeatureDB
                db.update(data2, from_string=from_string, make_backup=False, **{k: v for k, v in kw.items() if k != "pragmas"})
            except Exception as ex:
                ctx.violation(case, dict(info, why=T + "FeatureDB.update raised %s" % type(ex).__name__, error=repr(ex)))
                return None
            ctx.mon("update: FeatureDB.update calls that added lines to a judged database")
            ctx.mon("update: calls with verbose=%r" % (verbose,))
            late = {nodes[i]["id"] for i in full_order[split:]}
            early = {nodes[i]["id"] for i in full_order[:split]}
            ctx.mon("update: level-2 pairs joining a feature of the create_db call with one of the update call",
                    sum(1 for p, c, lv in lower if lv == 2 and ((p in early and c in late) or (p in late and c in early))))
            if case.get("klass") == "update" and case.get("how") == "third level":
                ctx.mon("update: lines of a third (or deeper) level added under existing features", len(late))
        if failed_before:
            ctx.mon("history: imports judged right after a failed import in the same process")
            if split is not None:
                ctx.mon("history: create_db + FeatureDB.update judged right after a failed import")
        ctx.mon("verbose: imports with verbose=%r" % (verbose,) if verbose != "absent" else "verbose: imports without the argument")
        if nested is not None:
            if inner["error"] is not None:
                ctx.violation(case, dict(info, why=T + "create_db run from the transform of another import raised %s"
                                         % type(inner["error"]).__name__, error=repr(inner["error"]), nested_text=inner_text))
                return None
            if inner["db"] is None:
                raise AssertionError("harness: the transform never ran the nested import")
            ctx.mon("nested: imports during which a transform ran a second create_db (two creators alive at once)")
            if nested["same_ids"]:
                ctx.mon("nested: inner files using the ids of the outer file with other Parent links")
            if not judge_nested(ctx, case, inner["db"], nested["graph"], info):
                return None
        ctx.mon("imports")
        dangling_values = {p for n in nodes for p in n["parents"] if p not in byid}
        if pspec is not None:
            fk = G.fk_on(pspec)
            if case.get("reopen") and dbfn != ":memory:":
                # the other documented place of the argument: a FeatureDB opened on the finished file
                db.conn.close()
                try:
                    db = gffutils.FeatureDB(dbfn, **pkw)
                except Exception as ex:
                    ctx.violation(case, dict(info, why=T + "FeatureDB(dbfn, pragmas=...) raised %s on the database just made"
                                             % type(ex).__name__, error=repr(ex)))
                    return None
                ctx.mon("pragmas: FeatureDB objects opened anew with the pragmas argument and judged")
            if pspec != "absent":
                ctx.mon("pragmas: imports with the pragmas argument given")
            if fk:
                ctx.mon("pragmas: imports with foreign_keys switched on")
                ctx.mon("pragmas: judged connections that report foreign_keys = 1",
                        int(db.conn.execute("PRAGMA foreign_keys").fetchone()[0] == 1))
                if dangling_values:
                    ctx.mon("pragmas: imports with foreign_keys on of a file with >= 1 dangling Parent value")
                    ctx.mon("pragmas: dangling Parent values imported with foreign_keys on (no error, no phantom)", len(dangling_values))
                if children_first(nodes, full_order):
                    ctx.mon("pragmas: imports with foreign_keys on of a file with a child before its parent")
                if split is not None:
                    ctx.mon("pragmas: FeatureDB.update calls after a create_db with foreign_keys on")
        if case.get("klass") == "eol":
            name = {"lf": "LF", "crlf": "CRLF", "cr": "bare CR"}[eol]
            ctx.mon("line ends: imports of a file with %s line ends" % name)
            ctx.mon("line ends: %s, given %s" % (name, {"path": "as a path", "string": "via from_string", "gzip": "as a gzip file"}[how]))
            ctx.mon("line ends: lines read from files with %s line ends" % name, len(full_order))
            if case.get("header"):
                ctx.mon("line ends: imports of a file with a '##gff-version 3' line in front")
            if not case.get("last", True):
                ctx.mon("line ends: imports of a file whose last line has no terminator")
        if anon:
            ctx.mon("id-less: imports with lines that have no ID attribute")
            ctx.mon("id-less: lines without ID attribute imported", len(anon))
            ctx.mon("id-less: byte-identical lines imported (beyond the first of each text)", len(twin) - len(set(twin.values())))
        if minority:
            rk = bool(db.dialect.get("repeated keys"))
            if rk and minority["comma"]:
                ctx.mon("mixed spelling: imports whose inferred dialect says 'repeated keys' with a comma-list Parent of >= 2 values")
                ctx.mon("mixed spelling: comma-list Parent values (>= 2) under an inferred 'repeated keys' dialect", minority["comma"])
            if not rk and minority["repeat"]:
                ctx.mon("mixed spelling: imports whose inferred dialect says no repeated keys with a Parent written as repeated keys")
            if minority["both"]:
                ctx.mon("mixed spelling: lines with a comma-list Parent and another attribute as repeated keys", minority["both"])
        # -- the stored features: one per line, no phantom ---------------------------------------------
        dump = dbdump.dump_db(db)
        got_ids = sorted(f["id"] for f in dump["features"])
        if got_ids != sorted(byid):
            ctx.violation(case, {"why": T + "stored features differ from the lines (phantom or missing feature%s)"
                                        % ("; a line without ID is expected under '<featuretype>_<n>', n counting such lines "
                                           "of that featuretype in file order" if anon else ""),
                                 "unexpected": sorted(set(got_ids) - set(byid)), "missing": sorted(set(byid) - set(got_ids)),
                                 "order": order, "text": text})
            return None
        # -- the relations table ------------------------------------------------------------------------
        rows = [tuple(r) for r in dump["relations"]]
        table = set(rows)
        ctx.mon("relation rows compared", len(rows))
        ctx.mon("level-2 rows compared", sum(1 for r in rows if r[2] == 2))
        if verbose != "absent":
            ctx.mon("verbose=%r: level-2 rows compared" % (verbose,), sum(1 for r in rows if r[2] == 2))
        if pspec is not None and G.fk_on(pspec):
            ctx.mon("pragmas: level-2 rows compared (foreign_keys on)", sum(1 for r in rows if r[2] == 2))
        if case.get("klass") == "eol" and eol != "lf":
            ctx.mon("line ends: level-2 rows compared (%s)" % {"crlf": "CRLF", "cr": "bare CR"}[eol], sum(1 for r in rows if r[2] == 2))
        if esc:
            ctx.mon("escaped characters: stored features whose id holds an ASCII control character (written %XX)",
                    sum(1 for i in esc if set(i) & (set(ESCAPED_CHARS) - ESCAPED_PUNCT)))
            ctx.mon("escaped characters: stored features whose id holds one of ; = & , % (written %XX)",
                    sum(1 for i in esc if set(i) & ESCAPED_PUNCT))
            if any(part in byid for i in esc for c in set(i) & set(ESCAPED_CHARS) for part in i.split(c) if part):
                ctx.mon("escaped characters: imports in which another stored id is a part of such an id (split at the character)")
        if len(rows) != len(table) or not (lower <= table <= upper):
            ctx.violation(case, {"why": T + "relations table differs from L1 u L2 of the Parent graph",
                                 "missing": sorted(lower - table)[:12], "unexpected": sorted(table - upper)[:12],
                                 "order": order, "text": text})
            return None
        dangling = {p for p, c, lv in lower if p not in byid}
        ctx.mon("dangling Parent values (no error, no phantom)", len(dangling))
        if esc:
            ctx.mon("escaped characters: level-2 rows whose child id holds such a character compared",
                    sum(1 for r in rows if r[2] == 2 and r[1] in esc))
            ctx.mon("escaped characters: level-2 rows whose parent id holds such a character compared",
                    sum(1 for r in rows if r[2] == 2 and r[0] in esc))
        # pairs a failed / nested import read under the same ids: both ends stored here, not related that way here
        foreign = [tuple(pc) for spec in case.get("prior") or () for pc in spec["pairs"]]
        if nested is not None:
            foreign += sorted(H.parent_edges(nested["graph"]["nodes"]))
        ctx.mon("history: pairs read by a failed or nested import, both ids stored in the judged database, confirmed not related that way",
                sum(1 for p, c in set(foreign) if p in byid and c in byid and (p, c, 1) not in upper and (p, c, 1) not in table))
        # -- children()/parents() for every stored feature and level ----------------------------------------
        q = random.Random(case["qseed"] * 1009 + oi)
        late2 = {}   # feature with > 1000 direct children -> level-2 relatives through its children number >= 1000
        for x in byid:
            if len(rel.children(x, 1)) > 1000:
                kids = [nodes[i]["id"] for i in full_order if x in nodes[i]["parents"]]
                late2[x] = (set().union(*[rel.children(t, 1) for t in kids[1000:]]),
                            set().union(*[rel.children(t, 1) for t in sorted(kids)[1000:]]))
        for x in byid:
            arg = x
            if q.random() < 0.25:
                try:
                    arg = db[x]
                except Exception as ex:
                    ctx.violation(case, {"why": T + "db[id] raised %s for a stored feature" % type(ex).__name__, "id": x,
                                         "error": repr(ex), "order": order, "text": text})
                    return None
            for level in LEVELS:
                for name, fn, model in (("children", db.children, rel.children), ("parents", db.parents, rel.parents)):
                    try:
                        got = list(fn(arg, level=level))
                    except Exception as ex:
                        ctx.violation(case, {"why": T + "%s(level=%r) raised %s" % (name, level, type(ex).__name__), "id": x,
                                             "error": repr(ex), "order": order, "text": text})
                        return None
                    ctx.mon("children()/parents() calls compared with the model")
                    ids = sorted(f.id for f in got)
                    exp = sorted(model(x, level))
                    if ids != exp or x in ids:
                        why = "%s(x, level=%r) differs from the Parent graph" % (name, level)
                        if len(set(ids)) != len(ids):
                            why = "%s(x, level=%r) returns a feature more than once" % (name, level)
                        elif x in ids:
                            why = "%s(x, level=%r) contains x itself" % (name, level)
                        elif set(exp) - set(ids) and set(exp) - set(ids) <= set(twin) and not set(ids) - set(exp):
                            why = ("%s(x, level=%r): of several byte-identical lines without ID (distinct stored features) "
                                   "not every one is returned" % (name, level))
                        ctx.violation(case, {"why": T + why, "x": x, "got": ids, "expected": exp, "order": order, "text": text})
                        return None
                    for f in got:
                        n = byid[f.id]
                        if (f.featuretype, f.seqid, f.start, f.end, f.strand) != (n["type"], n["seqid"], n["start"], n["end"], n["strand"]):
                            ctx.violation(case, {"why": T + "%s() returned a feature whose columns are not those of its line" % name,
                                                 "x": x, "id": f.id, "got": str(f), "order": order, "text": text})
                            return None
                    if exp:
                        ctx.mon("non-empty relative sets compared")
                        if anon:
                            observe_idless(ctx, name, level, x, exp, anon, twin)
                        if esc and level == 2:
                            if name == "children" and esc & set(exp):
                                ctx.mon("escaped characters: non-empty children(level=2) results holding such an id compared")
                            if name == "parents" and x in esc:
                                ctx.mon("escaped characters: non-empty parents(level=2) results of a feature with such an id compared")
                        if nonnfc:
                            if name == "children" and x in nonnfc:
                                ctx.mon("non-NFC ids: non-empty children() results of a feature whose id is not in normal form C "
                                        "compared, level=%r" % (level,))
                            if name == "parents" and nonnfc & set(exp):
                                ctx.mon("non-NFC ids: non-empty parents() results holding a feature whose id is not in normal form C compared")
                    if level is None:
                        ctx.mon("shortcut relatives (level 1 and level 2 of one feature) returned once for level=None",
                                len(model(x, 1) & model(x, 2)))
                    if x in late2 and name == "children":
                        ctx.mon("wide: features with > 1000 direct children compared at levels 1/2/None")
                        if level == 2:
                            ctx.mon("wide: level-2 relatives reached through a child numbered >= 1000 (file order) compared",
                                    len(late2[x][0]))
                            ctx.mon("wide: level-2 relatives reached through a child ranked >= 1000 by id compared",
                                    len(late2[x][1]))
        if nonnfc:
            ctx.mon("non-NFC ids: stored features whose id (taken from the input text) is not in normal form C", len(nonnfc))
            for a in sorted(nonnfc):
                b = unicodedata.normalize("NFC", a)
                if b in byid:
                    ctx.mon("non-NFC ids: imports holding the composed and the decomposed spelling of one name as two features")
                    for level in LEVELS:
                        if rel.children(a, level) != rel.children(b, level):
                            ctx.mon("non-NFC ids: children() results of the two spellings of one name that differ from each other, "
                                    "both as the model says")
        # -- several generators of this FeatureDB alive at once ------------------------------------------------
        if not interleaved(ctx, case, db, q, rel, byid, order, text):
            return None
        # -- featuretype / limit / order_by / reverse composed with the brute-force filter ---------------------
        nq = case.get("nqueries", 8)
        busy = [x for x in byid if rel.children(x) or rel.parents(x)] or list(byid)
        for _ in range(nq):
            if not argument_query(ctx, case, db, q, rel, byid, busy, order, text):
                return None
        # -- iter_by_parent_childs ----------------------------------------------------------------------------
        for ft in ("gene", q.choice(sorted({n["type"] for n in nodes}))):
            try:
                groups = [[f.id for f in grp] for grp in db.iter_by_parent_childs(featuretype=ft)]
            except Exception as ex:
                ctx.violation(case, {"why": T + "iter_by_parent_childs raised %s" % type(ex).__name__, "error": repr(ex),
                                     "featuretype": ft, "order": order, "text": text})
                return None
            got = sorted((grp[0], sorted(grp[1:])) for grp in groups if grp)
            exp = sorted((x, sorted(rel.children(x))) for x, n in byid.items() if n["type"] == ft)
            ctx.mon("iter_by_parent_childs groups compared", len(exp))
            if got != exp or any(not grp for grp in groups):
                ctx.violation(case, {"why": T + "iter_by_parent_childs differs from [parent] + children(parent)",
                                     "featuretype": ft, "got": got, "expected": exp, "order": order, "text": text})
                return None
        ctx.mon("sql: SELECT DISTINCT ... JOIN relations statements traced",
                sum(1 for _, s in sqltrace.LOG if "JOIN relations" in s and "DISTINCT" in s))
        return tuple(sorted((anon.get(p, p), anon.get(c, c), lv) for p, c, lv in table))
    finally:
        for d in (db, inner["db"]):
            if d is not None:
                try:
                    d.conn.close()
                except Exception:
                    pass
        for p in (src, src2, nsrc, dbfn, dbfn + "-journal"):
            if p and not p.startswith(":memory:") and os.path.exists(p):
                os.unlink(p)
        if used_string:
            _sweep_tempdir(ctx)


def mixed_minority(nodes):
    """Counts of the lines that matter for the mixed-spelling class (None when the file has no line with >= 2 parents)."""
    multi = [n for n in nodes if len(n["parents"]) >= 2]
    if not multi:
        return None
    rep_other = lambda n: len({e.split("=")[0] for e in n.get("extra") or []}) < len(n.get("extra") or [])
    return {"comma": sum(1 for n in multi if n["style"] == "comma"), "repeat": sum(1 for n in multi if n["style"] == "repeat"),
            "both": sum(1 for n in multi if n["style"] == "comma" and rep_other(n))}


def observe_idless(ctx, name, level, x, exp, anon, twin):
    """Monitors of the id-less class for one agreeing, non-empty children()/parents() result."""
    if name == "parents":
        if x in anon:
            ctx.mon("id-less: parents() of a feature without ID attribute compared (non-empty)")
            if x in twin:
                ctx.mon("id-less: parents() of one of several byte-identical features compared (non-empty)")
        return
    n_anon = sum(1 for i in exp if i in anon)
    if n_anon:
        ctx.mon("id-less: children() results holding features without ID attribute, level=%r" % (level,))
    groups = Counter(twin[i] for i in exp if i in twin)
    if any(v > 1 for v in groups.values()):
        ctx.mon("id-less: children() results holding >= 2 byte-identical features, each returned once, level=%r" % (level,))
        ctx.mon("id-less: byte-identical features returned side by side", sum(v for v in groups.values() if v > 1))


def interleaved(ctx, case, db, q, rel, byid, order, text):
    """Generators of one FeatureDB consumed nested and on interleaved schedules: each yields its own full result."""
    T = tag(case)
    fns = {"children": (db.children, rel.children), "parents": (db.parents, rel.parents)}

    def bad(why, **kw):
        ctx.violation(case, dict({"why": T + why, "order": order, "text": text}, **kw))
        return False

    def compare(what, call, got, alone):
        name, x, level, ft = call
        exp = sorted(y for y in fns[name][1](x, level) if ft is None or byid[y]["type"] == ft)
        ctx.mon("interleaved: generators consumed while another generator of the same FeatureDB was alive")
        if sorted(got) != sorted(alone):
            return bad("interleaved generators (%s): %s(x, level=%r) yields something else than when consumed alone with list()"
                       % (what, name, level), x=x, featuretype=ft, got=got[:40], alone=alone[:40], n_got=len(got), n_alone=len(alone))
        if sorted(got) != exp:
            return bad("interleaved generators (%s): %s(x, level=%r) differs from the Parent graph" % (what, name, level),
                       x=x, featuretype=ft, got=sorted(got)[:40], expected=exp[:40], n_got=len(got), n_expected=len(exp))
        return True

    def solo(call):
        name, x, level, ft = call
        return [f.id for f in fns[name][0](x, level=level, featuretype=ft)]

    try:
        # 1. nested loops: for t in children(x, 1): for e in children(t, 1) / parents(t)
        wide = [x for x in byid if len(rel.children(x, 1)) >= 2]
        deep = [x for x in wide if rel.children(x, 2)]
        x = q.choice(deep or wide or list(byid))
        if case["kind"] == "wide":
            x = max(sorted(byid), key=lambda y: len(rel.children(y, 1)))
        inner_calls = q.choice([["children"], ["children", "parents"], ["parents", "children"]])
        plevel = q.choice([1, None])
        alone = solo(("children", x, 1, None))
        alone_inner = {}
        for t in alone:
            for nm in inner_calls:
                c = (nm, t, 1 if nm == "children" else plevel, None)
                alone_inner[c] = solo(c)
        outer, inner = [], {}
        for t in db.children(x, level=1):
            outer.append(t.id)
            arg = t if q.random() < 0.5 else t.id
            for nm in inner_calls:
                c = (nm, t.id, 1 if nm == "children" else plevel, None)
                got = []
                for e in fns[nm][0](arg, level=c[2]):
                    got.append(e.id)
                inner.setdefault(c, []).extend(got)
        if not compare("outer loop of a nested loop", ("children", x, 1, None), outer, alone):
            return False
        for c, got in inner.items():
            if not compare("inner loop of a nested loop", c, got, alone_inner.get(c, [])):
                return False
        if len(alone) >= 2 and any(inner.values()):
            ctx.mon("interleaved: nested loops with >= 2 outer items and a non-empty inner result")
        if len(alone) > 1000:
            ctx.mon("wide: nested loops over > 1000 children, one or two inner generators each")
        # 2. schedules over 2-4 live generators: zip-like round robin or random picks
        cands = [(nm, y, lv) for y in byid for nm in fns for lv in LEVELS if fns[nm][1](y, lv)]
        if len(cands) > 400:
            cands = q.sample(cands, 400)
        for _ in range(2):
            k = q.choice([2, 2, 3, 4])
            calls = []
            for _ in range(k):
                if cands and q.random() < 0.9:
                    nm, y, lv = q.choice(cands)
                else:
                    nm, y, lv = q.choice(list(fns)), q.choice(list(byid)), q.choice(LEVELS)
                ft = None
                if q.random() < 0.2:
                    ft = q.choice(sorted({byid[z]["type"] for z in fns[nm][1](y, lv)}) or ["exon"])
                calls.append((nm, y, lv, ft))
            alones = [solo(c) for c in calls]
            gens = [fns[nm][0](y, level=lv, featuretype=ft) for nm, y, lv, ft in calls]
            got = [[] for _ in calls]
            live = list(range(k))
            zipped = q.random() < 0.5
            turn = 0
            while live:
                i = live[turn % len(live)] if zipped else q.choice(live)
                turn += 1
                try:
                    got[i].append(next(gens[i]).id)
                except StopIteration:
                    live.remove(i)
            for c, gt, al in zip(calls, got, alones):
                if not compare("zip/round robin" if zipped else "random schedule", c, gt, al):
                    return False
            sizes = sorted(len(a) for a in alones if a)
            if len(sizes) >= 2 and sizes[-1] >= 2:
                ctx.mon("interleaved: schedules over >= 2 non-empty generators (one with >= 2 items)")
    except Exception as ex:
        return bad("interleaved generators raised %s" % type(ex).__name__, error=repr(ex))
    return True


def argument_query(ctx, case, db, q, rel, byid, busy, order, text):
    T = tag(case)
    x = q.choice(busy)
    direction = q.choice(["children", "children", "parents"])
    level = q.choice(LEVELS)
    base = sorted(rel.children(x, level) if direction == "children" else rel.parents(x, level))
    types = sorted({byid[y]["type"] for y in base}) or sorted({n["type"] for n in byid.values()})
    kw = {}
    r = q.random()
    if r < 0.35:
        kw["featuretype"] = q.choice(types)
    elif r < 0.6:
        pick = q.sample(types, min(len(types), q.choice([1, 2, 2])))
        if q.random() < 0.3:
            pick.append("no_such_type")
        kw["featuretype"] = pick if q.random() < 0.7 else tuple(pick)
    if q.random() < 0.45:
        anchor = byid[q.choice(base)] if base else byid[q.choice(list(byid))]
        s = max(1, anchor["start"] + q.choice([-300, -1, 0, 0, 1, 5]))
        e = max(s, anchor["end"] + q.choice([-5, -1, 0, 0, 1, 300, 4000]))
        if q.random() < 0.2:
            s, e = anchor["end"], anchor["end"]
        kw["limit"] = (anchor["seqid"] if q.random() < 0.85 else q.choice(G.SEQIDS), s, e)
        if q.random() < 0.35:
            kw["completely_within"] = True
    if q.random() < 0.6:
        ob = q.choice(ORDER_BYS)
        kw["order_by"] = ob if isinstance(ob, str) or q.random() < 0.7 else tuple(ob)
        if q.random() < 0.45:
            kw["reverse"] = True
    elif q.random() < 0.1:
        kw["reverse"] = True  # without order_by: no order promised, same set
    fn = db.children if direction == "children" else db.parents
    try:
        got = list(fn(x, level=level, **kw))
    except Exception as ex:
        ctx.violation(case, {"why": T + "%s with query arguments raised %s" % (direction, type(ex).__name__), "error": repr(ex),
                             "x": x, "level": level, "args": kw, "order": order, "text": text})
        return False
    ctx.mon("argument-composition queries compared")
    feat = lambda y: {"featuretype": byid[y]["type"], "seqid": byid[y]["seqid"], "start": byid[y]["start"],
                      "end": byid[y]["end"], "strand": byid[y]["strand"]}
    exp = sorted(y for y in base if H.keep(feat(y), kw.get("featuretype"), kw.get("limit"), kw.get("completely_within", False)))
    ids = [f.id for f in got]
    if sorted(ids) != exp:
        ctx.violation(case, {"why": T + "%s with featuretype/limit arguments differs from the filtered model set" % direction,
                             "x": x, "level": level, "args": kw, "got": sorted(ids), "expected": exp, "order": order, "text": text})
        return False
    if exp:
        ctx.mon("argument-composition queries with a non-empty answer")
    verdict = H.order_holds([feat(y) for y in ids], kw.get("order_by"), kw.get("reverse", False))
    if verdict is False:
        ctx.violation(case, {"why": T + "%s: result is not in order_by/reverse order" % direction, "x": x, "level": level,
                             "args": kw, "got": ids, "order": order, "text": text})
        return False
    if verdict and len(ids) > 1:
        ctx.mon("ordered results (>= 2 features) checked")
    return True


# -- imports overlapping in time inside one process (threads) ---------------------------------------------------------
def judge_table(ctx, case, info, T, nodes, got_ids, rows):
    """Stored ids and relation rows (read with plain sqlite3) against the Parent graph of `nodes`; returns the model or None."""
    rel, lower, upper = model_of(nodes)
    want_ids = sorted(n["id"] for n in nodes)
    if sorted(got_ids) != want_ids:
        ctx.violation(case, dict(info, why=T + "stored features differ from the lines of ITS file",
                                 unexpected=sorted(set(got_ids) - set(want_ids))[:12], missing=sorted(set(want_ids) - set(got_ids))[:12]))
        return None
    table = set(rows)
    if len(rows) != len(table) or not (lower <= table <= upper):
        ctx.violation(case, dict(info, why=T + "relations table differs from L1 u L2 of the Parent graph of ITS file",
                                 n_missing=len(lower - table), n_unexpected=len(table - upper),
                                 missing=sorted(lower - table)[:12], unexpected=sorted(table - upper)[:12]))
        return None
    ctx.mon("relation rows compared", len(rows))
    ctx.mon("level-2 rows compared", sum(1 for r in rows if r[2] == 2))
    return rel


def judge_answers(ctx, case, info, T, rel, answers):
    """answers: [(name, x, level, [ids])] of real children()/parents() calls."""
    for name, x, level, ids in answers:
        exp = sorted((rel.children if name == "children" else rel.parents)(x, level))
        ctx.mon("children()/parents() calls compared with the model")
        if sorted(ids) != exp:
            ctx.violation(case, dict(info, why=T + "%s(x, level=%r) differs from the Parent graph of ITS file" % (name, level),
                                     x=x, got=sorted(ids)[:30], expected=exp[:30]))
            return False
        if exp:
            ctx.mon("non-empty relative sets compared")
    return True


def execute_threads(ctx, case):
    """2-4 threads, started together behind a barrier, each running create_db on its own file into its own database."""
    import threading
    import gffutils

    files = case["files"]
    k = len(files)
    graphs = [G.forest_graph(p) for p in files]
    orders = [G.order_of_spec(len(g["nodes"]), spec) for g, spec in zip(graphs, case["orders"])]
    T = "imports overlapping in time (threads): "
    for rep in range(case["repeat"]):
        srcs = [write_input(ctx, G.text_of(g, o), False) for g, o in zip(graphs, orders)]
        dbfns = [":memory:" if d == "memory" else ctx.tmp(".db") for d in case["dbs"]]
        barrier = threading.Barrier(k)
        out = [None] * k
        spans = [None] * k

        def work(i):
            import time
            res = {"error": None}
            db = None
            q = random.Random(case["qseed"] * 7 + i)
            try:
                barrier.wait(60)
                t0 = time.time()
                try:
                    db = gffutils.create_db(srcs[i], dbfns[i])
                finally:
                    spans[i] = (t0, time.time())
                # a ':memory:' database lives in the connection of this thread: it is read here
                dump = dbdump.dump_db(db)
                res["ids"] = [f["id"] for f in dump["features"]]
                res["rows"] = [tuple(r) for r in dump["relations"]]
                answers = []
                ids = [n["id"] for n in graphs[i]["nodes"]]
                for x in q.sample(ids, min(len(ids), case["nsample"])):
                    for level in LEVELS:
                        answers.append(("children", x, level, [f.id for f in db.children(x, level=level)]))
                        answers.append(("parents", x, level, [f.id for f in db.parents(x, level=level)]))
                res["answers"] = answers
            except Exception as ex:
                res["error"] = ex
            finally:
                if db is not None:
                    try:
                        db.conn.close()
                    except Exception:
                        pass
            out[i] = res

        sqltrace.reset()
        threads = [threading.Thread(target=work, args=(i,)) for i in range(k)]
        try:
            for t in threads:
                t.start()
            for t in threads:
                t.join(300)
            if any(t.is_alive() for t in threads):
                from gvmon.run import Inconclusive
                raise Inconclusive("C02 threads class: an importing thread did not finish within 300 s")
            ctx.mon("threads: rounds of 2-4 imports started together behind a barrier")
            done = [s for s in spans if s]
            overlap = len(done) >= 2 and max(s[0] for s in done) < min(s[1] for s in done)
            if overlap:
                ctx.mon("threads: rounds in which all create_db calls overlapped in time (start of the last < end of the first)")
            for v in contracts.drain():
                ctx.violation(case, dict(v, why=T + "contract: " + str(v.get("why"))))
            for i in range(k):
                res = out[i]
                info = {"round": rep, "thread": i, "of": k, "file": files[i], "database": case["dbs"][i],
                        "text": G.text_of(graphs[i], orders[i])[:400] + "... [G.text_of(G.forest_graph(file), order)]"}
                if res is None or res["error"] is not None:
                    ex = res and res["error"]
                    ctx.violation(case, dict(info, why=T + "create_db raised %s" % type(ex).__name__, error=repr(ex)))
                    return
                ctx.mon("imports")
                ctx.mon("threads: imports that ran while another import ran in the same process")
                ctx.mon("threads: lines imported", len(orders[i]))
                rel = judge_table(ctx, case, info, T, graphs[i]["nodes"], res["ids"], res["rows"])
                if rel is None:
                    return
                ctx.mon("threads: level-2 rows compared", sum(1 for r in res["rows"] if r[2] == 2))
                if not judge_answers(ctx, case, info, T, rel, res["answers"]):
                    return
                ctx.mon("threads: databases equal to the Parent graph of their own file")
                # the level-2 pairs of the OTHER files of this round: both ends stored here, not related that way here
                own = set(res["rows"])
                mine = set(res["ids"])
                for j in range(k):
                    if j != i and out[j] and out[j].get("rows"):
                        ctx.mon("threads: level-2 pairs of another thread's file over ids stored here too, confirmed absent here",
                                sum(1 for r in set(out[j]["rows"]) - own if r[2] == 2 and r[0] in mine and r[1] in mine))
        finally:
            for p in srcs + dbfns:
                if p != ":memory:" and os.path.exists(p):
                    os.unlink(p)


def account_threads(ctx, case):
    k = len(case["files"])
    ctx.classes["threads: %d imports at once" % k] += 1
    same = len({p["ns"] for p in case["files"]}) == 1
    ctx.classes["threads: files with %s" % ("the same ids and other Parent links" if same else "ids of their own")] += 1
    if "memory" in case["dbs"]:
        ctx.classes["threads: a ':memory:' target"] += 1
    if "file" in case["dbs"]:
        ctx.classes["threads: a file target"] += 1
    for i, p in enumerate(case["files"]):
        ctx.case(("threads", k, sorted(p.items()), case["orders"][i], case["dbs"][i], case["repeat"]), True,
                 cls="imports overlapping in time (one per thread and file)",
                 sample={"file": p, "order": case["orders"][i], "threads": k, "db": case["dbs"][i], "repeat": case["repeat"]})


# -- the import in a child process whose locale is not UTF-8 ----------------------------------------------------------------
CHILD = r"""
import json, os, sys, locale, sqlite3
real = sys.stderr
sys.stderr = open(os.devnull, "w")
out = {"encoding": locale.getpreferredencoding(False), "utf8_mode": sys.flags.utf8_mode, "fs": sys.getfilesystemencoding()}
try:
    import logging, warnings
    warnings.simplefilter("ignore")
    import gffutils
    logging.disable(logging.CRITICAL)
    out["gffutils"] = os.path.realpath(gffutils.__file__)
    src, dbfn = sys.argv[1], sys.argv[2]
    db = gffutils.create_db(src, dbfn)
    out["created"] = True
    db.conn.commit()
    con = sqlite3.connect(dbfn)
    out["ids"] = [r[0] for r in con.execute("SELECT id FROM features")]
    out["rows"] = [list(r) for r in con.execute("SELECT parent, child, level FROM relations")]
    con.close()
    ans = []
    for x in out["ids"]:
        for level in (1, 2, None):
            ans.append(["children", x, level, [f.id for f in db.children(x, level=level)]])
            ans.append(["parents", x, level, [f.id for f in db.parents(x, level=level)]])
    out["answers"] = ans
except BaseException as ex:
    import traceback
    out["error"] = type(ex).__name__
    out["detail"] = ascii(ex)
    out["traceback"] = ascii(traceback.format_exc()[-1500:])
sys.stdout.write(json.dumps(out))
"""
LOCALE_ENVS = {"C": {"LC_ALL": "C", "LANG": "C"}, "POSIX": {"LC_ALL": "POSIX", "LANG": "POSIX"},
               "C (LC_CTYPE only)": {"LC_CTYPE": "C", "LANG": "C"}}


def execute_locale(ctx, case):
    import subprocess
    import sys

    g = case["graph"]
    order = case["order"]
    text = G.ascii_text_of(g, order)
    nodes = g["nodes"]
    T = "import in a child process with a non-UTF-8 locale (%s): " % case["locale"]
    src = ctx.tmp(".gff3")
    dbfn = ctx.tmp(".db")
    with open(src, "wb") as fh:
        fh.write(text.encode("ascii"))
    repo = os.path.realpath(os.environ.get("GFFUTILS_REPO", "/repo"))
    env = {"PYTHONUTF8": "0", "PYTHONCOERCECLOCALE": "0", "PYTHONPATH": os.pathsep.join([repo] + [p for p in os.environ.get("PYTHONPATH", "").split(os.pathsep) if p and os.path.realpath(p) != repo]),
           "PYTHONDONTWRITEBYTECODE": "1", "PYTHONHASHSEED": "0", "PATH": os.environ.get("PATH", "/usr/bin:/bin"),
           "TMPDIR": tempfile.gettempdir(), "HOME": os.environ.get("HOME", "/tmp")}
    env.update(LOCALE_ENVS[case["locale"]])
    info = {"text": text, "order": order, "environment": dict(LOCALE_ENVS[case["locale"]], PYTHONUTF8="0", PYTHONCOERCECLOCALE="0")}
    try:
        try:
            proc = subprocess.run([sys.executable, "-c", CHILD, src, dbfn], env=env, stdout=subprocess.PIPE,
                                  stderr=subprocess.PIPE, timeout=120)
            out = __import__("json").loads(proc.stdout.decode("ascii"))
        except Exception as ex:
            from gvmon.run import Inconclusive
            raise Inconclusive("C02 locale class: the child process gave no JSON summary (%r)" % (ex,))
        ctx.mon("locale: child processes started with a C/POSIX locale and UTF-8 mode off")
        if "utf" in out["encoding"].lower().replace("-", "") or out["utf8_mode"]:
            ctx.mon("locale: child processes whose preferred encoding was UTF-8 after all (not judged)")
            ctx.skip("the child process reports a UTF-8 preferred encoding under %s" % case["locale"])
            return
        if "gffutils" in out and not out["gffutils"].startswith(repo + os.sep):
            from gvmon.run import Inconclusive
            raise Inconclusive("C02 locale class: the child imported gffutils from %s" % out["gffutils"])
        ctx.mon("locale: imports under a preferred encoding that is not UTF-8 (%s)" % out["encoding"])
        ctx.mon("locale: imports under a preferred encoding that is not UTF-8")
        if out.get("error"):
            ctx.violation(case, dict(info, why=T + ("create_db raised %s" if not out.get("created") else "reading the database raised %s") % out["error"],
                                     error=out.get("detail"), traceback=out.get("traceback"), encoding=out["encoding"]))
            return
        ctx.mon("imports")
        nonascii = {n["id"] for n in nodes if not n["id"].isascii()}
        ctx.mon("locale: stored features with an id outside ASCII (percent-encoded in an ASCII file)", len(nonascii))
        rel = judge_table(ctx, case, info, T, nodes, out["ids"], [tuple(r) for r in out["rows"]])
        if rel is None:
            return
        l2 = [r for r in out["rows"] if r[2] == 2]
        ctx.mon("locale: level-2 rows compared", len(l2))
        ctx.mon("locale: level-2 rows with an id outside ASCII compared", sum(1 for r in l2 if r[0] in nonascii or r[1] in nonascii))
        if not judge_answers(ctx, case, info, T, rel, [tuple(a) for a in out["answers"]]):
            return
        ctx.mon("locale: databases equal to the Parent graph of their file")
    finally:
        for p in (src, dbfn, dbfn + "-journal"):
            if os.path.exists(p):
                os.unlink(p)


def account_locale(ctx, case):
    g = case["graph"]
    ctx.classes["locale: " + case["locale"]] += 1
    ctx.case(("locale", G.canonical(g), case["order"], case["locale"]), True,
             cls="imports in a child process with a non-UTF-8 locale",
             sample={"locale": case["locale"], "text": G.ascii_text_of(g, case["order"])[:600]})


def classify(ctx, case):
    g = graph_of(case)
    nodes = H.resolve_ids(g["nodes"], range(len(g["nodes"])))     # the shape of the graph is the same for every order
    ids = {n["id"] for n in nodes}
    visible, lower, upper = H.gff3_triples(nodes)
    multi = any(len(n["parents"]) > 1 for n in nodes)
    lvl2 = any(lv == 2 for _, _, lv in visible)
    dang = any(p not in ids for n in nodes for p in n["parents"])
    pairs = {(p, c) for p, c, lv in visible if lv == 1}
    shortcut = any((p, c) in pairs for p, c, lv in visible if lv == 2)
    depth = 1 + max(n["layer"] for n in nodes)
    l1 = [(p, c) for p, c, lv in visible if lv == 1]
    kids = {}
    for p, c in l1:
        kids.setdefault(p, set()).add(c)
    paths = {}
    for a, b in l1:
        for c in kids.get(b, ()):
            paths[(a, c)] = paths.get((a, c), 0) + 1
    twopaths = any(v > 1 for v in paths.values())
    widest = max([len(v) for v in kids.values()] or [0])
    for cond, name in ((twopaths, "graph: two level-2 paths to one feature"), (widest > 1000, "graph: wide (> 1000 direct children)"),
                       (multi, "graph: multi-parent"), (lvl2, "graph: level-2 pairs"), (dang, "graph: dangling Parent"),
                       (shortcut, "graph: shortcut (level 1 and 2)"), (depth == 4, "graph: depth 4"),
                       (any(n["style"] == "comma" and len(n["parents"]) > 1 for n in nodes), "Parent=comma list"),
                       (any(n["style"] == "repeat" and len(n["parents"]) > 1 for n in nodes), "Parent=repeated keys")):
        if cond:
            ctx.classes[name] += 1
    ctx.classes["ids=" + case["ids"]] += 1
    klass = case.get("klass")
    if klass == "idless":
        ctx.classes["lines without ID attribute"] += 1
        texts = Counter(G.line_of(n) for n in nodes if n.get("noid"))
        twins = {t for t, k in texts.items() if k > 1}
        if twins:
            ctx.classes["lines without ID attribute: byte-identical lines"] += 1
            if any(len(n["parents"]) > 1 for n in nodes if n.get("noid") and G.line_of(n) in twins):
                ctx.classes["lines without ID attribute: byte-identical lines with >= 2 parents"] += 1
        for v in case.get("variants", ()):
            ctx.classes["lines without ID attribute: " + v] += 1
        return True
    if klass == "mixed":
        ctx.classes["mixed spelling: majority %s" % case["majority"]] += 1
        return True
    if klass == "confusable":
        ctx.classes["confusable ids: " + case["family"]] += 1
        return True
    if klass == "esc":
        for ch in case["chars"]:
            ctx.classes["escaped character in an id: " + ch] += 1
        if case.get("parts"):
            ctx.classes["escaped character in an id: another id is a part of it"] += 1
        return True
    if klass == "nfc":
        for fl in case["flavours"]:
            ctx.classes["non-NFC id: " + fl] += 1
        if case.get("twins"):
            ctx.classes["non-NFC ids: composed and decomposed spelling as two features, each with children"] += 1
        return True
    if klass == "verbose":
        ctx.classes["verbose: one file under all four values (not given / False / True / 'debug')"] += 1
        return lvl2
    if klass == "update":
        ctx.classes["update: " + case["how"]] += 1
        return lvl2
    if klass == "pragmas":
        ctx.classes["pragmas: one file under argument absent / defaults / defaults + foreign_keys=ON / drawn settings"] += 1
        if dang:
            ctx.classes["pragmas: file with a dangling Parent value"] += 1
        if any(children_first(nodes, o) for o in orders_of(case)):
            ctx.classes["pragmas: a line order with a child before its parent"] += 1
        if dang and any(children_first(nodes, o) for o in orders_of(case)):
            ctx.classes["pragmas: dangling Parent value and a child before its parent in one file"] += 1
        if case.get("split") is not None:
            ctx.classes["pragmas: judged import = create_db + FeatureDB.update"] += 1
        if case.get("reopen") and case.get("db") == "file":
            ctx.classes["pragmas: judged through FeatureDB(dbfn, pragmas=...)"] += 1
        for spec in case["pragmas"]:
            if spec != "absent":
                for k in spec["set"]:
                    ctx.classes["pragma: " + k.split(".")[-1]] += 1
                if not spec["default"]:
                    ctx.classes["pragmas: dictionary without the library's defaults"] += 1
        return dang or lvl2
    if klass == "eol":
        ctx.classes["line ends: one file under LF, CRLF%s" % (" and bare CR" if "cr" in case["eols"] else " (gzip: no bare CR)")] += 1
        ctx.classes["line ends: given " + {"path": "as a path", "string": "via from_string", "gzip": "as a gzip file (LF and CRLF only)"}[case["input"]]] += 1
        if case.get("header"):
            ctx.classes["line ends: '##gff-version 3' line in front"] += 1
        if not case.get("last", True):
            ctx.classes["line ends: last line without terminator"] += 1
        return multi or lvl2 or dang
    if klass == "history":
        for spec in case.get("prior") or ():
            ctx.classes["history: after an import failed by: " + spec["fail"]] += 1
            ctx.classes["history: after a failed import" + (" of a file with the same ids and other Parent links" if spec["same_ids"] else " of an unrelated file")] += 1
        if case.get("nested"):
            ctx.classes["history: a transform runs a second create_db (two creators alive at once)"] += 1
        if case.get("split") is not None:
            ctx.classes["history: judged import = create_db + FeatureDB.update"] += 1
        return True
    return multi or lvl2 or dang


def children_first(nodes, order):
    at = {i: k for k, i in enumerate(order)}
    pos = {nodes[i]["id"]: k for k, i in enumerate(order) if not nodes[i].get("noid")}
    return any(p in pos and pos[p] > at[j] for j, n in enumerate(nodes) for p in n["parents"])


def account(ctx, case):
    nontrivial = classify(ctx, case)
    g = graph_of(case)
    if case["kind"] == "wide":
        for spec in case["orders"]:
            ctx.case(("wide", sorted(case["wide"].items()), spec), nontrivial, cls="line orders imported (wide graphs)",
                     sample={"wide": case["wide"], "order": spec})
        return
    canon = G.canonical(g)
    klass = case.get("klass")
    cls = {None: "line orders imported", "idless": "line orders imported (lines without ID attribute)",
           "mixed": "line orders imported (mixed spelling of several parents)",
           "confusable": "line orders imported (look-alike ids)",
           "nfc": "line orders imported (ids not in Unicode normal form C)",
           "esc": "line orders imported (ids with characters that GFF3 writes percent-encoded)",
           "verbose": "imports (line order x verbose value)",
           "update": "imports (line order x verbose value; create_db + FeatureDB.update)",
           "history": "imports judged after a failed import / around a nested import",
           "pragmas": "imports (line order x pragmas setting)",
           "eol": "imports (line order x line terminator)"}[klass]
    extra = G.spelling(g) if klass == "mixed" else None
    if klass in ("pragmas", "eol"):
        for oi, order, verbose, var in runs_of(case):
            if children_first(g["nodes"], order):
                ctx.classes["order=children first"] += 1
            how = [case.get("input"), case.get("db"), case.get("split"), bool(case.get("reopen")), bool(case.get("header")), case.get("last", True)]
            ctx.case((canon, order, klass, repr(var["pragmas"]), var["eol"], repr(how)), nontrivial, cls=cls,
                     sample={"pragmas": var["pragmas"], "line_terminator": var["eol"], "input": case.get("input"), "order": order,
                             "split": case.get("split"), "text": G.text_of(g, order, var["eol"], case.get("last", True), bool(case.get("header")))[:500]})
        return
    if klass in ("verbose", "update", "history"):
        # the process history is part of what makes the case distinct
        hist = [[sp["fail"], sp["text"], sp["at"], sp["via"]] for sp in case.get("prior") or ()]
        if case.get("nested"):
            hist.append(["nested", G.text_of(case["nested"]["graph"], range(len(case["nested"]["graph"]["nodes"]))), case["nested"]["at"]])
        for oi, order, verbose, _var in runs_of(case):
            ctx.case((canon, order, case["ids"], repr(verbose), case.get("split"), repr(hist)), nontrivial, cls=cls,
                     sample={"verbose": verbose, "split": case.get("split"), "order": order, "text": G.text_of(g, order)[:500],
                             "history": [h[:3] for h in hist]})
        return
    for order in orders_of(case):
        if children_first(g["nodes"], order):
            ctx.classes["order=children first"] += 1
        ctx.case((canon, order, case["ids"], g.get("edge"), repr(extra)), nontrivial, cls=cls,
                 sample={"ids": case["ids"], "order": order, "text": G.text_of(g, order)[:700]})


def minimal_hostile(gene_id, flavour):
    def node(i, nid, ft, parents):
        return {"id": nid, "type": ft, "seqid": "chr1", "start": 1, "end": 9, "strand": "+", "layer": i, "parents": parents,
                "style": "comma", "idpos": "first", "name": None}
    g = {"nodes": [node(0, gene_id, "gene", []), node(1, "b", "mRNA", [gene_id]), node(2, "c", "exon", ["b"])], "edge": "pct"}
    return {"kind": "graph", "ids": "hostile", "flavours": [flavour], "graph": g, "qseed": 1, "orders": [[0, 1, 2]],
            "nqueries": 2, "db": "memory", "input": "path"}


def run(ctx):
    rng = ctx.rng
    thorough = ctx.tier == "thorough"
    # 0. wide graphs: one feature with more than 1000 direct children (about 1 s per import)
    for _ in range(ctx.budget(4, 16)):
        case = {"kind": "wide", "ids": "word", "wide": G.wide_params(rng), "qseed": rng.randrange(10 ** 9),
                "orders": [["forward"], rng.choice([["reverse"], ["shuffle", rng.randrange(10 ** 6)]])],
                "nqueries": 6, "db": "file" if rng.random() < 0.25 else "memory", "input": "path"}
        execute(ctx, case)
        account(ctx, case)
    # 1. word-like ids (first: its violations are reported before those of the hostile class)
    for i in range(ctx.budget(620, 9000)):
        g = G.graph(rng)
        n = len(g["nodes"])
        every = n > 1 and (n <= 5 or (n == 6 and i % 16 == 0)) if thorough else (1 < n <= 5 and i % 6 == 0)
        case = {"kind": "graph", "ids": "word", "graph": g, "qseed": rng.randrange(10 ** 9),
                "orders": "all" if every else G.sample_orders(rng, n, 4),
                "nqueries": 3 if every else 8,
                "db": "file" if rng.random() < 0.15 else "memory", "input": "string" if rng.random() < 0.15 else "path"}
        if every:
            ctx.classes["graphs imported under every permutation of their lines"] += 1
        execute(ctx, case)
        account(ctx, case)
    # 2. hostile ids (separate class; DESIGN F-C02-1): two minimal chains gene -> mRNA -> exon first, then random graphs
    if ctx.shard == 0:
        for gid, fl in ((" a", "leading blank"), ("a\tx", "escaped TAB inside")):
            case = minimal_hostile(gid, fl)
            ctx.classes["hostile id: " + fl] += 1
            execute(ctx, case)
            account(ctx, case)
    for _ in range(ctx.budget(240, 3000)):
        g = G.graph(rng, max_nodes=8)
        flavours = G.make_hostile(rng, g)
        if not flavours:
            continue
        n = len(g["nodes"])
        case = {"kind": "graph", "ids": "hostile", "flavours": flavours, "graph": g, "qseed": rng.randrange(10 ** 9),
                "orders": G.sample_orders(rng, n, 2), "nqueries": 4, "db": "memory", "input": "path"}
        for fl in flavours:
            ctx.classes["hostile id: " + fl] += 1
        execute(ctx, case)
        account(ctx, case)
    # 2b. ids holding a character that GFF3 writes percent-encoded: EVERY ASCII control character and ; = & , % in turn, always in
    #     the id of a feature with grandparents (the enumeration is partitioned across the shards)
    for r in range(6 if thorough else 2):
        for i, ch in enumerate(ESCAPED_CHARS):
            if not ctx.mine(i + r) or ch in ESCAPED_EXCLUDED:
                continue
            for _ in range(60):
                g = G.graph(rng, max_nodes=9)
                made = make_escaped(rng, g, ch)
                if made:
                    break
            else:
                ctx.mon("generator: no graph with a level-2 pair drawn (not imported)")
                continue
            n = len(g["nodes"])
            case = {"kind": "graph", "klass": "esc", "ids": "escaped character", "chars": [uname(ch)], "parts": made["parts"],
                    "graph": g, "qseed": rng.randrange(10 ** 9), "orders": G.sample_orders(rng, n, rng.choice([2, 3])),
                    "nqueries": 3, "db": "file" if rng.random() < 0.15 else "memory",
                    "input": "string" if rng.random() < 0.2 else "path"}
            execute(ctx, case)
            account(ctx, case)
    # 3. lines without an ID attribute, several of them byte-identical
    for i in range(ctx.budget(140, 2400)):
        g = G.graph(rng, max_nodes=10)
        variants = G.make_idless(rng, g)
        if not variants:
            ctx.mon("generator: graphs without a line that could lose its ID (not imported)")
            continue
        n = len(g["nodes"])
        every = n <= 5 and (thorough or i % 4 == 0)
        case = {"kind": "graph", "klass": "idless", "ids": "word", "variants": sorted(set(variants)), "graph": g,
                "qseed": rng.randrange(10 ** 9), "orders": "all" if every else G.sample_orders(rng, n, 3),
                "nqueries": 3 if every else 5, "db": "file" if rng.random() < 0.15 else "memory",
                "input": "string" if rng.random() < 0.15 else "path"}
        execute(ctx, case)
        account(ctx, case)
    # 4. both spellings of several parents in one file (repeated keys / comma list), either one in the majority
    for i in range(ctx.budget(100, 2000)):
        g = G.graph(rng)
        majority = "repeat" if i % 4 else "comma"
        if not G.make_mixed(rng, g, majority):
            ctx.mon("generator: graphs in which no line could get two parents (not imported)")
            continue
        n = len(g["nodes"])
        case = {"kind": "graph", "klass": "mixed", "majority": majority, "ids": "word", "graph": g,
                "qseed": rng.randrange(10 ** 9), "orders": G.sample_orders(rng, n, 3), "nqueries": 3,
                "db": "memory", "input": "string" if rng.random() < 0.15 else "path"}
        execute(ctx, case)
        account(ctx, case)
    # 5. look-alike ids: letter case only, numeric-looking, SQL wildcard characters
    for _ in range(ctx.budget(100, 2000)):
        g = G.graph(rng)
        fam = G.make_confusable(rng, g)
        if not fam:
            continue
        n = len(g["nodes"])
        case = {"kind": "graph", "klass": "confusable", "family": fam[0], "ids": "confusable", "graph": g,
                "qseed": rng.randrange(10 ** 9), "orders": G.sample_orders(rng, n, 3), "nqueries": 4,
                "db": "file" if rng.random() < 0.15 else "memory", "input": "path"}
        ctx.mon("look-alike ids: ids / Parent values renamed within one family", fam[1])
        execute(ctx, case)
        account(ctx, case)
    # 6. the verbose argument: one file, one line order (parents first / children first / random), all four values (in a drawn sequence: the logger level is global)
    for _ in range(ctx.budget(60, 1200)):
        g = G.graph(rng)
        n = len(g["nodes"])
        verboses = list(G.VERBOSES)
        rng.shuffle(verboses)
        case = {"kind": "graph", "klass": "verbose", "ids": "word", "graph": g, "qseed": rng.randrange(10 ** 9),
                "orders": [rng.choice(G.sample_orders(rng, n, 3))], "verboses": verboses, "nqueries": 2,
                "db": "file" if rng.random() < 0.15 else "memory", "input": "string" if rng.random() < 0.15 else "path"}
        execute(ctx, case)
        account(ctx, case)
    # 7. FeatureDB.update under every verbose value: the lines of layer >= 2 are added under the stored layers 0-1
    #    ("third level"), or the file is cut anywhere in any order ("random cut")
    for i in range(ctx.budget(80, 1600)):
        g = G.graph(rng)
        for _ in range(6):
            if i % 5 >= 2 and G.third_level_split(g) is None:
                g = G.graph(rng)
        n = len(g["nodes"])
        if n < 2:
            ctx.mon("generator: single-line graphs (nothing to add by update; not imported)")
            continue
        k = G.third_level_split(g) if i % 5 >= 2 else None
        if k is not None:
            head, tail = list(range(k)), list(range(k, n))
            rng.shuffle(head)
            rng.shuffle(tail)
            order, how = head + tail, "third level"
        else:
            order = list(range(n))
            rng.shuffle(order)
            k, how = rng.randrange(1, n), "random cut"
        verboses = list(G.VERBOSES)
        rng.shuffle(verboses)
        case = {"kind": "graph", "klass": "update", "how": how, "ids": "word", "graph": g, "qseed": rng.randrange(10 ** 9),
                "orders": [order], "split": k, "verboses": verboses, "nqueries": 2,
                "db": "file" if rng.random() < 0.15 else "memory", "input": "string" if rng.random() < 0.15 else "path"}
        execute(ctx, case)
        account(ctx, case)
    # 8. process history: the judged import follows imports that failed half-way / has a second import running inside
    for i in range(ctx.budget(110, 2200)):
        g = G.graph(rng)
        n = len(g["nodes"])
        if n < 2:
            continue
        case = {"kind": "graph", "klass": "history", "ids": "word", "graph": g, "qseed": rng.randrange(10 ** 9),
                "orders": G.sample_orders(rng, n, 2), "verbose": rng.choice(G.VERBOSES), "nqueries": 2,
                "db": "file" if rng.random() < 0.15 else "memory", "input": "string" if rng.random() < 0.15 else "path"}
        if i % 3 != 2:
            prior = [G.failing_prior(rng, g) for _ in range(rng.choice([1, 1, 2]))]
            case["prior"] = [sp for sp in prior if sp]
        if i % 3 == 2 or rng.random() < 0.15:
            case["nested"] = G.nested_spec(rng, g)
        if not case.get("prior") and not case.get("nested"):
            ctx.mon("generator: no failing file could be made (not imported)")
            continue
        if rng.random() < 0.2:
            order = list(range(n))
            rng.shuffle(order)
            case.update(orders=[order], split=rng.randrange(1, n))
        execute(ctx, case)
        account(ctx, case)
    # 9. the documented pragmas argument: one file (3 of 4 with a dangling Parent value), parents first / children first / random,
    #    under argument absent, the defaults given explicitly, defaults + foreign_keys='ON' and 1-2 drawn settings
    for i in range(ctx.budget(64, 1300)):
        g = G.graph(rng)
        for _ in range(10):
            ids = {n["id"] for n in g["nodes"]}
            if i % 4 and not any(p not in ids for n in g["nodes"] for p in n["parents"]):
                g = G.graph(rng)
        n = len(g["nodes"])
        case = {"kind": "graph", "klass": "pragmas", "ids": "word", "graph": g, "qseed": rng.randrange(10 ** 9),
                "orders": G.sample_orders(rng, n, 3)[-2:] if i % 3 else G.sample_orders(rng, n, 2), "pragmas": G.pragma_specs(rng),
                "nqueries": 2, "db": "file" if rng.random() < 0.3 else "memory", "reopen": rng.random() < 0.6,
                "input": "string" if rng.random() < 0.15 else "path"}
        if n >= 2 and rng.random() < 0.2:
            order = list(range(n))
            rng.shuffle(order)
            case.update(orders=[order], split=rng.randrange(1, n))
        execute(ctx, case)
        account(ctx, case)
    # 10. line terminators: one file written with LF, CRLF and bare CR line ends (in a drawn sequence), given as a path, via
    #     from_string, or gzip-compressed (then LF and CRLF only)
    for i in range(ctx.budget(64, 1300)):
        g = G.graph(rng)
        n = len(g["nodes"])
        how = ("path", "string", "path", "gzip")[i % 4]
        eols = ["lf", "crlf"] if how == "gzip" else ["lf", "crlf", "cr"]
        rng.shuffle(eols)
        case = {"kind": "graph", "klass": "eol", "ids": "word", "graph": g, "qseed": rng.randrange(10 ** 9),
                "orders": G.sample_orders(rng, n, 3)[-2:] if i % 2 else G.sample_orders(rng, n, 2), "eols": eols,
                "header": rng.random() < 0.35, "last": rng.random() < 0.75, "nqueries": 2,
                "db": "file" if rng.random() < 0.15 else "memory", "input": how}
        execute(ctx, case)
        account(ctx, case)
    # 11. ids (and the Parent values naming them) that are not in Unicode normal form C; both spellings of one name as two features
    for i in range(ctx.budget(72, 1600)):
        g = G.graph(rng, max_nodes=10)
        for _ in range(6):
            if len(g["nodes"]) < 2 or not any(n["parents"] for n in g["nodes"]):
                g = G.graph(rng, max_nodes=10)
        made = G.make_nonnfc(rng, g, twins=bool(i % 2))
        if not made:
            ctx.mon("generator: graphs in which no id could be renamed (not imported)")
            continue
        n = len(g["nodes"])
        case = {"kind": "graph", "klass": "nfc", "ids": "non-NFC", "flavours": made["flavours"], "twins": made["twins"], "graph": g,
                "qseed": rng.randrange(10 ** 9), "orders": G.sample_orders(rng, n, 3), "nqueries": 3,
                "db": "file" if rng.random() < 0.15 else "memory", "input": "string" if rng.random() < 0.2 else "path"}
        execute(ctx, case)
        account(ctx, case)
    # 12. imports overlapping in time inside one process: 2-4 threads behind a barrier, each with its own file and database
    for i in range(ctx.budget(8, 64)):
        k = rng.choice([2, 2, 3, 4])
        ns = "f%d" % rng.randrange(1000) if i % 2 == 0 else None      # every other case: the SAME ids with other Parent links
        files = [G.forest_params(rng, ns) for _ in range(k)]
        case = {"kind": "threads", "ids": "word", "files": files, "qseed": rng.randrange(10 ** 9), "nsample": 12,
                "orders": [rng.choice([["forward"], ["reverse"], ["shuffle", rng.randrange(10 ** 6)]]) for _ in range(k)],
                "dbs": [rng.choice(["memory", "file"]) for _ in range(k)], "repeat": 3 if thorough else 2}
        execute(ctx, case)
        account_threads(ctx, case)
    # 13. the import in a child process with a C / POSIX locale (UTF-8 mode off) of an ASCII-only file whose ids are
    #     percent-encoded non-ASCII text, three or more levels
    for i in range(ctx.budget(4, 48)):
        for _ in range(200):
            g = G.graph(rng)
            if H.Relatives(*reversed((lambda n: ([x["id"] for x in n], H.gff3_triples(n)[0]))(g["nodes"]))).n_level2() \
                    and G.make_nonascii(rng, g) >= 2:
                break
        else:
            ctx.mon("generator: no graph with level-2 pairs and non-ASCII ids drawn (not imported)")
            continue
        n = len(g["nodes"])
        case = {"kind": "locale", "ids": "non-ASCII, percent-encoded", "graph": g, "order": rng.choice(G.sample_orders(rng, n, 3)),
                "locale": list(LOCALE_ENVS)[i % len(LOCALE_ENVS)] if i % 4 != 3 else "C"}
        execute(ctx, case)
        account_locale(ctx, case)
    ctx.mon("make_query contract evaluations", contracts.EVALS["helpers.make_query"])


MANIFEST = {
    "technique": "generated Parent graphs x line orders -> real create_db; children()/parents()/relations table vs reference graph model",
    "text": "Each generated GFF3 graph is imported by the real create_db under several line orders (all permutations for small "
            "graphs). For every stored feature and level in {1, 2, None} the ids returned by the real children() and parents() "
            "are compared as multisets with a reference model of the Parent graph (level 2 = composition of two edges), so "
            "duplicates, missing second parents, wrong join direction and self-relatives are seen; featuretype, limit, "
            "order_by and reverse are composed with a brute-force filter; iter_by_parent_childs is compared with [parent] + "
            "children; the relations table is read with plain sqlite3 and must be L1 u L2; all orders of a graph must give "
            "the same relation set. A 'wide' class puts more than 1000 direct children under one feature, the last of them with "
            "children of their own, and queries every feature. On every imported database two or more children()/parents() "
            "generators are kept alive at once (nested loops, zip-like round robin, random schedules); each must yield what "
            "the same call yields when consumed alone and what the model says. Three more classes: lines without ID attribute "
            "(stored under '<featuretype>_<n>'), several byte-identical under the same parents - each is a stored feature and "
            "must come back once at every level; files mixing repeated-key and comma-list spelling of several parents with "
            "either one deciding the inferred dialect; ids that differ only in letter case, look numeric or are made of SQL "
            "wildcard characters. Three classes vary the circumstances rather than the file: each file is imported with verbose not "
            "given / False / True / 'debug' (identical relations demanded); the deeper layers are added by FeatureDB.update under "
            "each verbose value; and the judged import runs right after one or two imports that were built to fail half-way in the "
            "same process (duplicate ID, malformed line, raising transform / id_spec; mostly the SAME ids with other Parent links) or "
            "with a second create_db running inside its transform - the judged database (and the inner one) must be exactly the "
            "Parent graph of its own file, and the pairs the failed import had read are counted as confirmed absent. "
            "Two more classes vary the configuration and the byte form of the file: every file (most with a dangling Parent value, "
            "in orders with children before parents) is imported with the documented pragmas argument absent, equal to the "
            "defaults, with foreign_keys='ON' added and with other result-neutral settings, on ':memory:' and file databases, the "
            "latter also judged through a new FeatureDB(dbfn, pragmas=...); and every file is written with LF, CRLF and bare CR "
            "line ends and given as a path, via from_string or gzip-compressed (LF/CRLF). All imports of one file must give the "
            "model's relations and identical relation sets. A last class renames ids and the Parent values naming them to texts "
            "that are not in Unicode normal form C (letter + combining mark, conjoining jamo, ANGSTROM / OHM / KELVIN SIGN) and lets "
            "one feature with children exist in both spellings as two features: stored ids and all relatives are expected "
            "code point for code point as in the input text. "
            "Held = no executed import disagreed.",
    "note": "Trusted: gvmon/models/hierarchy.py. The hostile-id class (blanks at the ends, U+0085/U+00A0, escaped TAB/LF) is "
            "kept apart: its violations are prefixed 'hostile-id class:'. update() is exercised only as 'more GFF3 lines with new ids'; "
            "other update()/delete() histories are C10's. Two more classes vary the process: 2-4 create_db calls run at the same time in "
            "threads of one process (own file, own database each; every other case all files share their ids and differ in the links), "
            "and the import runs in a child process with a C/POSIX locale and UTF-8 mode off on an ASCII-only file whose ids are "
            "percent-encoded non-ASCII text; every database must be the Parent graph of its own file.",
}
