"""
C16  merge() computes the interval union and partitions its inputs; merge_all; children_bp.

Model comparison: the real FeatureDB.merge is run on start-ordered interval multisets (exhaustive over small ones,
random beyond) under criteria lists described as data; the outputs are mapped back to the input objects by identity and
compared with the single-pass reference model of gvmon/models/c16_merge.py and, under the default criteria, with an
independent position-set union.  The same objects (and the objects merge() yielded) are merged again.  merge_all is
judged on an independent content dump of the database, children_bp against summed lengths / union sizes.
"""
import itertools
import os
import re
from collections import Counter

from gvmon import dbdump
from gvmon.gen import c16_gen as G
from gvmon.models import c16_merge as M
from gvmon.monitors import contracts, sqltrace

RULE = ("merge: every multiset of <= 3 (quick) / <= 4 (thorough) of the 36 intervals on positions 1..8, start-ordered with "
        "equal-start ties in ascending-end and descending-end order, each run (1) with uniform seqid/strand/type under the "
        "default criteria, (2) with mixed labels grouped by (seqid, strand, type) under the default criteria, (3) with "
        "uniform or mixed labels in plain start order under a random criteria list drawn from every shipped criterion, "
        "thresholds 0..5 and five reflexive custom predicates; plus random lists of 1..12 intervals as Feature objects or "
        "read from a GFF3 database; each followed by merging the same objects again (same and other criteria) and by "
        "merging the yielded objects; merge_all on random GFF3 databases x tie-insensitive criteria x exclude_components x "
        "featuretype groups; children_bp on gene/transcript/exon databases (exons listing parents of one or several levels, "
        "so that a child is related to the queried gene at levels 1 and 2 at once); shaped lists / databases: a long "
        "interval followed by shorter ones inside it that overlap, touch or lie detached from their predecessor, uniform or "
        "with inner features on another seqid / strand / type, under the default criteria, exact_coordinates_only, custom and "
        "random criteria, through merge() and merge_all (no ties on the merge order, every criterion); merge_criteria handed "
        "over as list, tuple, set, generator expression, iter(list), itertools.chain or (one criterion) the bare callable, to "
        "merge(), merge_all() and children_bp(); inputs in which 1..3 features occur two or three times IDENTICAL in all nine "
        "columns and attributes (Feature objects; database lines without ID, which receive generated ids; lines repeating an ID "
        "loaded with merge_strategy='create_unique'), each copy an input of its own, through merge() (partition by object "
        "identity and by feature id), merge_all() (a relation / a deletion for each copy) and children_bp(); merge_criteria as "
        "an EMPTY list / tuple (no criterion: one run over the whole input) through merge(), children_bp(merge=True) and "
        "merge_all() on one gapped gene/transcript/exon database, compared with the model and with each other; merge_all with "
        "2..3 featuretype groups that each hold runs of their own, under criteria that differ from the default ones in effect, "
        "handed over as list, tuple, set or single callable; inputs whose FRAME column (8th) varies inside the runs: 1..3 "
        "(seqid, strand, type) groups on '+' / '-' / '.', each 2..7 CDS / exon pieces that overlap (55%), touch or leave a gap, "
        "frames cycling 0/2/1, random over {0,1,2,.}, constant with a late change, '.' alternating with a digit, or constant, "
        "as Feature objects and read from a database, under the default criteria (65%) or random ones, through merge() (+ "
        "re-merge), merge_all() (keep / exclude, with and without featuretype groups) and children_bp() on a gene whose "
        "overlapping CDS / exon children carry different frames; (regression class) merge_all(exclude_components=True) with 2..3 "
        "featuretype groups, every group holding overlapping series of its own (multi-member runs in groups other than the "
        "last), 70% of the databases with a 'locus' parent outside every group so that the members hold relation rows, default "
        "and non-default criteria as list / tuple / set / callable; two-stage merges: start-ordered lists of one seqid / type in "
        "2..4 clusters of 1..4 features chained on one strand, consecutive clusters mostly on different strands and overlapping, "
        "touching or 2..6 bases apart, merged per strand first (default criteria, or threshold 0 / 1), then the objects that call "
        "yielded - multi-member outputs with their children and singletons -, mixed in start order with 0..2 new Feature objects, "
        "merged again ignoring the strand or with a wider reach (threshold 2..6), as Feature objects (75%) or read from a "
        "database, the second stage repeated on the same objects; ONE very long run per run (one shard of four): 1000..1100 "
        "features of one seqid / strand / type, each beginning inside its predecessor or on the base after it, plus a short run, "
        "a singleton, features on another strand / seqid / type over the same coordinates and a 'locus' parent named by 80% of "
        "the features, file order shuffled, through merge_all(exclude_components=True) and (=False); 'pattern characters': "
        "databases whose featuretypes (half of them: seqids too) are drawn from CDS[partial], exon*, match?, a%b, x_y, [a-z], "
        "exon[12], CDS[!p], e.on, ex+on, a|b, x_, (exon), ex{2}, ^exon$ and whose ids have the shape <featuretype>_<n> (explicit "
        "IDs numbered 1, 2, 3 ... per featuretype, with holes, or from 2 / 3 on; or lines without ID, which gffutils keys that way), "
        "through merge() (default and random criteria, re-merges) and merge_all(exclude_components=False, with and without one "
        "featuretype group per type), plus plain ids and a SECOND merge_all in a new session (reopened file / new handle) on the "
        "database the first one left behind: every id handed out is fresh and distinct, merge_all stores without error; 'non-bool "
        "criteria': criteria lists (default, random, shaped, 40% with an extra reflexive custom predicate) in which >= 1 criterion - "
        "shipped or custom - answers 'yes' / 'no' as 'x' / None, 'yes' / '', [0] / [], 1 / 0, 2.5 / 0.0, (0,) / (), a match "
        "object / None, or True / a missing return, through merge() (objects and database, re-merges), merge_all() (no ties on the "
        "merge order, or tie-insensitive criteria) and children_bp(merge=True) (children with distinct starts), judged against the "
        "single-pass model with the answers reduced by bool(). non-trivial = the model has >= 1 multi-member "
        "run and >= 1 singleton (two-stage merges: a multi-member output of the first stage opens a multi-member run of the second); "
        "distinct = distinct (features, criteria, follow-up) tuples.  'comma' cases: start-ordered lists of 1..3 clusters whose first "
        "feature lies on a seqid that literally holds a comma ('ctg,7', 'chr1,chr2', 'a,b', 'sc,1,x', 'contig_12,len=4003', 'b,a', "
        "'7,ctg') and whose 1..5 followers begin inside the cluster (75%), on the base after it or detached, on a seqid equal to one "
        "of the comma-separated PARTS ('7', 'ctg'; 70%), on the comma seqid itself (at most one), on the reversed join or an unrelated "
        "seqid, same strand / type in 75% of the clusters; default criteria (75%) or seqid + overlap_end_threshold 0..3; Feature "
        "objects (60%) or read from a database; merged again (same objects same / other criteria, yielded objects when no merged "
        "output carries a comma-joined seqid).  'hashed' cases: random / grouped / shaped lists (objects or database; default criteria "
        "60%, random otherwise) with >= 1 multi-member run whose input objects - all (40%), only the first members of the multi-member "
        "runs (25%), only one later member of each (20%), a random subset - are hashed BEFORE merge(): list(dict.fromkeys(features + "
        "features[:2])) (the de-duplicated list is the input), set(features) kept alive, dict keys, hash(); 80% merged again (same "
        "objects same / other criteria; the yielded objects, put into a set first, as inputs of a further merge)")
REQUIRED = ["merge calls", "outputs mapped to inputs by identity", "multi-member runs compared", "singleton outputs compared",
            "position-set union comparisons (default criteria)", "merged ids checked", "calls yielding >= 2 merged outputs",
            "re-merge calls: same objects, same criteria", "re-merge calls: same objects, other criteria",
            "re-merge calls: objects yielded by merge()", "input str() comparisons", "database dumps compared",
            "custom criterion evaluations", "merge_all calls", "merge_all: new features compared",
            "merge_all: level-1 relations compared", "merge_all: deleted members checked", "children_bp calls",
            "children_bp: merge=True compared with union size", "nested members compared", "adjacent members compared",
            "children_bp calls with a child related to the queried feature at several levels: merge=False",
            "children_bp calls with a child related to the queried feature at several levels: merge=True",
            "merge: merge_criteria passed as tuple", "merge: merge_criteria passed as set",
            "merge: merge_criteria passed as generator", "merge: merge_criteria passed as iter",
            "merge: merge_criteria passed as chain", "merge: merge_criteria passed as callable",
            "merge_all: merge_criteria passed as generator", "merge_all: merge_criteria passed as callable",
            "children_bp: merge_criteria passed as generator", "children_bp: merge_criteria passed as callable",
            "members nested in an earlier member that end after their predecessor",
            "members nested in an earlier member that begin beyond their predecessor",
            "rejected features lying inside the current run's extent",
            "rejected inside the run's extent by: strand", "rejected inside the run's extent by: seqid",
            "rejected inside the run's extent by: feature_type", "rejected inside the run's extent by: exact_coordinates_only",
            "rejected inside the run's extent by: a custom criterion",
            "merge_all: rejected features lying inside the current run's extent",
            "partitions compared by feature id",
            "merge calls on inputs holding features identical in all columns and attributes",
            "merge calls on inputs holding identical features read from a database",
            "identical neighbours (all columns and attributes) that are children of the same output",
            "identical neighbours (all columns and attributes) that end up in different outputs",
            "merge_all: identical features (all columns and attributes) that are members of runs: each deleted",
            "merge_all: identical features (all columns and attributes) that are members of runs: each related to the new feature at level 1",
            "children_bp calls over children holding features identical in all columns and attributes: merge=False",
            "children_bp calls over children holding features identical in all columns and attributes: merge=True",
            "merge: EMPTY merge_criteria passed as list", "merge: EMPTY merge_criteria passed as tuple",
            "merge_all: EMPTY merge_criteria passed as list", "merge_all: EMPTY merge_criteria passed as tuple",
            "children_bp: EMPTY merge_criteria passed as list", "children_bp: EMPTY merge_criteria passed as tuple",
            "empty merge_criteria: inputs that fall into several runs under the default criteria",
            "empty merge_criteria: merge() calls compared with the one-run model",
            "empty merge_criteria: children_bp(merge=True) calls compared with the one-run model",
            "empty merge_criteria: merge_all() calls compared with the one-run model",
            "empty merge_criteria: children_bp(merge=True) compared with the lengths of merge()'s outputs",
            "empty merge_criteria: merge_all()'s new features compared with merge()'s outputs",
            "merge_all calls with several featuretype groups: merge_criteria passed as list",
            "merge_all calls with several featuretype groups: merge_criteria passed as tuple",
            "merge_all calls with several featuretype groups: merge_criteria passed as set",
            "merge_all calls with several featuretype groups: merge_criteria passed as callable",
            "merge_all: featuretype groups after the first holding multi-member runs",
            "merge_all: groups after the first whose runs differ from the default ones, merge_criteria passed as list",
            "merge_all: groups after the first whose runs differ from the default ones, merge_criteria passed as tuple",
            "merge_all: groups after the first whose runs differ from the default ones, merge_criteria passed as set",
            "merge_all: groups after the first whose runs differ from the default ones, merge_criteria passed as callable",
            "merged outputs whose strand is compared with the common strand of their children (default criteria)",
            "frames: multi-member runs compared whose members carry different frames",
            "frames: such runs mixing '.' with a digit",
            "frames: such runs with further members after the first frame change, strand '+'",
            "frames: such runs with further members after the first frame change, strand '-'",
            "frames: such runs with further members after the first frame change, strand '.'",
            "frames: such runs with further members after the first frame change (features read from a database)",
            "merge_all: runs whose members carry different frames: new feature and deletions compared",
            "merge_all: runs whose members carry different frames: new feature and level-1 relations compared",
            "merge_all: such runs with further members after the first frame change",
            "merge_all: seqid / strand / type of the new features compared with their members' (default criteria)",
            "children_bp: merge=True over overlapping children carrying different frames compared with union size",
            "merge_all exclude_components, several groups: calls with multi-member runs in a group other than the last",
            "merge_all exclude_components, several groups: calls with multi-member runs in two or more groups",
            "merge_all exclude_components, several groups: members of runs in a group other than the last, each deleted",
            "merge_all exclude_components, several groups: such members held relation rows before the call",
            "merge_all: relation rows of deleted members checked to be gone",
            "long run: merge_all(exclude_components=True) calls over one run of >= 1000 members",
            "long run: merge_all(exclude_components=False) calls over one run of >= 1000 members",
            "long run: members of such a run, each deleted",
            "long run: members at positions 998, 999, 1000, ... of the run, each deleted",
            "long run: relation rows naming a member before the call, all gone afterwards",
            "long run: members of such a run, each related to the new feature at level 1",
            "long run: members at positions 998, 999, 1000, ... of the run, each related to the new feature at level 1",
            "re-merge: second-stage merge() calls over the objects an earlier merge() yielded",
            "re-merge: second stage ignoring the strand", "re-merge: second stage with a wider reach",
            "re-merge: second-stage calls in which new features are mixed with the earlier outputs",
            "re-merge: multi-member outputs of an earlier merge() that open a multi-member run of the second stage",
            "re-merge: multi-member outputs of an earlier merge() that join a run of the second stage behind its first member",
            "re-merge: inputs of the second stage compared before / after (printed form, id, columns, children list)",
            "re-merge: the same objects merged once more: partition and extents compared with the previous result"] + \
           ["%s: ids of merged features checked whose featuretype holds LIKE / GLOB / regex characters" % w for w in ("merge()", "merge_all")] + \
           ["%s: ... while ids of the shape <featuretype>_<n> are stored, featuretype holding %s" % (w, n)
            for w in ("merge()", "merge_all") for n in ("a bracket expression", "'*'", "'?'", "'%'", "'_'", "other regex characters")] + \
           ["%s: ... <featuretype>_1 among them (what a counter starting from nothing hands out first)" % w for w in ("merge()", "merge_all")] + \
           ["second session: database reopened after the first merge_all",
            "second session: merge_all calls on a database holding the merged features of an earlier session",
            "second session: new features stored next to the merged features of the earlier session"] + \
           ["non-bool criteria: %s calls %s" % (w, t) for w in ("merge()", "merge_all()", "children_bp(merge=True)")
            for t in ("compared with the single-pass model", "in which a falsy answer other than False / 0 decides a run boundary")] + \
           ["non-bool criteria: ... answered in the style %s" % st for st in G.FALSY_NOT_EQUAL_FALSE] + \
           ["non-bool criteria: answers given in the style %s: %s" % (st, a) for st in G.NONBOOL_STYLES for a in ("yes", "no")]
REQUIRED_CLASSES = ["merge/exhaustive uniform default", "merge/exhaustive grouped default", "merge/exhaustive criteria",
                    "merge/random objects", "merge/random db", "merge_all/keep", "merge_all/exclude", "children_bp",
                    "merge/shaped objects", "merge/shaped db", "merge_all/shaped keep", "merge_all/shaped exclude",
                    "merge/identical features objects", "merge/identical features db", "merge_all/identical features keep",
                    "merge_all/identical features exclude", "children_bp/identical features", "empty criteria/list",
                    "empty criteria/tuple", "merge_all/several groups, criteria as list", "merge_all/several groups, criteria as tuple",
                    "merge_all/several groups, criteria as set", "merge_all/several groups, criteria as callable",
                    "merge/frames varying inside runs, objects", "merge/frames varying inside runs, db",
                    "merge_all/frames varying inside runs, keep", "merge_all/frames varying inside runs, exclude",
                    "children_bp/frames varying among the children", "merge_all/several groups, exclude_components",
                    "merge/outputs of an earlier merge() as inputs, objects", "merge/outputs of an earlier merge() as inputs, db",
                    "merge_all/one run of >= 1000 members, exclude", "merge_all/one run of >= 1000 members, keep",
                    "merge/pattern characters in featuretypes, ids <featuretype>_<n>",
                    "merge/pattern characters in featuretypes, ids <featuretype>_<n> (lines without ID)",
                    "merge_all/pattern characters in featuretypes, ids <featuretype>_<n>",
                    "merge_all/pattern characters in featuretypes, lines without ID",
                    "merge_all/pattern characters in featuretypes, second session",
                    "merge/criteria answering with non-bool values, objects", "merge/criteria answering with non-bool values, db",
                    "merge_all/criteria answering with non-bool values", "children_bp/criteria answering with non-bool values",
                    "merge/seqids holding a comma next to seqids equal to one of their parts",
                    "merge/input objects hashed before merge()", "merge/hashed: all", "merge/hashed: first members of runs",
                    "merge/hashed: later members of runs"]
REQUIRED += ["comma seqids: merge() calls judged on inputs whose seqids hold a comma",
             "comma seqids: such calls on features read from a database",
             "comma seqids: features on a seqid equal to one PART of the comma-holding seqid of the run they begin in, same strand and "
             "type: not joined",
             "comma seqids: such features under the default criteria",
             "comma seqids: such features after a two-member run on the comma-holding seqid",
             "comma seqids: two-member runs compared whose members share a comma-holding seqid",
             "comma seqids: multi-member runs compared on a seqid equal to a part of a comma-holding seqid in the same input",
             "hashed inputs: input objects hashed before merge()",
             "hashed inputs: the list handed to merge() is the result of list(dict.fromkeys(features + features[:2]))",
             "hashed inputs: objects yielded by merge() put into a set before they were merged again"] + \
            ["hashed inputs: %s%s" % (pre, w) for pre in ("", "merged a second time: ") for w in (
                "multi-member runs compared whose FIRST member had been hashed", "such runs with >= 3 members",
                "multi-member runs compared with a hashed LATER member (first member not hashed)",
                "hashed singletons yielded unchanged", "merge() calls judged, features read from a database",
                "merge() calls judged, features built as Feature objects")] + \
            ["hashed inputs: merge() calls judged, objects hashed through %s" % h for h in ("dict.fromkeys", "set", "dict key", "hash()")]
ASSUMPTIONS = [
    "seqids are compared as exact strings: a feature on '7' or 'ctg' never joins a run on 'ctg,7' while `seqid` is among the "
    "criteria.  NOT generated (the unchanged tree deviates there): a run that would hold THREE or more features of one "
    "comma-holding seqid - after the second member the run's seqid is 'ctg,7,ctg,7' and a third feature on 'ctg,7' is rejected, "
    "e.g. exon + ctg,7:100-200, 150-160, 155-300 gives (100-200: 2 children), (155-300) instead of one run 100-300.  The seqid a "
    "multi-member output REPORTS when its children share a comma-holding seqid is not judged ('ctg,7,ctg,7' there; counted)",
    "hashing an input Feature (set / dict key / dict.fromkeys / hash()) is an ordinary use of the object and no change to it: the "
    "statement's partition, extents, fresh ids and 'merging the same objects again gives the same result' apply as to fresh objects",
    "the shipped criteria carry no documentation beyond their names; the model re-states them as 'cur begins inside the run "
    "or within `reach` bases after it' / 'cur ends inside the run or within `reach` bases before it', with "
    "overlap_end_threshold(1) and overlap_start_threshold(0) equal to the two 'inclusive' criteria",
    "inputs are start-ordered (premise of the statement); the union clause is asserted when every (seqid, strand, type) group "
    "is contiguous and start-ordered and the criteria are the four default ones",
    "seqid / strand / featuretype / source / bin / attributes of merged outputs are not compared except that under the default "
    "criteria each output is attributed to the (seqid, strand, type) group it reports; output order is not compared",
    "merge_all: criteria restricted to lists whose partition cannot depend on the order of features that tie on the merge "
    "order (label criteria + overlap_end_*); autoincrements/meta tables and members' attributes are not compared",
    "children_bp: children tie on start only when they share the strand; merge=True is compared with the union size when "
    "children share seqid/strand/type and the criteria are the default ones, else with the single-pass model",
    "custom criteria are reflexive (true for (f, f)) as the quantifier requires",
    "merge_criteria in any iterable form (or one bare callable) means the list of its elements; the criteria are pure, so the "
    "order a set yields them in cannot matter; a one-shot iterator is handed to merge_all only with a single featuretype "
    "group (whether one iterator can serve several groups is not stated: such a combination is skipped and counted)",
    "the `multiline` argument of merge() is never passed (its semantics are not stated)",
    "features that agree in every column and attribute are still distinct inputs (distinct objects, distinct database ids); "
    "lines without ID / with a repeated ID (merge_strategy='create_unique') are stored in file order under ids of their own "
    "(checked column by column, else the case is a harness error); such inputs reach merge_all only with tie-insensitive criteria",
    "an empty merge_criteria list / tuple means 'no criterion': all([]) accepts every pair, so one run covers the whole input "
    "(per featuretype group in merge_all)",
    "merge_all with several featuretype groups: the groups are disjoint and no merged feature of an earlier group has a "
    "featuretype of a later group; a re-iterable merge_criteria (list, tuple, set, one callable) applies to every group alike",
    "the frame column takes no part in any shipped criterion: runs, extents, children_bp and merge_all's rows are the same "
    "whatever the members' frames; under the default criteria ('per seqid, strand and type') a merged output / stored new "
    "feature reports the strand (seqid, type) its members share - only a strand that differs among the children may become "
    "'.'; which frame the merged feature itself reports is not stated and not judged (counted); under other criteria lists the "
    "reported strand is only counted",
    "'deletes them' (exclude_components) includes the relation rows that name a deleted member; asserted in the regression "
    "class (several featuretype groups, members hanging under a parent outside every group) and for the one very long run, "
    "counted elsewhere",
    "objects an earlier merge() yielded are inputs like any other (the quantifier's 'previously merged feature objects'): the "
    "criteria see the columns they report; they keep printed form, id, columns and - when they become children of a later "
    "output - their own children list; one that the later call yields as a run of its own is 'yielded unchanged with no "
    "children', so an emptied children list is accepted there (counted); first stages always hold the seqid criterion (outputs "
    "with comma-joined seqids are not re-merged: statement silent)",
    "'every merge criterion accepts the pair' = every criterion answers with a true value, as in all(): None (a missing return, "
    "re.match), '', [], (), 0 and 0.0 reject, 'x', 1, [0], (0,), 2.5 and a match object accept",
    "'fresh distinct ids' holds whatever characters featuretypes, seqids and stored ids contain; featuretypes with %XX sequences "
    "or backslashes are not generated (attribute quoting is C01 / C02's domain); with ids of the shape <featuretype>_<n> in the "
    "file merge_all is called with exclude_components=False only (whether the id of a member deleted earlier in the same call "
    "may be handed out again is not stated); a second session's merge_all sees the first session's merged features as features "
    "like any other (tie-insensitive criteria, since a merged feature ties with its first member on the merge order)",
    "delete() itself is not called by this check (C10 judges it); a run of >= 1000 members reaches it through "
    "merge_all(exclude_components=True) only",
]
EXHAUSTIVE_NOTE = ("all multisets of <= 3 (quick) or <= 4 (thorough) intervals over 8 positions, both tie orders, are executed "
                   "with uniform labels under the default criteria; labellings and other criteria are sampled")
QUICK_SHARDS = 4
THOROUGH_SHARDS = 16

F161 = "merge() over objects that an earlier merge() yielded raised TypeError (unexpected keyword argument 'children')"
F162 = "the id of a merged output is already the id of a database feature"
_STATE = {"F-C16-1": 0, "F-C16-2": 0}


def classify_f161(case, detail):
    return isinstance(detail, dict) and str(detail.get("why", "")).startswith(F161)


def classify_f162(case, detail):
    return isinstance(detail, dict) and str(detail.get("why", "")).startswith(F162)


# inert unless the finding is listed with status "open" in known_findings.json
KNOWN = {"F-C16-1": classify_f161, "F-C16-2": classify_f162}
CANONICAL = {"F-C16-1": {"kind": "merge", "source": "objects", "feats": [["a", "+", "exon", 1, 2], ["a", "+", "exon", 5, 6]],
                         "criteria": list(M.DEFAULT), "again": True, "second": ["seqid"]},
             "F-C16-2": {"kind": "merge", "source": "db", "feats": [["a", "+", "exon", 1, 5], ["a", "+", "exon", 3, 9]],
                         "ids": ["exon_1", "exon_2"], "criteria": list(M.DEFAULT), "again": False}}


def setup(ctx):
    contracts.install_all()
    sqltrace.install()


def scratch_db():
    import gffutils

    if "db" not in _STATE:
        text = "a\tsrc\tgene\t1\t90\t.\t+\t.\tID=keep1\na\tsrc\texon\t5\t9\t.\t+\t.\tID=keep2;Parent=keep1\n"
        _STATE["db"] = gffutils.create_db(text, ":memory:", from_string=True)
    return _STATE["db"]


def close_db(db, dbfn):
    try:
        db.conn.close()
    except Exception:
        pass
    if dbfn != ":memory:":
        for p in (dbfn, dbfn + ".bak"):
            if os.path.exists(p):
                os.unlink(p)


def stored_ids(db, rows):
    """The database ids of the stored features in file order (= insertion order), for inputs whose lines carry no ID or
    a repeated ID; None when the stored features cannot be matched with the rows column by column."""
    ids = [row[0] for row in db.execute("SELECT id FROM features ORDER BY rowid")]
    if len(ids) != len(rows) or len(set(ids)) != len(ids):
        return None
    for i, r in zip(ids, rows):
        f = db[i]
        if [f.seqid, f.strand, f.featuretype, f.start, f.end] != list(r):
            return None
    return ids


def create_kwargs(case):
    return {"merge_strategy": "create_unique"} if case.get("dup") else {}


def model_row(r):
    return {"seqid": r[0], "strand": r[1], "featuretype": r[2], "start": r[3], "end": r[4]}


def observe(f):
    return {"seqid": f.seqid, "strand": f.strand, "featuretype": f.featuretype, "start": f.start, "end": f.end}


# -- criteria: from the data description to callables on real Feature objects ---------------------------------------------
def real_criteria(ctx, desc):
    from gffutils import merge_criteria as mc

    def counted(fn):
        def crit(acc, cur, components):
            ctx.mon("custom criterion evaluations")
            return fn(acc, cur, components)
        return crit

    out = []
    for c in desc:
        if not isinstance(c, str) and c[0] == "as":
            ctx.mon("criterion used: %s answering in the style %s" % (M.label(c), c[1]))
            out.append(answering_as(ctx, real_criteria(ctx, [c[2]])[0], c[1]))
            continue
        ctx.mon("criterion used: %s" % (c if isinstance(c, str) else c[0] if c[0] != "custom" else "custom " + c[1]))
        if isinstance(c, str):
            out.append(getattr(mc, c))
        elif c[0] == "custom":
            name, p = c[1], c[2:]
            if name == "start_within":
                out.append(counted(lambda acc, cur, comps, d=p[0]: abs(cur.start - acc.start) <= d))
            elif name == "same_start_parity":
                out.append(counted(lambda acc, cur, comps: (cur.start - acc.start) % 2 == 0))
            elif name == "max_members":
                out.append(counted(lambda acc, cur, comps, k=p[0]: len(comps) < k))
            elif name == "end_not_before_start":
                out.append(counted(lambda acc, cur, comps: cur.end >= acc.start))
            elif name == "length_within":
                out.append(counted(lambda acc, cur, comps, d=p[0]: abs((cur.end - cur.start) - (acc.end - acc.start)) <= d))
            else:
                raise ValueError(name)
        else:
            out.append(getattr(mc, c[0])(c[1]))
    return out


_MATCH = re.compile("y")
# style -> (how 'yes' is answered, how 'no' is answered); "match" and "noreturn" are built in answering_as
NONBOOL_VALUES = {"none_str": ("x", None), "empty_str": ("yes", ""), "empty_list": ([0], []), "zero_one": (1, 0),
                  "zero_float": (2.5, 0.0), "empty_tuple": ((0,), ())}


def answering_as(ctx, fn, style):
    """The criterion fn, answering 'yes' with a truthy value that is not True and 'no' with a falsy value that is not False."""
    def crit(acc, cur, components):
        yes = bool(fn(acc, cur, components))
        ctx.mon("non-bool criteria: answers given in the style %s: %s" % (style, "yes" if yes else "no"))
        if style == "match":
            return _MATCH.match("y" if yes else "n")          # a match object, or None
        if style == "noreturn":
            if yes:
                return True
            return                                              # a callback that forgets to return False
        v = NONBOOL_VALUES[style][0 if yes else 1]
        return list(v) if isinstance(v, list) else v
    return crit


def falsy_decides(model_in, desc):
    """Do the runs differ from those without the criteria that say 'no' with None / '' / [] / ()?"""
    rest = [c for c in desc if not (not isinstance(c, str) and c[0] == "as" and c[1] in G.FALSY_NOT_EQUAL_FALSE)]
    return len(rest) < len(desc) and M.single_pass(model_in, desc) != M.single_pass(model_in, rest)


def nonbool_evidence(ctx, model_in, desc, where):
    """Evidence counters (the comparison is made elsewhere): does a falsy answer that does not compare equal to False
    (None, '', [], ()) decide a run boundary, i.e. do the runs differ from those without the criteria answering that way?"""
    wrapped = [c for c in desc if not isinstance(c, str) and c[0] == "as"]
    if not wrapped:
        return False
    ctx.mon("non-bool criteria: %s calls compared with the single-pass model" % where)
    rest = [c for c in desc if not (not isinstance(c, str) and c[0] == "as" and c[1] in G.FALSY_NOT_EQUAL_FALSE)]
    if M.single_pass(model_in, desc) != M.single_pass(model_in, rest):
        ctx.mon("non-bool criteria: %s calls in which a falsy answer other than False / 0 decides a run boundary" % where)
        for c in wrapped:
            if c[1] in G.FALSY_NOT_EQUAL_FALSE and M.single_pass(model_in, desc) != M.single_pass(model_in, [x for x in desc if x is not c]):
                ctx.mon("non-bool criteria: ... answered in the style %s" % c[1])
        return True
    return False


def in_form(ctx, where, crits, form):
    """The criteria list handed over in one of the forms merge_criteria accepts."""
    if form == "callable" and len(crits) != 1:
        form = "list"
    ctx.mon("%s: merge_criteria passed as %s" % (where, form))
    if not crits:
        ctx.mon("%s: EMPTY merge_criteria passed as %s" % (where, form))
    if form == "tuple":
        return tuple(crits)
    if form == "set":
        return set(crits)
    if form == "generator":
        return (c for c in crits)
    if form == "iter":
        return iter(crits)
    if form == "chain":
        k = len(crits) // 2
        return itertools.chain(crits[:k], crits[k:])
    if form == "callable":
        return crits[0]
    return crits


def rejected_evidence(ctx, model_in, desc, prefix=""):
    rej = []
    M.single_pass(model_in, desc, rejected_inside=rej)
    for _, names in rej:
        ctx.mon(prefix + "rejected features lying inside the current run's extent")
        for nm in set(names):
            label = nm if nm in M_NAMES else "a custom criterion"
            ctx.mon(prefix + "rejected inside the run's extent by: " + label)
    return len(rej)


M_NAMES = ("seqid", "strand", "feature_type", "exact_coordinates_only", "overlap_end_inclusive", "overlap_start_inclusive",
           "overlap_any_inclusive", "overlap_end_threshold", "overlap_start_threshold", "overlap_any_threshold")


def is_default(desc):
    return sorted(map(str, desc)) == sorted(M.DEFAULT) and len(desc) == 4


# -- one call of merge() judged against the model -------------------------------------------------------------------------
def one_merge(ctx, case, db, feats, model_in, desc, step, issued, dbids):
    """Returns the list of outputs, or None when the call could not be judged further."""
    if is_default(desc) and case.get("omit_criteria"):
        kw = {}
    else:
        kw = {"merge_criteria": in_form(ctx, "merge", real_criteria(ctx, desc), case.get("form", "list"))}
    try:
        out = list(db.merge(iter(feats), **kw))
    except Exception as ex:
        if isinstance(ex, TypeError) and "children" in str(ex) and step != "first merge":
            report_f161(ctx, case, step, desc, ex)
        else:
            ctx.violation(case, {"why": "merge() raised %s (%s)" % (type(ex).__name__, step), "error": repr(ex), "criteria": desc})
        return None
    ctx.mon("merge calls")
    if step == "same objects, same criteria":
        ctx.mon("re-merge calls: same objects, same criteria")
    elif step == "same objects, other criteria":
        ctx.mon("re-merge calls: same objects, other criteria")
    elif step == "objects yielded by merge()":
        ctx.mon("re-merge calls: objects yielded by merge()")
    index = {id(f): i for i, f in enumerate(feats)}
    seen = Counter()
    got_runs = []
    merged = []

    def bad(why, **more):
        ctx.violation(case, dict(more, why="%s (%s)" % (why, step), criteria=desc,
                                 outputs=[[o.seqid, o.strand, o.featuretype, o.start, o.end, len(getattr(o, "children", ()) or ())]
                                          for o in out][:12]))
        return None

    for o in out:
        ch = getattr(o, "children", None)
        if ch:
            if id(o) in index:
                return bad("a merged output (with children) is one of the input objects")
            members = []
            for c in ch:
                if id(c) not in index:
                    return bad("a child of a merged output is not one of the input objects")
                members.append(index[id(c)])
            if len(members) < 2:
                return bad("a single-member run was not yielded as the unchanged input without children")
            merged.append((o, members))
            ctx.mon("multi-member runs compared")
        else:
            if id(o) not in index:
                return bad("an output without children is not one of the input objects")
            members = [index[id(o)]]
            ctx.mon("singleton outputs compared")
        for m in members:
            seen[m] += 1
        got_runs.append(members)
    ctx.mon("outputs mapped to inputs by identity", len(out))
    if any(seen[i] == 0 for i in range(len(feats))):
        return bad("an input is neither yielded nor a child of an output")
    if any(n > 1 for n in seen.values()):
        return bad("an input belongs to more than one output")
    in_ids = [f.id for f in feats]
    if None not in in_ids and len(set(in_ids)) == len(in_ids):
        # the same partition, by feature id: every input id once, as an unchanged output or as a child
        got_ids = Counter()
        for o in out:
            for c in (getattr(o, "children", None) or [o]):
                got_ids[c.id] += 1
        ctx.mon("partitions compared by feature id")
        if got_ids != Counter(in_ids):
            return bad("the ids of the outputs without children and of the children are not the ids of the inputs, each once",
                       missing=sorted((Counter(in_ids) - got_ids).keys())[:5], extra=sorted(map(str, (got_ids - Counter(in_ids)).keys()))[:5])
    if case.get("dup"):
        run_of = {m: k for k, r in enumerate(got_runs) for m in r}
        texts = [str(f) for f in feats]
        twins = 0
        for i in range(len(feats) - 1):
            if texts[i] == texts[i + 1]:
                twins += 1
                if run_of[i] == run_of[i + 1]:
                    ctx.mon("identical neighbours (all columns and attributes) that are children of the same output")
                else:
                    ctx.mon("identical neighbours (all columns and attributes) that end up in different outputs")
        if twins:
            ctx.mon("merge calls on inputs holding features identical in all columns and attributes")
            if case["source"] == "db":
                ctx.mon("merge calls on inputs holding identical features read from a database")
    exp_runs = M.single_pass(model_in, desc)
    if sorted(sorted(r) for r in got_runs) != sorted(sorted(r) for r in exp_runs):
        return bad("run boundaries differ from the criteria model", got=got_runs, expected=exp_runs)
    nonbool_evidence(ctx, model_in, desc, "merge()")
    for o, members in merged:
        s, e = M.extent(model_in, members)
        if (o.start, o.end) != (s, e):
            return bad("a merged output does not span min start .. max end of its children", got=[o.start, o.end], expected=[s, e])
        ms = sorted(members, key=lambda i: (model_in[i]["start"], -model_in[i]["end"]))
        for x, y in zip(ms, ms[1:]):
            if model_in[y]["end"] <= model_in[x]["end"] and model_in[y]["start"] > model_in[x]["start"]:
                ctx.mon("nested members compared")
            if model_in[y]["start"] == max(model_in[i]["end"] for i in ms[:ms.index(y)]) + 1:
                ctx.mon("adjacent members compared")
        for _, beyond in M.detached_nested_members(model_in, sorted(members)):
            ctx.mon("members nested in an earlier member that end after their predecessor")
            if beyond:
                ctx.mon("members nested in an earlier member that begin beyond their predecessor")
        strands = set(model_in[i]["strand"] for i in members)
        if is_default(desc):
            # "per seqid, strand and type": the members of a run share their strand, and the output reports that strand
            ctx.mon("merged outputs whose strand is compared with the common strand of their children (default criteria)")
            if len(strands) == 1 and o.strand != list(strands)[0]:
                return bad("a merged output does not report the strand its children share", got=o.strand, children_strand=list(strands)[0],
                           children_frames=[getattr(feats[i], "frame", None) for i in members])
        elif len(strands) == 1 and "strand" in desc:
            ctx.mon("merged outputs under other criteria holding `strand`: reported strand %s (not asserted)"
                    % ("equals the children's" if o.strand == list(strands)[0] else "differs from the children's"))
        frames = case.get("frames")
        if frames and len(frames) == len(feats) and step != "objects yielded by merge()":
            fr = [frames[i] for i in members]
            if len(set(fr)) > 1:
                sd = list(strands)[0] if len(strands) == 1 else "mixed"
                ctx.mon("frames: multi-member runs compared whose members carry different frames")
                ctx.mon("frames: such runs on strand '%s'" % sd)
                if "." in fr and len(set(fr)) > 1:
                    ctx.mon("frames: such runs mixing '.' with a digit")
                change = min(k for k in range(len(fr)) if fr[k] != fr[0])
                if change < len(fr) - 1:
                    ctx.mon("frames: such runs with further members after the first frame change")
                    ctx.mon("frames: such runs with further members after the first frame change, strand '%s'" % sd)
                    if case["source"] == "db":
                        ctx.mon("frames: such runs with further members after the first frame change (features read from a database)")
                ctx.mon("frames: frame reported by such a merged output: %r (not judged)" % (o.frame,))
        ctx.mon("merged ids checked")
        if o.id is None:
            return bad("a merged output has no id")
        if o.id in dbids:
            report_pattern(ctx, case, "F-C16-2", {"why": "%s (%s)" % (F162, step), "id": o.id, "criteria": desc})
        if o.id in issued:
            return bad("the id of a merged output is not distinct from the ids of other merged outputs", id=o.id)
        issued.add(o.id)
        special_id_evidence(ctx, "merge()", str(o.featuretype), dbids)
    if len(merged) >= 2:
        ctx.mon("calls yielding >= 2 merged outputs")
    rejected_evidence(ctx, model_in, desc)
    if is_default(desc) and M.is_grouped_start_ordered(model_in):
        ctx.mon("position-set union comparisons (default criteria)")
        got_ext = sorted((output_seqid(ctx, case, o), o.strand, o.featuretype, o.start, o.end) for o in out)
        exp_ext = M.union_extents(model_in)
        if got_ext != [tuple(x) for x in exp_ext]:
            return bad("extents differ from the position-set union per (seqid, strand, type)", got=got_ext, expected=exp_ext)
    return out


def output_seqid(ctx, case, o):
    """The seqid under which an output enters the per-(seqid, strand, type) union comparison.  Inputs whose seqid holds a
    comma ('comma' cases): the seqid a multi-member output REPORTS is not stated (the unchanged tree reports 'ctg,7,ctg,7' for
    two children on 'ctg,7'); the seqid its children share is used and the reported one only counted."""
    ch = getattr(o, "children", None)
    if case.get("comma") and ch and len(set(c.seqid for c in ch)) == 1:
        shared = ch[0].seqid
        if "," in shared:
            ctx.mon("comma seqids: merged outputs over children that share a comma-holding seqid: reported seqid %s (not judged)"
                    % ("equals it" if o.seqid == shared else "differs from it"))
        return shared
    return o.seqid


HASH_HOW = ["dict.fromkeys", "set", "dict key", "hash()"]


def hash_inputs(ctx, case, feats):
    """'hashed' cases: the input objects named by case["hashed"]["which"] (indices) are hashed the way callers do it before
    merge() sees them: de-duplicated through dict.fromkeys (the list handed to merge() is the de-duplicated one when it holds
    the same objects in the same order), collected in a set that stays alive, used as dict keys, or passed to hash().
    Returns (the list to merge, the container to keep alive)."""
    h = case["hashed"]
    chosen = [feats[i] for i in h["which"] if i < len(feats)]
    how = h["how"]
    if how == "dict.fromkeys":
        keep = dict.fromkeys(chosen + chosen[:2])
        if len(chosen) == len(feats):
            dedup = list(keep)
            if len(dedup) == len(feats) and all(x is y for x, y in zip(dedup, feats)):
                feats = dedup
                ctx.mon("hashed inputs: the list handed to merge() is the result of list(dict.fromkeys(features + features[:2]))")
            else:
                ctx.mon("hashed inputs: dict.fromkeys() folded equal features (the original list is merged)")
    elif how == "set":
        keep = set(chosen)
    elif how == "dict key":
        keep = {f: i for i, f in enumerate(chosen)}
    else:
        keep = [hash(f) for f in chosen]
    ctx.mon("hashed inputs: input objects hashed before merge()", len(chosen))
    return feats, keep


def hashed_evidence(ctx, case, model_in, desc, prefix):
    """Counters of a judged merge() call of a 'hashed' case (the call agreed with the model)."""
    which = set(case["hashed"]["which"])
    ctx.mon("hashed inputs: %smerge() calls judged, objects hashed through %s" % (prefix, case["hashed"]["how"]))
    ctx.mon("hashed inputs: %smerge() calls judged, features %s" % (prefix, "read from a database" if case["source"] == "db"
                                                                   else "built as Feature objects"))
    for r in M.single_pass(model_in, desc):
        if len(r) < 2:
            if r[0] in which:
                ctx.mon("hashed inputs: %shashed singletons yielded unchanged" % prefix)
            continue
        if r[0] in which:
            ctx.mon("hashed inputs: %smulti-member runs compared whose FIRST member had been hashed" % prefix)
            if len(r) >= 3:
                ctx.mon("hashed inputs: %ssuch runs with >= 3 members" % prefix)
        elif which & set(r[1:]):
            ctx.mon("hashed inputs: %smulti-member runs compared with a hashed LATER member (first member not hashed)" % prefix)


def comma_evidence(ctx, case, model_in, desc):
    """Counters of a judged merge() call of a 'comma' case (the call agreed with the model)."""
    ctx.mon("comma seqids: merge() calls judged on inputs whose seqids hold a comma")
    if case["source"] == "db":
        ctx.mon("comma seqids: such calls on features read from a database")
    runs = M.single_pass(model_in, desc)
    for prev, nxt in zip(runs, runs[1:]):
        head, f = model_in[prev[0]], model_in[nxt[0]]
        lo, hi = M.extent(model_in, prev)
        if "," in head["seqid"] and f["seqid"] != head["seqid"] and f["seqid"] in head["seqid"].split(",") and "seqid" in desc \
                and f["strand"] == head["strand"] and f["featuretype"] == head["featuretype"] and lo <= f["start"] <= hi + 1:
            ctx.mon("comma seqids: features on a seqid equal to one PART of the comma-holding seqid of the run they begin in, same "
                    "strand and type: not joined")
            if is_default(desc):
                ctx.mon("comma seqids: such features under the default criteria")
            if len(prev) == 2:
                ctx.mon("comma seqids: such features after a two-member run on the comma-holding seqid")
    for r in runs:
        if len(r) == 2 and "," in model_in[r[0]]["seqid"] and model_in[r[1]]["seqid"] == model_in[r[0]]["seqid"]:
            ctx.mon("comma seqids: two-member runs compared whose members share a comma-holding seqid")
        if len(r) >= 2 and "," not in model_in[r[0]]["seqid"]:
            ctx.mon("comma seqids: multi-member runs compared on a seqid equal to a part of a comma-holding seqid in the same input")


PATTERN_CHARS = {"[": "a bracket expression", "*": "'*'", "?": "'?'", "%": "'%'", "_": "'_'"}


def special_id_evidence(ctx, where, featuretype, dbids):
    """Evidence counters of the id comparison just made: featuretypes holding pattern characters, with stored ids of the
    shape <featuretype>_<n> that an id counter starting from nothing would hand out again."""
    hit = [n for ch, n in PATTERN_CHARS.items() if ch in featuretype]
    if not hit and not any(ch in featuretype for ch in ".+|(){}^$"):
        return
    taken = sum(1 for i in dbids if i.startswith(featuretype + "_") and i[len(featuretype) + 1:].isdigit())
    ctx.mon("%s: ids of merged features checked whose featuretype holds LIKE / GLOB / regex characters" % where)
    if taken:
        ctx.mon("%s: ... while ids of the shape <featuretype>_<n> are stored" % where)
        for n in hit or ["other regex characters"]:
            ctx.mon("%s: ... while ids of the shape <featuretype>_<n> are stored, featuretype holding %s" % (where, n))
        if featuretype + "_1" in dbids:
            ctx.mon("%s: ... <featuretype>_1 among them (what a counter starting from nothing hands out first)" % where)


def report_pattern(ctx, case, fid, detail):
    """A defect pattern that recurs in a large share of the cases: every occurrence is a violation when the finding is
    listed (the runner then counts them as known); otherwise the first two per shard are reported and the rest counted,
    so that the replay slots stay free for anything else."""
    from gvmon.run import load_known

    _STATE[fid] += 1
    if fid in load_known("C16") or _STATE[fid] <= 2:
        ctx.violation(case, detail)
    else:
        ctx.mon("%s pattern seen again (reported twice per shard, then only counted)" % fid)


def report_f161(ctx, case, step, desc, ex):
    report_pattern(ctx, case, "F-C16-1", {"why": "%s (%s)" % (F161, step), "error": repr(ex), "criteria": desc})


def execute(ctx, case):
    try:
        kind = case["kind"]
        if kind == "merge":
            return execute_merge(ctx, case)
        if kind == "merge_all":
            return execute_merge_all(ctx, case)
        if kind == "empty":
            return execute_empty(ctx, case)
        if kind == "long":
            return execute_long(ctx, case)
        if kind == "remerge":
            return execute_remerge(ctx, case)
        return execute_children_bp(ctx, case)
    finally:
        for v in contracts.drain():
            ctx.violation(case, v)


def execute_merge(ctx, case):
    import gffutils

    rows = case["feats"]
    desc = case["criteria"]
    model_in = [model_row(r) for r in rows]
    db = dbfn = None
    try:
        if case["source"] == "objects":
            db = scratch_db()
            if case.get("dup"):
                # one object per row, equal rows give objects equal in all nine columns and attributes (ids differ)
                feats = [gffutils.Feature(seqid=r[0], source="src", featuretype=r[2], start=r[3], end=r[4], strand=r[1],
                                          attributes={"note": ["dup"]}, id="in%d" % i) for i, r in enumerate(rows)]
            else:
                frames = case.get("frames") or ["."] * len(rows)
                feats = [gffutils.Feature(seqid=r[0], source="src%d" % (i % 2), featuretype=r[2], start=r[3], end=r[4], strand=r[1],
                                          frame=frames[i], attributes={"ID": ["in%d" % i]}, id="in%d" % i) for i, r in enumerate(rows)]
        else:
            dbfn = ctx.tmp(".db") if case.get("dbfile") else ":memory:"
            try:
                if case.get("dup"):
                    db = gffutils.create_db(G.gff3(rows, case["ids"], same_source=True), dbfn, from_string=True, **create_kwargs(case))
                    ids = stored_ids(db, rows)
                    if ids is None:
                        ctx.violation(case, {"why": "harness: the stored features cannot be matched with the generated rows"})
                        return
                    feats = [db[i] for i in ids]          # one object per stored feature
                else:
                    db = gffutils.create_db(G.gff3(rows, case["ids"], frames=case.get("frames")), dbfn, from_string=True)
                    by_id = {f.id: f for f in db.all_features(order_by="start")}
                    feats = [by_id[i] for i in case["ids"]]
            except Exception as ex:
                ctx.violation(case, {"why": "harness: building the input database raised %r" % (ex,)})
                return
        if case.get("frames") and [f.frame for f in feats] != list(case["frames"]):
            ctx.violation(case, {"why": "harness: the input features do not carry the generated frame column"})
            return
        keep_alive = None
        if case.get("hashed"):
            feats, keep_alive = hash_inputs(ctx, case, feats)
        strs = [str(f) for f in feats]
        dump0 = dbdump.dump_db(db)
        dbids = set(f["id"] for f in dump0["features"])
        log0, auth0 = len(sqltrace.LOG), len(sqltrace.AUTH)
        issued = set()

        def inputs_unchanged(step):
            now = [str(f) for f in feats]
            ctx.mon("input str() comparisons", len(now))
            if now != strs:
                i = [x != y for x, y in zip(strs, now)].index(True)
                ctx.violation(case, {"why": "an input feature was changed by merge() (%s)" % step, "before": strs[i],
                                     "after": now[i], "criteria": desc})
                return False
            return True

        out = one_merge(ctx, case, db, feats, model_in, desc, "first merge", issued, dbids)
        ok = inputs_unchanged("first merge")
        if out is not None and case.get("hashed"):
            hashed_evidence(ctx, case, model_in, desc, "")
        if out is not None and case.get("comma"):
            comma_evidence(ctx, case, model_in, desc)
        if ok and out is not None and case.get("again"):
            second = case["second"]
            again = one_merge(ctx, case, db, feats, model_in, desc, "same objects, same criteria", issued, dbids)
            ok = inputs_unchanged("same objects, same criteria")
            if again is not None and case.get("hashed"):
                hashed_evidence(ctx, case, model_in, desc, "merged a second time: ")
            if ok:
                one_merge(ctx, case, db, feats, model_in, second, "same objects, other criteria", issued, dbids)
                ok = inputs_unchanged("same objects, other criteria")
            if ok and any("," in str(o.seqid) and getattr(o, "children", None) for o in out):
                # a first pass without the seqid criterion yields features whose seqid is a comma-joined list; how such a
                # value evolves and compares when merged again is nowhere stated: not judged
                ctx.skip("re-merge of yielded objects carrying a comma-joined seqid (statement silent)")
            elif ok:
                # the objects the first call yielded (they are start-ordered: every run begins with its leftmost member)
                if case.get("hashed"):
                    # the yielded objects (merged outputs with children among them) are hashed as well before they are inputs
                    keep_alive = (keep_alive, set(out))
                    ctx.mon("hashed inputs: objects yielded by merge() put into a set before they were merged again")
                before_out = [str(o) for o in out]
                one_merge(ctx, case, db, out, [observe(o) for o in out], second, "objects yielded by merge()", issued, dbids)
                if [str(o) for o in out] != before_out:
                    ctx.violation(case, {"why": "an input feature was changed by merge() (objects yielded by merge())",
                                         "criteria": second})
                inputs_unchanged("objects yielded by merge()")
        stmts, auth = sqltrace.writes(since_log=log0, since_auth=auth0)
        ctx.mon("SQL statements observed during merge()", len(sqltrace.LOG) - log0)
        sqltrace.reset()
        d = dbdump.diff(dump0, dbdump.dump_db(db))
        ctx.mon("database dumps compared")
        if d:
            ctx.violation(case, {"why": "database content changed by merge()", "diff": d, "criteria": desc})
        elif stmts or auth:
            ctx.violation(case, {"why": "write statement on the database connection during merge()", "statements": stmts[:3],
                                 "authorizer": auth[:3]})
    finally:
        if dbfn is not None:
            close_db(db, dbfn)


# -- merge_all ---------------------------------------------------------------------------------------------------------------
def execute_merge_all(ctx, case):
    import gffutils

    rows, ids, desc = case["feats"], case["ids"], case["criteria"]
    exclude = case["exclude_components"]
    groups = case.get("groups")
    form = case.get("form", "list")
    if form in G.ONE_SHOT_FORMS and groups and len(groups) > 1:
        ctx.skip("merge_all with a one-shot iterator as merge_criteria and several featuretype groups (statement silent)")
        return
    if not M.tie_insensitive(desc):
        keys = [(r[0], r[2], r[1], r[3]) for r in rows]
        if len(set(keys)) != len(keys):
            raise AssertionError("harness: tie-sensitive criteria generated for rows that tie on the merge order")
    dbfn = ctx.tmp(".db") if case.get("dbfile") else ":memory:"
    try:
        db = gffutils.create_db(G.gff3(rows, ids, case.get("parents"), same_source=bool(case.get("dup")), frames=case.get("frames")),
                                dbfn, from_string=True, **create_kwargs(case))
    except Exception as ex:
        ctx.violation(case, {"why": "harness: building the input database raised %r" % (ex,)})
        return
    try:
        if case.get("dup"):
            ids = stored_ids(db, rows)
            if ids is None:
                ctx.violation(case, {"why": "harness: the stored features cannot be matched with the generated rows"})
                return
        ext = judge_merge_all(ctx, case, db, rows, ids, desc, exclude, groups, form)
        if ext is not None and case.get("sessions", 1) > 1:
            # a second session on the database the first merge_all left behind: the merged features stored by the first
            # session are features like any other (their ids, <featuretype>_<n>, are taken), members and new features merge again
            if dbfn != ":memory:":
                db.conn.close()
                db = gffutils.FeatureDB(dbfn)
                ctx.mon("second session: database reopened after the first merge_all")
            else:
                db = gffutils.FeatureDB(db.conn)
            now = dbdump.dump_db(db)
            rows2 = [[f["seqid"], f["strand"], f["featuretype"], f["start"], f["end"]] for f in now["features"]]
            ids2 = [f["id"] for f in now["features"]]
            ctx.mon("second session: merge_all calls on a database holding the merged features of an earlier session")
            ext2 = judge_merge_all(ctx, case, db, rows2, ids2, desc, exclude, groups, form)
            if ext2 is not None and ext2:
                ctx.mon("second session: new features stored next to the merged features of the earlier session", len(ext2))
    finally:
        close_db(db, dbfn)


def judge_merge_all(ctx, case, db, rows, ids, desc, exclude, groups, form):
    """One call of the real merge_all on `db` (holding exactly `rows` under `ids`), judged on the content dump.
    Returns the sorted extents of the new features, or None after a violation."""
    if True:
        before = dbdump.dump_db(db)
        # the model: per featuretype group, one pass over the features in merge order
        runs = []
        run_group = []           # position (in `groups`) of the featuretype group each run was found in
        for gi, grp in enumerate(groups or [None]):
            sel = [i for i, r in enumerate(rows) if grp is None or r[2] in grp]
            sel.sort(key=lambda i: (rows[i][0], rows[i][2], rows[i][1], rows[i][3]))
            feats = [model_row(rows[i]) for i in sel]
            for run in M.single_pass(feats, desc):
                runs.append([sel[j] for j in run])
                run_group.append(gi)
            rejected_evidence(ctx, feats, desc, prefix="merge_all: ")
            if groups and len(groups) > 1:
                n_multi = sum(1 for run in M.single_pass(feats, desc) if len(run) > 1)
                if n_multi:
                    ctx.mon("merge_all: featuretype groups (of several in one call) holding multi-member runs")
                    if grp is not groups[0]:
                        ctx.mon("merge_all: featuretype groups after the first holding multi-member runs")
                if grp is not groups[0] and M.single_pass(feats, desc) != M.single_pass(feats, M.DEFAULT):
                    ctx.mon("merge_all: featuretype groups after the first whose runs differ from those under the default criteria")
                    ctx.mon("merge_all: groups after the first whose runs differ from the default ones, merge_criteria passed as %s"
                            % (form if not (form == "callable" and len(desc) != 1) else "list"))
        multi = [r for r in runs if len(r) > 1]
        multi_group = [g for r, g in zip(runs, run_group) if len(r) > 1]
        members = set(ids[i] for r in multi for i in r)
        kw = {"merge_criteria": in_form(ctx, "merge_all", real_criteria(ctx, desc), form), "exclude_components": exclude}
        if groups:
            kw["featuretypes_groups"] = [list(g) for g in groups]
        try:
            res = db.merge_all(**kw)
        except Exception as ex:
            ctx.violation(case, {"why": "merge_all raised %s" % type(ex).__name__, "error": repr(ex), "criteria": desc})
            return None
        ctx.mon("merge_all calls")
        if groups and len(groups) > 1:
            ctx.mon("merge_all calls with several featuretype groups")
            ctx.mon("merge_all calls with several featuretype groups: merge_criteria passed as %s"
                    % (form if not (form == "callable" and len(desc) != 1) else "list"))
        after = dbdump.dump_db(db)
        bf = {f["id"]: f for f in before["features"]}
        af = {f["id"]: f for f in after["features"]}

        def bad(why, **more):
            if more.get("id") in members:
                # where in its run (merge order, counted from 1) the member sits
                more["position_in_run"], more["run_length"] = [(r.index(i) + 1, len(r)) for r in multi for i in r if ids[i] == more["id"]][0]
            ctx.violation(case, dict(more, why="merge_all: " + why, criteria=desc, exclude_components=exclude,
                                     model_runs=[[ids[i] for i in r[:12]] + (["... %d members" % len(r)] if len(r) > 12 else [])
                                                 for r in multi][:8]))
            return None

        if len(af) != len(after["features"]):
            return bad("duplicate ids stored")
        new = [i for i in af if i not in bf]
        if len(new) != len(multi):
            return bad("number of new features differs from the number of multi-member runs", new=new)
        ctx.mon("merge_all: new features compared", len(new))
        for i in new:
            special_id_evidence(ctx, "merge_all", str(af[i]["featuretype"]), set(bf))
        for gi, grp in enumerate(groups or [None]):
            sel = sorted((i for i, r in enumerate(rows) if grp is None or r[2] in grp), key=lambda i: (rows[i][0], rows[i][2], rows[i][1], rows[i][3]))
            nonbool_evidence(ctx, [model_row(rows[i]) for i in sel], desc, "merge_all()")
        if sorted(f.id for f in res) != sorted(new):
            return bad("returned features are not the stored new features", returned=[f.id for f in res], new=new)
        for i, f in bf.items():
            if i in members:
                if exclude:
                    ctx.mon("merge_all: deleted members checked")
                    if i in af:
                        return bad("a member of a merged run was not deleted", id=i)
                    continue
                if i not in af or any(af[i][k] != f[k] for k in f if k != "attributes"):
                    return bad("columns of a member of a merged run changed", id=i)
            elif af.get(i) != f:
                return bad("a feature outside every merged run changed or disappeared", id=i, before=f, after=af.get(i))
        want_ext = sorted(M.extent([model_row(r) for r in rows], r) for r in multi)
        got_ext = sorted((af[i]["start"], af[i]["end"]) for i in new)
        if got_ext != want_ext:
            return bad("extents of the new features differ from min start .. max end of the runs", got=got_ext, expected=want_ext)
        rel_b = set(map(tuple, before["relations"]))
        rel_a = set(map(tuple, after["relations"]))
        gone = members if exclude else set()
        lost = [r for r in rel_b - rel_a if r[0] not in gone and r[1] not in gone]
        if lost:
            return bad("relations between remaining features were removed", lost=lost[:5])
        stray = [r for r in rel_a - rel_b if r[0] not in new]
        if stray:
            return bad("relations were added whose parent is not a new feature", stray=stray[:5])
        if exclude:
            held = [r for r in rel_b if r[0] in members or r[1] in members]
            left = [r for r in rel_a if r[0] in members or r[1] in members]
            if case.get("assert_relations"):
                ctx.mon("merge_all: relation rows of deleted members checked to be gone", len(held))
                if left:
                    return bad("relation rows naming a deleted member of a merged run were left behind", left=sorted(left)[:5])
            elif left:
                ctx.mon("merge_all: relations of deleted members left behind (not asserted)")
            if groups and len(groups) > 1:
                last = len(groups) - 1
                early = [r for r, g in zip(multi, multi_group) if g != last]
                if early:
                    ctx.mon("merge_all exclude_components, several groups: calls with multi-member runs in a group other than the last")
                    ctx.mon("merge_all exclude_components, several groups: members of runs in a group other than the last, each deleted",
                            sum(len(r) for r in early))
                    if len(set(g for g in multi_group)) > 1:
                        ctx.mon("merge_all exclude_components, several groups: calls with multi-member runs in two or more groups")
                    if any(r[0] in members or r[1] in members for r in rel_b
                           if (r[0] in set(ids[i] for run in early for i in run) or r[1] in set(ids[i] for run in early for i in run))):
                        ctx.mon("merge_all exclude_components, several groups: such members held relation rows before the call")
        else:
            want = sorted(sorted(ids[i] for i in r) for r in multi)
            got = sorted(sorted(c for p, c, lvl in rel_a if p == n and lvl == 1) for n in new)
            ctx.mon("merge_all: level-1 relations compared", sum(len(x) for x in want))
            if got != want:
                return bad("level-1 children of the new features are not the members of the runs", got=got, expected=want)
            for n in new:
                kids = [c for p, c, lvl in rel_a if p == n and lvl == 1]
                ext = (min(bf[c]["start"] for c in kids), max(bf[c]["end"] for c in kids))
                if (af[n]["start"], af[n]["end"]) != ext:
                    return bad("a new feature does not span min start .. max end of its members", id=n)
        if is_default(desc):
            # "per seqid, strand and type": every new feature reports the labels its members share
            mrows = [model_row(r) for r in rows]
            want_lab = sorted((mrows[r[0]]["seqid"], mrows[r[0]]["strand"], mrows[r[0]]["featuretype"]) + M.extent(mrows, r) for r in multi)
            got_lab = sorted((af[i]["seqid"], af[i]["strand"], af[i]["featuretype"], af[i]["start"], af[i]["end"]) for i in new)
            ctx.mon("merge_all: seqid / strand / type of the new features compared with their members' (default criteria)", len(new))
            if got_lab != want_lab:
                return bad("a new feature does not report the seqid / strand / type its members share", got=got_lab[:8], expected=want_lab[:8])
        frames = case.get("frames")
        if frames:
            for r in multi:
                fr = [frames[i] for i in r]
                if len(set(fr)) > 1:
                    ctx.mon("merge_all: runs whose members carry different frames: new feature and %s compared"
                            % ("deletions" if exclude else "level-1 relations"))
                    if min(k for k in range(len(fr)) if fr[k] != fr[0]) < len(fr) - 1:
                        ctx.mon("merge_all: such runs with further members after the first frame change")
        if is_default(desc) and not groups:
            ctx.mon("merge_all: position-set union comparisons")
            rest = [af[i] for i in af if not ((i in members) and not exclude)]
            got_u = sorted((f["seqid"], f["strand"], f["featuretype"], f["start"], f["end"]) for f in rest)
            exp_u = [tuple(x) for x in M.union_extents([model_row(r) for r in rows])]
            if got_u != exp_u:
                return bad("stored top-level extents differ from the position-set union", got=got_u[:10], expected=exp_u[:10])
        if case.get("dup"):
            # features identical in all columns and attributes: every one of them is a member of its own
            twin = [i for i in range(len(rows)) if any(j != i and rows[j] == rows[i] for j in range(len(rows)))]
            n = sum(1 for i in twin if ids[i] in members)
            if n:
                ctx.mon("merge_all: identical features (all columns and attributes) that are members of runs: %s"
                        % ("each deleted" if exclude else "each related to the new feature at level 1"), n)
        return got_ext


# -- one very long run through merge_all ----------------------------------------------------------------------------------------
def execute_long(ctx, case):
    """kind "long": {"seed", "n" (>= 1000), "exclude_components", "form", "dbfile"}.  G.long_run_rows(seed, n) -> a database in
    which n mutually chained features of one seqid / strand / type form ONE run under the default criteria (plus a short run, a
    singleton, features on other labels and a 'locus' parent named by most features).  merge_all is judged as everywhere else
    (judge_merge_all): one new feature per multi-member run, EVERY member deleted together with the relation rows that name it
    / related to the new feature at level 1 - the members at positions 998, 999, 1000, ... of the run like the first ones."""
    import gffutils

    rows, ids, parents, chain = G.long_run_rows(case["seed"], case["n"])
    exclude = case["exclude_components"]
    sel = sorted(range(len(rows)), key=lambda i: (rows[i][0], rows[i][2], rows[i][1], rows[i][3]))
    runs = M.single_pass([model_row(rows[i]) for i in sel], M.DEFAULT)
    longest = max(runs, key=len)
    if sorted(sel[j] for j in longest) != sorted(chain) or len(chain) < 1000:
        raise AssertionError("harness: the generated chain is not one run of >= 1000 members under the default criteria")
    dbfn = ctx.tmp(".db") if case.get("dbfile") else ":memory:"
    try:
        db = gffutils.create_db(G.gff3(rows, ids, parents), dbfn, from_string=True)
    except Exception as ex:
        ctx.violation(case, {"why": "harness: building the input database raised %r" % (ex,)})
        return False
    try:
        rel0 = sum(1 for p, c, _ in dbdump.dump_db(db)["relations"] if c in set(ids[i] for i in chain))
        ext = judge_merge_all(ctx, dict(case, assert_relations=True), db, rows, ids, list(M.DEFAULT), exclude, None, case.get("form", "list"))
        if ext is None:
            return False
        what = "exclude_components=True" if exclude else "exclude_components=False"
        ctx.mon("long run: merge_all(%s) calls over one run of >= 1000 members" % what)
        ctx.mon("long run: members of such a run, each %s" % ("deleted" if exclude else "related to the new feature at level 1"), len(chain))
        ctx.mon("long run: members at positions 998, 999, 1000, ... of the run, each %s"
                % ("deleted" if exclude else "related to the new feature at level 1"), len(chain) - 997)
        if exclude:
            ctx.mon("long run: relation rows naming a member before the call, all gone afterwards", rel0)
        return True
    finally:
        close_db(db, dbfn)


# -- multi-member outputs of an earlier merge() as inputs of a later one ------------------------------------------------------------
def execute_remerge(ctx, case):
    """kind "remerge": {"feats", "source", ["ids"], "criteria" (first stage), "second" (second stage), "new": rows}.

    Stage 1: merge(features, criteria) - judged like every merge() call.  Stage 2: the objects stage 1 yielded (multi-member
    outputs with their children, and unchanged singletons), mixed in start order with `new` Feature objects, are merged under
    `second` (the strand ignored, or a wider reach), so that multi-member outputs of stage 1 open or join runs.  They are inputs
    like any other: judged by one_merge against the model over the columns they report (partition by identity, a merged output
    is a NEW object with a new id, extents), their columns / id / children list are the same afterwards, and merging the same
    objects once more gives the same partition and extents."""
    import gffutils

    rows, desc1, desc2, new = case["feats"], case["criteria"], case["second"], case.get("new") or []
    model_in = [model_row(r) for r in rows]
    db = dbfn = None
    useful = False
    try:
        if case["source"] == "objects":
            db = scratch_db()
            feats = [gffutils.Feature(seqid=r[0], source="src%d" % (i % 2), featuretype=r[2], start=r[3], end=r[4], strand=r[1],
                                      attributes={"ID": ["in%d" % i]}, id="in%d" % i) for i, r in enumerate(rows)]
        else:
            dbfn = ctx.tmp(".db") if case.get("dbfile") else ":memory:"
            try:
                db = gffutils.create_db(G.gff3(rows, case["ids"]), dbfn, from_string=True)
                by_id = {f.id: f for f in db.all_features()}
                feats = [by_id[i] for i in case["ids"]]
            except Exception as ex:
                ctx.violation(case, {"why": "harness: building the input database raised %r" % (ex,)})
                return False
        strs = [str(f) for f in feats]
        dump0 = dbdump.dump_db(db)
        dbids = set(f["id"] for f in dump0["features"])
        log0, auth0 = len(sqltrace.LOG), len(sqltrace.AUTH)
        issued = set()
        out1 = one_merge(ctx, case, db, feats, model_in, desc1, "first merge", issued, dbids)
        ctx.mon("input str() comparisons", len(feats))
        if [str(f) for f in feats] != strs:
            ctx.violation(case, {"why": "an input feature was changed by merge() (first merge)", "criteria": desc1})
            return False
        if out1 is None:
            return False
        if any("," in str(o.seqid) for o in out1):
            ctx.skip("re-merge of yielded objects carrying a comma-joined seqid (statement silent)")
            return False
        newf = [gffutils.Feature(seqid=r[0], source="new", featuretype=r[2], start=r[3], end=r[4], strand=r[1],
                                 attributes={"ID": ["nw%d" % i]}, id="nw%d" % i) for i, r in enumerate(new)]
        inputs2 = sorted(list(out1) + newf, key=lambda f: f.start)        # stable: start order, earlier outputs first on ties
        model2 = [observe(o) for o in inputs2]
        was_multi = [bool(getattr(o, "children", None)) for o in inputs2]

        def snapshot():
            return [(str(o), o.id, o.seqid, o.strand, o.featuretype, o.start, o.end, [id(c) for c in (getattr(o, "children", None) or ())])
                    for o in inputs2]

        def partition(out):
            return sorted((o.start, o.end, sorted(index[id(c)] for c in (getattr(o, "children", None) or [o]))) for o in out)

        index = {id(o): k for k, o in enumerate(inputs2)}
        snap = snapshot()
        exp_runs = M.single_pass(model2, desc2)
        in_multi_run = set(k for r in exp_runs if len(r) > 1 for k in r)
        lead = sum(1 for r in exp_runs if len(r) > 1 and was_multi[r[0]])
        join = sum(1 for r in exp_runs if len(r) > 1 for k in r[1:] if was_multi[k])
        step = "multi-member outputs of an earlier merge() among the inputs"
        out2 = one_merge(ctx, case, db, inputs2, model2, desc2, step, issued, dbids)
        if out2 is None:
            return False
        ctx.mon("re-merge: second-stage merge() calls over the objects an earlier merge() yielded")
        ctx.mon("re-merge: second stage %s" % ("ignoring the strand" if "strand" not in desc2 else "with a wider reach"))
        if newf:
            ctx.mon("re-merge: second-stage calls in which new features are mixed with the earlier outputs")
        ctx.mon("re-merge: multi-member outputs of an earlier merge() that open a multi-member run of the second stage", lead)
        ctx.mon("re-merge: multi-member outputs of an earlier merge() that join a run of the second stage behind its first member", join)

        def same_inputs(when):
            now = snapshot()
            for k, (a, b) in enumerate(zip(snap, now)):
                ctx.mon("re-merge: inputs of the second stage compared before / after (printed form, id, columns, children list)")
                if a[:7] != b[:7]:
                    ctx.violation(case, {"why": "an input feature was changed by merge() (%s; %s)" % (step, when), "before": list(a[:7]),
                                         "after": list(b[:7]), "was a multi-member output of the first merge()": was_multi[k],
                                         "criteria": desc2})
                    return False
                if a[7] != b[7]:
                    if k not in in_multi_run and not b[7]:
                        # yielded by the second stage as a run of its own: "yielded unchanged with no children"
                        ctx.mon("re-merge: earlier multi-member outputs yielded by the second stage as singletons (children list now "
                                "empty: the statement's 'with no children')")
                        continue
                    ctx.violation(case, {"why": "the children list of an input feature was changed by merge() (%s; %s)" % (step, when),
                                         "input": list(a[:7]), "children before": len(a[7]), "children after": len(b[7]), "criteria": desc2})
                    return False
            return True

        if not same_inputs("first call"):
            return False
        # the same objects once more
        out3 = one_merge(ctx, case, db, inputs2, [observe(o) for o in inputs2], desc2, "same objects, same criteria", issued, dbids)
        if out3 is None:
            return False
        ctx.mon("re-merge: the same objects merged once more: partition and extents compared with the previous result")
        if partition(out3) != partition(out2):
            ctx.violation(case, {"why": "merging the same objects again gives another result (%s)" % step, "first": partition(out2)[:8],
                                 "again": partition(out3)[:8], "criteria": desc2})
            return False
        if not same_inputs("second call"):
            return False
        ctx.mon("input str() comparisons", len(feats))
        if [str(f) for f in feats] != strs:
            ctx.violation(case, {"why": "an input feature was changed by merge() (%s)" % step, "criteria": desc2})
            return False
        stmts, auth = sqltrace.writes(since_log=log0, since_auth=auth0)
        sqltrace.reset()
        d = dbdump.diff(dump0, dbdump.dump_db(db))
        ctx.mon("database dumps compared")
        if d:
            ctx.violation(case, {"why": "database content changed by merge()", "diff": d, "criteria": desc2})
        elif stmts or auth:
            ctx.violation(case, {"why": "write statement on the database connection during merge()", "statements": stmts[:3],
                                 "authorizer": auth[:3]})
        useful = lead > 0
    finally:
        if dbfn is not None:
            close_db(db, dbfn)
    return useful


# -- children_bp ---------------------------------------------------------------------------------------------------------------
def execute_children_bp(ctx, case):
    import gffutils

    rows, ids, parents = case["feats"], case["ids"], case["parents"]
    info = {}
    dbfn = ctx.tmp(".db") if case.get("dbfile") else ":memory:"
    try:
        db = gffutils.create_db(G.gff3(rows, ids, parents, same_source=bool(case.get("dup")), frames=case.get("frames")), dbfn,
                                from_string=True, **create_kwargs(case))
    except Exception as ex:
        ctx.violation(case, {"why": "harness: building the input database raised %r" % (ex,)})
        return info
    try:
        # keys of the generated hierarchy: the id where a line has one of its own, else the position of the line
        keys = [i if i is not None and ids.count(i) == 1 else "#%d" % n for n, i in enumerate(ids)]
        actual = ids
        if case.get("dup"):
            actual = stored_ids(db, rows)
            if actual is None:
                ctx.violation(case, {"why": "harness: the stored features cannot be matched with the generated rows"})
                return
        dump0 = dbdump.dump_db(db)
        log0, auth0 = len(sqltrace.LOG), len(sqltrace.AUTH)
        # descendants in the generated hierarchy
        pmap = dict(zip(keys, parents))

        def ancestors(i, acc=None):
            acc = set() if acc is None else acc
            for p in pmap.get(i) or []:
                if p not in acc:
                    acc.add(p)
                    ancestors(p, acc)
            return acc

        for call in case["calls"]:
            target, ctype, desc = call["of"], call["child_featuretype"], call.get("criteria")
            kid_rows = [r for r, i in zip(rows, keys) if r[2] == ctype and target in ancestors(i)]
            kids = [model_row(r) for r in kid_rows]
            kids.sort(key=lambda f: f["start"])
            twins = len(kid_rows) - len(set(map(tuple, kid_rows))) if case.get("dup") else 0
            arg = target if call["by"] == "id" else db[target]
            kw = {"child_featuretype": ctype, "merge": call["merge"]}
            if desc is not None:
                kw["merge_criteria"] = in_form(ctx, "children_bp", real_criteria(ctx, desc), call.get("form", "list"))
            kid_ids = set(a for r, i, a in zip(rows, keys, actual) if r[2] == ctype and target in ancestors(i))
            levels = Counter(c for p, c, lvl in map(tuple, dump0["relations"]) if p == target and c in kid_ids)
            several = any(n > 1 for n in levels.values())
            try:
                got = db.children_bp(arg, **kw)
            except Exception as ex:
                if isinstance(ex, TypeError) and "children" in str(ex):
                    ctx.violation(case, {"why": "children_bp raised TypeError about 'children'", "error": repr(ex), "call": call})
                else:
                    ctx.violation(case, {"why": "children_bp raised %s" % type(ex).__name__, "error": repr(ex), "call": call})
                continue
            ctx.mon("children_bp calls")
            if twins:
                ctx.mon("children_bp calls over children holding features identical in all columns and attributes: merge=%s" % bool(call["merge"]))
            if several:
                ctx.mon("children_bp calls with a child related to the queried feature at several levels: merge=%s" % bool(call["merge"]))
            crit = M.DEFAULT if desc is None else desc
            if call["merge"] and nonbool_evidence(ctx, kids, crit, "children_bp(merge=True)"):
                info["decisive"] = info.get("decisive", 0) + 1
            if not call["merge"]:
                exp = M.total_length(kids)
                what = "summed child lengths"
                ctx.mon("children_bp: merge=False compared with summed lengths")
            else:
                exp = M.merged_length(kids, crit)
                what = "merged lengths of the single-pass model"
                uniform = len(set((k["seqid"], k["strand"]) for k in kids)) <= 1
                if uniform and is_default(crit):
                    ctx.mon("children_bp: merge=True compared with union size")
                    if case.get("frames"):
                        kfr = [fr for r, i, fr in zip(rows, keys, case["frames"]) if r[2] == ctype and target in ancestors(i)]
                        if len(set(kfr)) > 1 and len(M.single_pass(kids, crit)) < len(kids):
                            ctx.mon("children_bp: merge=True over overlapping children carrying different frames compared with union size")
                    if exp != M.union_size(kids):
                        raise AssertionError("harness: single-pass model and position union disagree")
                    what = "size of the union of the children"
            if got != exp:
                ctx.violation(case, {"why": "children_bp differs from the %s" % what, "got": got, "expected": exp, "call": call,
                                     "children": [[k["start"], k["end"], k["strand"]] for k in kids]})
        stmts, auth = sqltrace.writes(since_log=log0, since_auth=auth0)
        sqltrace.reset()
        d = dbdump.diff(dump0, dbdump.dump_db(db))
        ctx.mon("database dumps compared")
        if d:
            ctx.violation(case, {"why": "database content changed by children_bp", "diff": d})
        elif stmts or auth:
            ctx.violation(case, {"why": "write statement on the database connection during children_bp", "statements": stmts[:3]})
    finally:
        close_db(db, dbfn)
    return info


# -- no criterion at all: merge(), children_bp(merge=True) and merge_all() on one database ----------------------------------------
def execute_empty(ctx, case):
    """merge_criteria is an EMPTY list / tuple: no criterion, so every feature joins the current run (one run over the
    whole input).  The three entry points are run on the same database and compared with the model and with each other."""
    import gffutils

    rows, ids, parents, form = case["feats"], case["ids"], case["parents"], case["form"]
    groups, exclude = case.get("groups"), case["exclude_components"]
    dbfn = ctx.tmp(".db") if case.get("dbfile") else ":memory:"
    try:
        db = gffutils.create_db(G.gff3(rows, ids, parents), dbfn, from_string=True)
    except Exception as ex:
        ctx.violation(case, {"why": "harness: building the input database raised %r" % (ex,)})
        return
    try:
        dump0 = dbdump.dump_db(db)
        dbids = set(f["id"] for f in dump0["features"])
        log0, auth0 = len(sqltrace.LOG), len(sqltrace.AUTH)
        first = groups[0] if groups else None
        sel = [i for i, r in enumerate(rows) if first is None or r[2] in first]
        sel.sort(key=lambda i: rows[i][3])
        try:
            feats = [db[ids[i]] for i in sel]
        except Exception as ex:
            ctx.violation(case, {"why": "harness: reading the stored features back raised %r" % (ex,)})
            return
        model_in = [model_row(rows[i]) for i in sel]
        if len(M.single_pass(model_in, M.DEFAULT)) > 1:
            ctx.mon("empty merge_criteria: inputs that fall into several runs under the default criteria")
        # 1. merge(features, merge_criteria=[])
        strs = [str(f) for f in feats]
        out = one_merge(ctx, case, db, feats, model_in, [], "first merge", set(), dbids)
        if out is None:
            return
        ctx.mon("empty merge_criteria: merge() calls compared with the one-run model")
        ctx.mon("input str() comparisons", len(feats))
        if [str(f) for f in feats] != strs:
            ctx.violation(case, {"why": "an input feature was changed by merge() (first merge)", "criteria": []})
            return
        # 2. children_bp(gene, merge=True, merge_criteria=[])
        ctype = case["child_featuretype"]
        kids = sorted((model_row(r) for r in rows if r[2] == ctype), key=lambda f: f["start"])
        exp = M.merged_length(kids, [])
        try:
            got = db.children_bp(case["of"], child_featuretype=ctype, merge=True,
                                 merge_criteria=in_form(ctx, "children_bp", real_criteria(ctx, []), form))
        except Exception as ex:
            ctx.violation(case, {"why": "children_bp raised %s" % type(ex).__name__, "error": repr(ex), "criteria": []})
            return
        ctx.mon("children_bp calls")
        ctx.mon("empty merge_criteria: children_bp(merge=True) calls compared with the one-run model")
        if got != exp:
            ctx.violation(case, {"why": "children_bp differs from the merged lengths of the single-pass model", "got": got, "expected": exp,
                                 "criteria": [], "children": [[k["start"], k["end"], k["strand"]] for k in kids]})
            return
        if first is not None and list(first) == [ctype]:
            ctx.mon("empty merge_criteria: children_bp(merge=True) compared with the lengths of merge()'s outputs")
            if got != sum(o.end - o.start + 1 for o in out):
                ctx.violation(case, {"why": "children_bp(merge=True, merge_criteria=[]) differs from the summed lengths of the outputs "
                                            "of merge(children, merge_criteria=[])", "got": got,
                                     "merge_outputs": [[o.start, o.end] for o in out]})
                return
        stmts, auth = sqltrace.writes(since_log=log0, since_auth=auth0)
        sqltrace.reset()
        d = dbdump.diff(dump0, dbdump.dump_db(db))
        ctx.mon("database dumps compared")
        if d:
            ctx.violation(case, {"why": "database content changed by merge() / children_bp", "diff": d, "criteria": []})
            return
        if stmts or auth:
            ctx.violation(case, {"why": "write statement on the database connection during merge() / children_bp", "statements": stmts[:3]})
            return
        # 3. merge_all(merge_criteria=[])
        ext = judge_merge_all(ctx, case, db, rows, ids, [], exclude, groups, form)
        if ext is None:
            return
        ctx.mon("empty merge_criteria: merge_all() calls compared with the one-run model")
        mine = sorted((o.start, o.end) for o in out if getattr(o, "children", None))
        rest = Counter(ext) - Counter(mine)
        ctx.mon("empty merge_criteria: merge_all()'s new features compared with merge()'s outputs")
        if sum(rest.values()) != len(ext) - len(mine) or (not groups or len(groups) == 1) and sorted(ext) != mine:
            ctx.violation(case, {"why": "merge_all(merge_criteria=[]) stores other merged extents than merge(features, merge_criteria=[]) yields",
                                 "merge_all": ext, "merge": mine})
    finally:
        close_db(db, dbfn)


def gen_empty(rng):
    seqid = rng.choice(G.SEQIDS)
    rows = G.gapped_feats(rng)
    for r in rows:
        r[0] = seqid
        if rng.random() < 0.25:
            r[2] = "CDS"
    if not any(r[2] == "exon" for r in rows):
        rows[0][2] = "exon"
    hi = max(r[4] for r in rows)
    gstrand = rng.choice(G.STRANDS)
    rows = [[seqid, gstrand, "gene", 1, hi + 5], [seqid, gstrand, "mRNA", 1, hi + 5]] + rows
    ids = ["G", "T"] + ["x%d" % j for j in range(len(rows) - 2)]
    parents = [[], ["G"]] + [rng.choice([["T"], ["T"], ["G"], ["T", "G"]]) for _ in rows[2:]]
    order = list(range(len(rows)))
    if rng.random() < 0.5:
        rng.shuffle(order)
    rows, ids, parents = [rows[i] for i in order], [ids[i] for i in order], [parents[i] for i in order]
    return {"kind": "empty", "feats": rows, "ids": ids, "parents": parents, "form": rng.choice(["list", "tuple"]),
            "exclude_components": rng.random() < 0.5, "of": "G", "child_featuretype": "exon",
            "groups": rng.choice([[["exon"]], [["exon"]], [["exon"], ["CDS"]], [["exon", "CDS"]], None]), "dbfile": rng.random() < 0.15}


# -- workload ------------------------------------------------------------------------------------------------------------------
def nontrivial(rows, desc):
    runs = M.single_pass([model_row(r) for r in rows], desc)
    return any(len(r) > 1 for r in runs) and any(len(r) == 1 for r in runs)


def comma_runs_ok(rows, desc):
    """(Formerly a filter for runs of >= 3 features on one comma-holding seqid, which the tree mis-merged before F-C16-3.)"""
    return True      # F-C16-3 is repaired: runs of three and more features on one comma-holding seqid are generated and judged


def gen_comma(rng):
    """A 'comma' merge case: seqids that hold a comma next to seqids equal to one of their parts (G.comma_feats), under the
    default criteria (75%) or seqid + threshold criteria, as objects or read from a database, merged again afterwards."""
    while True:
        rows = G.comma_feats(rng)
        if rng.random() < 0.75:
            desc = list(M.DEFAULT)
        else:
            desc = ["seqid", [rng.choice(G.THRESHOLDS[:1]), rng.randrange(0, 4)]] + [x for x in ("strand", "feature_type") if rng.random() < 0.7]
        second = list(M.DEFAULT) if rng.random() < 0.5 else [x for x in ("strand", "feature_type") if rng.random() < 0.7] + \
            [["overlap_end_threshold", rng.randrange(0, 4)]] + (["seqid"] if rng.random() < 0.6 else [])
        if comma_runs_ok(rows, desc) and comma_runs_ok(rows, second):
            break
    case = {"kind": "merge", "source": "objects" if rng.random() < 0.6 else "db", "feats": rows, "criteria": desc, "again": rng.random() < 0.7,
            "second": second, "omit_criteria": rng.random() < 0.5, "form": G.criteria_form(rng, desc), "comma": True}
    if case["source"] == "db":
        case["ids"] = G.ids_for(rng, rows)
        case["dbfile"] = rng.random() < 0.15
    return case


def gen_hashed(rng):
    """A 'hashed' merge case: an ordinary input (random grouped / random / shaped lists, objects or database) whose objects -
    all of them, only the first members of the model's multi-member runs, only later members, or a random subset - are hashed
    before merge() (dict.fromkeys de-duplication, set, dict keys, hash()); mostly merged again afterwards."""
    while True:
        r = rng.random()
        rows = G.shaped_feats(rng) if r < 0.3 else G.random_feats(rng)
        desc = list(M.DEFAULT) if rng.random() < 0.6 else G.criteria(rng)
        if is_default(desc) and r >= 0.3 and rng.random() < 0.6:
            rows = G.group_then_start(rows)
        runs = [x for x in M.single_pass([model_row(x) for x in rows], desc) if len(x) > 1]
        if runs or rng.random() < 0.1:
            break
    t = rng.random()
    if t < 0.4 or not runs:
        which, what = list(range(len(rows))), "all"
    elif t < 0.65:
        which, what = [x[0] for x in runs], "first members of runs"
    elif t < 0.85:
        which, what = sorted(rng.choice(x[1:]) for x in runs), "later members of runs"
    else:
        which, what = sorted(rng.sample(range(len(rows)), rng.randrange(1, len(rows) + 1))), "random subset"
    how = "dict.fromkeys" if what == "all" and rng.random() < 0.5 else rng.choice(HASH_HOW)
    case = {"kind": "merge", "source": "objects" if rng.random() < 0.55 else "db", "feats": rows, "criteria": desc,
            "again": rng.random() < 0.8, "second": G.criteria(rng), "omit_criteria": rng.random() < 0.5,
            "form": G.criteria_form(rng, desc), "hashed": {"how": how, "which": which, "what": what}}
    if case["source"] == "db":
        case["ids"] = G.ids_for(rng, rows)
        case["dbfile"] = rng.random() < 0.1
    return case


def run_merge_case(ctx, case, cls):
    execute(ctx, case)
    ctx.case((case["feats"], case["criteria"], case.get("second"), case["source"]), nontrivial(case["feats"], case["criteria"]),
             sample=case if len(case["feats"]) == 3 else None, cls=cls)


def gen_children_bp(rng):
    seqid = rng.choice(G.SEQIDS)
    strand = rng.choice(G.STRANDS)
    mixed = rng.random() < 0.3
    nt = rng.choice([1, 2, 2, 3])
    rows = [[seqid, strand, "gene", 1, 200]]
    ids = ["G"]
    parents = [[]]
    for t in range(nt):
        rows.append([seqid, strand, "mRNA", 1, 200])
        ids.append("T%d" % t)
        parents.append(["G"])
    n = rng.randrange(1, 11)
    ivs = G.random_intervals(rng, n, span=rng.choice([12, 30, 60]), distinct_starts=mixed)
    for j, (s, e) in enumerate(ivs):
        r = rng.random()
        if r < 0.55:
            par = ["T%d" % rng.randrange(nt)]
        elif r < 0.65:
            par = ["G"]
        elif r < 0.78:
            par = sorted(set(["T%d" % rng.randrange(nt), "T%d" % rng.randrange(nt)]))
        else:
            # parents of two levels: the child is related to G at level 1 and (through the transcript) at level 2
            par = ["T%d" % rng.randrange(nt), "G"]
            if rng.random() < 0.3:
                par.append("T%d" % rng.randrange(nt))
            par = sorted(set(par))
            rng.shuffle(par)
        rows.append([seqid, rng.choice(G.STRANDS) if mixed else strand, rng.choice(["exon", "exon", "exon", "CDS"]), s, e])
        ids.append("x%d" % j)
        parents.append(par)
    calls = []
    for target in ["G"] + ["T%d" % t for t in range(nt)]:
        for ctype in ("exon", "CDS"):
            calls.append({"of": target, "child_featuretype": ctype, "merge": False, "by": rng.choice(["id", "feature"])})
            calls.append({"of": target, "child_featuretype": ctype, "merge": True, "by": rng.choice(["id", "feature"])})
            if rng.random() < 0.5:
                desc = G.single_tie_insensitive(rng) if rng.random() < 0.25 else G.tie_insensitive_criteria(rng)
                calls.append({"of": target, "child_featuretype": ctype, "merge": True, "by": rng.choice(["id", "feature"]),
                              "criteria": desc, "form": G.criteria_form(rng, desc)})
    return {"kind": "children_bp", "feats": rows, "ids": ids, "parents": parents, "calls": calls, "dbfile": rng.random() < 0.2}


def gen_merge_all(rng):
    rows = G.random_feats(rng, nmax=12)
    for r in rows:
        if rng.random() < 0.2:
            r[2] = "gene"
    ids = G.ids_for(rng, rows)
    parents = [[] for _ in rows]
    if rng.random() < 0.3:
        seqid = rows[0][0]
        lo = min(r[3] for r in rows)
        rows.append([seqid, ".", "locus", lo, max(r[4] for r in rows)])
        ids.append("L0")
        parents = [["L0"] if r[0] == seqid and rng.random() < 0.8 else [] for r in rows[:-1]] + [[]]
    order = list(range(len(rows)))
    rng.shuffle(order)
    rows, ids, parents = [rows[i] for i in order], [ids[i] for i in order], [parents[i] for i in order]
    groups = None
    if rng.random() < 0.2:
        groups = rng.choice([[["exon"], ["CDS", "gene"]], [["CDS"]], [["exon", "CDS"], ["gene", "locus"]]])
    desc = G.single_tie_insensitive(rng) if rng.random() < 0.1 else G.tie_insensitive_criteria(rng)
    return {"kind": "merge_all", "feats": rows, "ids": ids, "parents": parents, "criteria": desc,
            "form": G.criteria_form(rng, desc, one_shot=not groups or len(groups) < 2),
            "exclude_components": rng.random() < 0.5, "groups": groups, "dbfile": rng.random() < 0.2}


def gen_merge_all_shaped(rng):
    """Long-run shapes per (seqid, featuretype, strand) group, no ties on the merge order: every criterion may be used."""
    rows = G.shaped_db_feats(rng)
    # plain ids: with ids of the form <featuretype>_<n> and exclude_components a later merged feature may be stored under
    # the id of a member deleted earlier in the same call; whether such an id counts as fresh is not stated
    ids = G.ids_for(rng, rows)
    r = rng.random()
    desc = G.single_criterion(rng) if r < 0.1 else G.shaped_criteria(rng)
    groups = None
    if rng.random() < 0.2:
        groups = rng.choice([[["exon"], ["CDS", "gene"]], [["CDS"]], [["exon", "CDS", "gene"]]])
    return {"kind": "merge_all", "feats": rows, "ids": ids, "parents": [[] for _ in rows], "criteria": desc,
            "form": G.criteria_form(rng, desc, one_shot=not groups or len(groups) < 2),
            "exclude_components": rng.random() < 0.5, "groups": groups, "dbfile": rng.random() < 0.2}


def gen_merge_dup(rng):
    """merge() over inputs in which 1..3 features occur twice or three times, identical in all nine columns and attributes."""
    base = G.random_feats(rng, nmax=7) if rng.random() < 0.7 else G.shaped_feats(rng, nmax=6)
    rows, copy_of = G.with_twins(rng, base)
    r = rng.random()
    desc = list(M.DEFAULT) if r < 0.5 else G.criteria(rng) if r < 0.85 else ["seqid", "strand", "feature_type", "exact_coordinates_only"]
    case = {"kind": "merge", "feats": rows, "criteria": desc, "dup": True, "again": rng.random() < 0.3, "second": G.criteria(rng),
            "omit_criteria": rng.random() < 0.5, "form": G.criteria_form(rng, desc)}
    if rng.random() < 0.5:
        case["source"] = "objects"
    else:
        case.update(source="db", ids=G.twin_ids(rng, copy_of, rng.choice(G.TWIN_MODES)), dbfile=rng.random() < 0.15)
    return case


def gen_merge_all_dup(rng):
    rows, copy_of = G.with_twins(rng, G.random_feats(rng, nmax=7))
    ids = G.twin_ids(rng, copy_of, rng.choice(G.TWIN_MODES))
    groups = None
    if rng.random() < 0.2:
        groups = rng.choice([[["exon"], ["CDS"]], [["exon", "CDS"]]])
    r = rng.random()
    desc = list(M.DEFAULT) if r < 0.5 else [] if r < 0.58 else G.tie_insensitive_criteria(rng)
    return {"kind": "merge_all", "feats": rows, "ids": ids, "parents": [[] for _ in rows], "criteria": desc, "dup": True,
            "form": G.criteria_form(rng, desc, one_shot=not groups or len(groups) < 2),
            "exclude_components": rng.random() < 0.5, "groups": groups, "dbfile": rng.random() < 0.15}


def gen_children_bp_dup(rng):
    seqid, strand = rng.choice(G.SEQIDS), rng.choice(G.STRANDS)
    base = [[seqid, strand, rng.choice(["exon", "exon", "exon", "CDS"]), s, e]
            for s, e in sorted(G.random_intervals(rng, rng.randrange(1, 7), span=rng.choice([12, 30])))]
    kid_rows, copy_of = G.with_twins(rng, base)
    kid_ids = G.twin_ids(rng, copy_of, rng.choice(G.TWIN_MODES))
    par = [[rng.choice(["T0", "T0", "G"])] for _ in base]
    kid_parents = []
    j = -1
    for c in copy_of:
        if c is None:
            j += 1
        kid_parents.append(list(par[j]))                    # a copy repeats the whole line of its original
    rows = [[seqid, strand, "gene", 1, 200], [seqid, strand, "mRNA", 1, 200]] + kid_rows
    ids = ["G", "T0"] + [None if i is None else "x" + i for i in kid_ids]
    parents = [[], ["G"]] + kid_parents
    calls = []
    for target in ("G", "T0"):
        for ctype in ("exon", "CDS"):
            calls.append({"of": target, "child_featuretype": ctype, "merge": False, "by": rng.choice(["id", "feature"])})
            calls.append({"of": target, "child_featuretype": ctype, "merge": True, "by": rng.choice(["id", "feature"])})
            if rng.random() < 0.4:
                desc = [] if rng.random() < 0.3 else G.tie_insensitive_criteria(rng)
                calls.append({"of": target, "child_featuretype": ctype, "merge": True, "by": rng.choice(["id", "feature"]),
                              "criteria": desc, "form": G.criteria_form(rng, desc)})
    return {"kind": "children_bp", "feats": rows, "ids": ids, "parents": parents, "calls": calls, "dup": True,
            "dbfile": rng.random() < 0.15}


def gen_merge_all_groups(rng, k):
    """Several featuretype groups, each with runs of its own, under criteria that differ from the default ones in effect,
    handed over in every form that can be iterated more than once."""
    rows = G.grouped_db_feats(rng)
    desc = G.non_default_criteria(rng)
    forms = ["list", "tuple", "set"] + (["callable"] if len(desc) == 1 else [])
    return {"kind": "merge_all", "feats": rows, "ids": G.ids_for(rng, rows), "parents": [[] for _ in rows], "criteria": desc,
            "form": forms[k % len(forms)], "exclude_components": rng.random() < 0.5, "groups": rng.choice(G.GROUP_SETS),
            "dbfile": rng.random() < 0.15}


def gen_merge_framed(rng):
    """merge() over runs inside which the frame column varies (objects or read from a database)."""
    rows, frames = G.framed_feats(rng)
    r = rng.random()
    desc = list(M.DEFAULT) if r < 0.65 else G.criteria(rng)
    case = {"kind": "merge", "feats": rows, "frames": frames, "criteria": desc, "again": rng.random() < 0.3,
            "second": list(M.DEFAULT) if rng.random() < 0.5 else G.criteria(rng), "omit_criteria": rng.random() < 0.5,
            "form": G.criteria_form(rng, desc)}
    if rng.random() < 0.6:
        case["source"] = "objects"
    else:
        case.update(source="db", ids=G.ids_for(rng, rows), dbfile=rng.random() < 0.15)
    return case


def gen_merge_all_framed(rng):
    rows, frames = G.framed_feats(rng, distinct_starts=True)
    ids = G.ids_for(rng, rows)
    order = list(range(len(rows)))
    rng.shuffle(order)
    rows, ids, frames = [rows[i] for i in order], [ids[i] for i in order], [frames[i] for i in order]
    groups = None
    if rng.random() < 0.3:
        groups = rng.choice([[["CDS"], ["exon"]], [["exon"], ["CDS"]], [["CDS", "exon"]]])
    desc = list(M.DEFAULT) if rng.random() < 0.7 else G.tie_insensitive_criteria(rng)
    return {"kind": "merge_all", "feats": rows, "ids": ids, "frames": frames, "parents": [[] for _ in rows], "criteria": desc,
            "form": G.criteria_form(rng, desc, one_shot=not groups or len(groups) < 2),
            "exclude_components": rng.random() < 0.5, "groups": groups, "dbfile": rng.random() < 0.15}


def gen_children_bp_framed(rng):
    """A gene / transcript whose CDS / exon children overlap and carry different frames, all on the gene's strand."""
    seqid, strand = rng.choice(G.SEQIDS), rng.choice(G.STRANDS)
    rows = [[seqid, strand, "gene", 1, 400], [seqid, strand, "mRNA", 1, 400]]
    ids, parents, frames = ["G", "T0"], [[], ["G"]], [".", "."]
    s = rng.randrange(1, 10)
    n = rng.randrange(2, 9)
    fr = G.frame_series(rng, n)
    for j in range(n):
        e = s + rng.choice([0, 2, 4, 9, 14])
        rows.append([seqid, strand, rng.choice(["CDS", "CDS", "CDS", "exon"]), s, e])
        ids.append("x%d" % j)
        parents.append(rng.choice([["T0"], ["T0"], ["G"], ["T0", "G"]]))
        frames.append(fr[j])
        r = rng.random()
        s = rng.randrange(s + 1, e + 2) if r < 0.6 else e + 1 if r < 0.7 else e + rng.randrange(2, 8)
    order = list(range(len(rows)))
    if rng.random() < 0.5:
        rng.shuffle(order)
    rows, ids, parents, frames = ([x[i] for i in order] for x in (rows, ids, parents, frames))
    calls = []
    for target in ("G", "T0"):
        for ctype in ("CDS", "exon"):
            calls.append({"of": target, "child_featuretype": ctype, "merge": False, "by": rng.choice(["id", "feature"])})
            calls.append({"of": target, "child_featuretype": ctype, "merge": True, "by": rng.choice(["id", "feature"])})
            if rng.random() < 0.4:
                calls.append({"of": target, "child_featuretype": ctype, "merge": True, "by": rng.choice(["id", "feature"]),
                              "criteria": list(M.DEFAULT), "form": G.criteria_form(rng, M.DEFAULT)})
    return {"kind": "children_bp", "feats": rows, "ids": ids, "parents": parents, "frames": frames, "calls": calls,
            "dbfile": rng.random() < 0.15}


def gen_merge_all_groups_exclude(rng, k):
    """(regression class) exclude_components=True with 2..3 featuretype groups, every group holding overlapping series of its
    own, so that multi-member runs occur in groups other than the last; most features hang under a 'locus' feature that
    belongs to no group, so that the members to be deleted hold relation rows."""
    rows = G.grouped_db_feats(rng)
    ids = G.ids_for(rng, rows)
    parents = [[] for _ in rows]
    frames = None
    if rng.random() < 0.7:
        seqid = rows[0][0]
        parents = [["L0"] if rng.random() < 0.7 else [] for _ in rows]
        rows = rows + [[seqid, ".", "locus", 1, max(r[4] for r in rows) + 3]]
        ids = ids + ["L0"]
        parents = parents + [[]]
    if rng.random() < 0.3:
        frames = [rng.choice(G.FRAMES) if r[2] == "CDS" else "." for r in rows]
    r = rng.random()
    desc = list(M.DEFAULT) if r < 0.5 else G.non_default_criteria(rng)
    forms = ["list", "tuple", "set"] + (["callable"] if len(desc) == 1 else [])
    case = {"kind": "merge_all", "feats": rows, "ids": ids, "parents": parents, "criteria": desc, "form": forms[k % len(forms)],
            "exclude_components": True, "groups": rng.choice(G.GROUP_SETS), "assert_relations": True, "dbfile": rng.random() < 0.15}
    if frames:
        case["frames"] = frames
    return case


def gen_special_merge(rng, k):
    """merge() over features read from a database whose featuretypes (seqids) hold LIKE / GLOB / regex characters and whose
    ids have the shape <featuretype>_<n> (explicit IDs, or lines without ID that gffutils keys that way)."""
    rows = G.random_feats(rng, nmax=8) if rng.random() < 0.7 else G.shaped_feats(rng, nmax=6)
    rows, _ = G.specialise(rng, rows)
    desc = list(M.DEFAULT) if rng.random() < 0.6 else G.criteria(rng)
    if is_default(desc) and rng.random() < 0.6:
        rows = G.group_then_start(rows)
    case = {"kind": "merge", "source": "db", "feats": rows, "criteria": desc, "again": rng.random() < 0.3, "second": G.criteria(rng),
            "dbfile": rng.random() < 0.15, "form": G.criteria_form(rng, desc), "special": True}
    if k % 4 == 3:
        case.update(ids=[None] * len(rows), dup=True)
    else:
        case["ids"] = G.shaped_ids(rng, rows)
    return case


def gen_special_merge_all(rng, k):
    """merge_all on such a database: explicit ids <featuretype>_<n>, lines without ID, or plain ids and a SECOND session on the
    database the first merge_all left behind (its merged features hold <featuretype>_1 ...).  Members are kept (with
    exclude_components an id of a member deleted earlier in the same call might be handed out again: not stated)."""
    rows = G.random_feats(rng, nmax=10) if rng.random() < 0.6 else G.grouped_db_feats(rng)
    rows, tmap = G.specialise(rng, rows)
    rng.shuffle(rows)
    desc = list(M.DEFAULT) if rng.random() < 0.6 else G.tie_insensitive_criteria(rng)
    groups = None
    if rng.random() < 0.25:
        groups = [[t] for t in sorted(tmap.values())]
        rng.shuffle(groups)
    mode = ("shaped", "shaped", "sessions", "idless")[k % 4]
    case = {"kind": "merge_all", "feats": rows, "parents": [[] for _ in rows], "criteria": desc, "exclude_components": False,
            "groups": groups, "form": G.criteria_form(rng, desc, one_shot=not groups or len(groups) < 2), "special": mode}
    if mode == "shaped":
        case.update(ids=G.shaped_ids(rng, rows), dbfile=rng.random() < 0.15)
    elif mode == "idless":
        case.update(ids=[None] * len(rows), dup=True, dbfile=rng.random() < 0.15)
    else:
        if case["form"] in G.ONE_SHOT_FORMS:
            case["form"] = "list"
        case.update(ids=G.ids_for(rng, rows), sessions=2, dbfile=rng.random() < 0.6)
    return case


def gen_nonbool_merge_all(rng):
    if rng.random() < 0.6:
        rows, desc = G.shaped_db_feats(rng), G.nonbool_criteria(rng)        # no ties on the merge order: any criterion
    else:
        rows, desc = G.random_feats(rng, nmax=10), G.nonbool_criteria(rng, tie_free=True)
        rng.shuffle(rows)
    groups = None
    if rng.random() < 0.2:
        groups = rng.choice([[["exon"], ["CDS", "gene"]], [["CDS"]], [["exon", "CDS", "gene"]]])
    forms = ["list", "tuple", "set"] + (["callable"] * 2 if len(desc) == 1 else [])
    return {"kind": "merge_all", "feats": rows, "ids": G.ids_for(rng, rows), "parents": [[] for _ in rows], "criteria": desc,
            "form": rng.choice(forms), "exclude_components": rng.random() < 0.5, "groups": groups, "dbfile": rng.random() < 0.15}


def gen_nonbool_children_bp(rng):
    """A gene / transcripts whose exon / CDS children (distinct starts, one strand) are merged by children_bp(merge=True)
    under criteria answering with non-bool values."""
    seqid, strand = rng.choice(G.SEQIDS), rng.choice(G.STRANDS)
    nt = rng.choice([1, 2])
    rows, ids, parents = [[seqid, strand, "gene", 1, 200]], ["G"], [[]]
    for t in range(nt):
        rows.append([seqid, strand, "mRNA", 1, 200])
        ids.append("T%d" % t)
        parents.append(["G"])
    for j, (s, e) in enumerate(G.random_intervals(rng, rng.randrange(2, 10), span=rng.choice([12, 30, 60]), distinct_starts=True)):
        rows.append([seqid, strand, rng.choice(["exon", "exon", "exon", "CDS"]), s, e])
        ids.append("x%d" % j)
        parents.append(rng.choice([["T%d" % rng.randrange(nt)], ["G"], ["T0", "G"]]))
    calls = []
    for target in ["G"] + ["T%d" % t for t in range(nt)]:
        for ctype in ("exon", "CDS"):
            for _ in range(2):
                desc = G.nonbool_criteria(rng)
                calls.append({"of": target, "child_featuretype": ctype, "merge": True, "by": rng.choice(["id", "feature"]),
                              "criteria": desc, "form": G.criteria_form(rng, desc)})
    return {"kind": "children_bp", "feats": rows, "ids": ids, "parents": parents, "calls": calls, "dbfile": rng.random() < 0.15}


def run(ctx):
    rng = ctx.rng
    kmax = 3 if ctx.tier == "quick" else 4
    # 1. exhaustive multisets x tie orders
    i = 0
    n_exh = 0
    for ms in G.multisets(kmax):
        i += 1
        if not ctx.mine(i):
            continue
        for ivs in G.start_orders(ms):
            n = len(ivs)
            second = G.criteria(rng) if rng.random() < 0.25 else rng.choice(
                [["seqid", ["overlap_end_threshold", 0]], ["seqid", "strand", "exact_coordinates_only"], list(M.DEFAULT)])
            case = {"kind": "merge", "source": "objects", "feats": G.rows(G.uniform_labels(rng, n), ivs), "criteria": list(M.DEFAULT),
                    "omit_criteria": rng.random() < 0.5, "again": True, "second": second,
                    "form": G.criteria_form(rng, M.DEFAULT)}
            run_merge_case(ctx, case, "merge/exhaustive uniform default")
            n_exh += 1
            if n > 1:
                feats = G.group_then_start(G.rows(G.mixed_labels(rng, n), ivs))
                case = {"kind": "merge", "source": "objects", "feats": feats, "criteria": list(M.DEFAULT), "again": False}
                run_merge_case(ctx, case, "merge/exhaustive grouped default")
            labels = G.uniform_labels(rng, n) if rng.random() < 0.5 else G.mixed_labels(rng, n)
            desc = G.criteria(rng)
            case = {"kind": "merge", "source": "objects", "feats": G.rows(labels, ivs), "criteria": desc,
                    "again": rng.random() < 0.15, "second": G.criteria(rng), "form": G.criteria_form(rng, desc)}
            run_merge_case(ctx, case, "merge/exhaustive criteria")
    ctx.mon("exhaustive (multiset, tie order) arrangements executed", n_exh)
    # 2. random lists, objects and databases
    for _ in range(ctx.budget(5000, 160000)):
        rows = G.random_feats(rng)
        r = rng.random()
        if r < 0.35:
            desc = list(M.DEFAULT)
            if rng.random() < 0.6:
                rows = G.group_then_start(rows)
        elif r < 0.45:
            desc = G.single_criterion(rng)
        else:
            desc = G.criteria(rng)
        case = {"kind": "merge", "source": "objects", "feats": rows, "criteria": desc, "again": rng.random() < 0.5,
                "second": G.criteria(rng), "omit_criteria": rng.random() < 0.5, "form": G.criteria_form(rng, desc)}
        run_merge_case(ctx, case, "merge/random objects")
    for _ in range(ctx.budget(1200, 32000)):
        rows = G.random_feats(rng)
        desc = list(M.DEFAULT) if rng.random() < 0.4 else G.criteria(rng)
        if is_default(desc) and rng.random() < 0.6:
            rows = G.group_then_start(rows)
        shaped = rng.random() < 0.1
        case = {"kind": "merge", "source": "db", "feats": rows, "ids": G.ids_for(rng, rows, shaped=shaped), "criteria": desc,
                "again": rng.random() < 0.5, "second": G.criteria(rng), "dbfile": rng.random() < 0.2,
                "form": G.criteria_form(rng, desc)}
        if shaped:
            ctx.classes["merge/random db with ids of the form <featuretype>_<n>"] += 1
        run_merge_case(ctx, case, "merge/random db")
    # 2b. shaped lists: a long interval with shorter ones inside it, uniform or with foreign labels inside
    for _ in range(ctx.budget(1600, 48000)):
        rows = G.shaped_feats(rng)
        desc = G.shaped_criteria(rng)
        case = {"kind": "merge", "source": "objects", "feats": rows, "criteria": desc, "again": rng.random() < 0.3,
                "second": G.shaped_criteria(rng), "omit_criteria": rng.random() < 0.3, "form": G.criteria_form(rng, desc)}
        run_merge_case(ctx, case, "merge/shaped objects")
    for _ in range(ctx.budget(400, 10000)):
        rows = G.shaped_feats(rng)
        desc = G.shaped_criteria(rng)
        case = {"kind": "merge", "source": "db", "feats": rows, "ids": G.ids_for(rng, rows), "criteria": desc,
                "again": rng.random() < 0.3, "second": G.shaped_criteria(rng), "dbfile": rng.random() < 0.2,
                "form": G.criteria_form(rng, desc)}
        run_merge_case(ctx, case, "merge/shaped db")
    # 3. merge_all
    for _ in range(ctx.budget(1200, 32000)):
        case = gen_merge_all(rng)
        execute(ctx, case)
        ctx.case((case["feats"], case["ids"], case["criteria"], case["exclude_components"], case["groups"]),
                 nontrivial(sorted(case["feats"], key=lambda r: (r[0], r[2], r[1], r[3])), case["criteria"]),
                 cls="merge_all/" + ("exclude" if case["exclude_components"] else "keep"))
    for _ in range(ctx.budget(500, 12000)):
        case = gen_merge_all_shaped(rng)
        execute(ctx, case)
        ctx.case((case["feats"], case["ids"], case["criteria"], case["exclude_components"], case["groups"], case["form"]),
                 nontrivial(sorted(case["feats"], key=lambda r: (r[0], r[2], r[1], r[3])), case["criteria"]),
                 cls="merge_all/shaped " + ("exclude" if case["exclude_components"] else "keep"))
    # 4. children_bp
    for _ in range(ctx.budget(600, 16000)):
        case = gen_children_bp(rng)
        execute(ctx, case)
        kids = [r for r in case["feats"] if r[2] == "exon"]
        ctx.case((case["feats"], case["parents"], case["calls"]), nontrivial(sorted(kids, key=lambda r: r[3]), M.DEFAULT),
                 cls="children_bp")
    # 5. features identical in all nine columns and attributes, through merge(), merge_all() and children_bp()
    for _ in range(ctx.budget(600, 24000)):
        case = gen_merge_dup(rng)
        execute(ctx, case)
        ctx.case((case["feats"], case["criteria"], case.get("second"), case["source"], case.get("ids")),
                 nontrivial(case["feats"], case["criteria"]), sample=case if len(case["feats"]) == 3 else None,
                 cls="merge/identical features " + case["source"])
    for _ in range(ctx.budget(240, 9000)):
        case = gen_merge_all_dup(rng)
        execute(ctx, case)
        ctx.case((case["feats"], case["ids"], case["criteria"], case["exclude_components"], case["groups"]),
                 nontrivial(sorted(case["feats"], key=lambda r: (r[0], r[2], r[1], r[3])), case["criteria"]),
                 cls="merge_all/identical features " + ("exclude" if case["exclude_components"] else "keep"))
    for _ in range(ctx.budget(100, 4000)):
        case = gen_children_bp_dup(rng)
        execute(ctx, case)
        ctx.case((case["feats"], case["ids"], case["parents"], case["calls"]), len(case["feats"]) > 4, cls="children_bp/identical features")
    # 6. no criterion at all (empty list / tuple): the three entry points on one database
    for _ in range(ctx.budget(200, 8000)):
        case = gen_empty(rng)
        execute(ctx, case)
        rows = sorted((r for r in case["feats"] if r[2] == "exon"), key=lambda r: r[3])
        ctx.case((case["feats"], case["ids"], case["parents"], case["form"], case["groups"], case["exclude_components"]),
                 len(M.single_pass([model_row(r) for r in rows], M.DEFAULT)) > 1, sample=case if len(case["feats"]) == 4 else None,
                 cls="empty criteria/" + case["form"])
    # 7. merge_all: several featuretype groups x every re-iterable form of merge_criteria
    for k in range(ctx.budget(240, 9000)):
        case = gen_merge_all_groups(rng, k)
        execute(ctx, case)
        ctx.case((case["feats"], case["criteria"], case["exclude_components"], case["groups"], case["form"]),
                 nontrivial(sorted(case["feats"], key=lambda r: (r[0], r[2], r[1], r[3])), case["criteria"]),
                 cls="merge_all/several groups, criteria as " + case["form"])
    # 8. the frame column varies inside the runs: merge(), merge_all(), children_bp()
    for _ in range(ctx.budget(1000, 48000)):
        case = gen_merge_framed(rng)
        execute(ctx, case)
        ctx.case((case["feats"], case["frames"], case["criteria"], case.get("second"), case["source"]),
                 nontrivial(case["feats"], case["criteria"]), sample=case if len(case["feats"]) == 3 else None,
                 cls="merge/frames varying inside runs, " + case["source"])
    for _ in range(ctx.budget(300, 12000)):
        case = gen_merge_all_framed(rng)
        execute(ctx, case)
        ctx.case((case["feats"], case["frames"], case["criteria"], case["exclude_components"], case["groups"]),
                 nontrivial(sorted(case["feats"], key=lambda r: (r[0], r[2], r[1], r[3])), case["criteria"]),
                 cls="merge_all/frames varying inside runs, " + ("exclude" if case["exclude_components"] else "keep"))
    for _ in range(ctx.budget(120, 6000)):
        case = gen_children_bp_framed(rng)
        execute(ctx, case)
        ctx.case((case["feats"], case["frames"], case["parents"], case["calls"]), len(set(case["frames"])) > 2,
                 cls="children_bp/frames varying among the children")
    # 9. (regression) exclude_components=True x several featuretype groups with runs in groups other than the last
    for k in range(ctx.budget(200, 9000)):
        case = gen_merge_all_groups_exclude(rng, k)
        execute(ctx, case)
        ctx.case((case["feats"], case["parents"], case["criteria"], case["groups"], case["form"], case.get("frames")),
                 nontrivial(sorted(case["feats"], key=lambda r: (r[0], r[2], r[1], r[3])), case["criteria"]),
                 cls="merge_all/several groups, exclude_components")
    # 10. multi-member outputs of an earlier merge() as inputs of a later, looser merge()
    for _ in range(ctx.budget(1600, 48000)):
        rows, first, second, new = G.remerge_feats(rng)
        case = {"kind": "remerge", "feats": rows, "criteria": first, "second": second, "new": new, "form": G.criteria_form(rng, second)}
        if rng.random() < 0.75:
            case["source"] = "objects"
        else:
            case.update(source="db", ids=G.ids_for(rng, rows), dbfile=rng.random() < 0.15)
        useful = execute(ctx, case)
        ctx.case((case["feats"], first, second, new, case["source"]), bool(useful), sample=case if len(rows) <= 4 else None,
                 cls="merge/outputs of an earlier merge() as inputs, " + case["source"])
    # 12. featuretypes / seqids holding LIKE / GLOB / regex characters, stored ids of the shape <featuretype>_<n>
    for k in range(ctx.budget(450, 20000)):
        case = gen_special_merge(rng, k)
        execute(ctx, case)
        ctx.case((case["feats"], case["ids"], case["criteria"], case.get("second")), any(len(r) > 1 for r in M.single_pass(
                 [model_row(r) for r in case["feats"]], case["criteria"])), sample=case if len(case["feats"]) == 3 else None,
                 cls="merge/pattern characters in featuretypes, ids <featuretype>_<n>" + (" (lines without ID)" if case.get("dup") else ""))
    for k in range(ctx.budget(400, 16000)):
        case = gen_special_merge_all(rng, k)
        execute(ctx, case)
        ctx.case((case["feats"], case["ids"], case["criteria"], case["groups"], case["special"]),
                 any(len(r) > 1 for r in M.single_pass([model_row(r) for r in sorted(case["feats"], key=lambda r: (r[0], r[2], r[1], r[3]))],
                                                       case["criteria"])),
                 cls="merge_all/pattern characters in featuretypes, " + {"shaped": "ids <featuretype>_<n>", "idless": "lines without ID",
                                                                         "sessions": "second session"}[case["special"]])
    # 13. criteria answering with truthy / falsy values that are not True / False
    for _ in range(ctx.budget(1200, 48000)):
        rows = G.random_feats(rng) if rng.random() < 0.7 else G.shaped_feats(rng)
        desc = G.nonbool_criteria(rng)
        case = {"kind": "merge", "feats": rows, "criteria": desc, "again": rng.random() < 0.3, "second": G.nonbool(rng, G.criteria(rng)),
                "form": G.criteria_form(rng, desc)}
        if rng.random() < 0.75:
            case["source"] = "objects"
        else:
            case.update(source="db", ids=G.ids_for(rng, rows), dbfile=rng.random() < 0.15)
        execute(ctx, case)
        ctx.case((case["feats"], desc, case.get("second"), case["source"]), falsy_decides([model_row(r) for r in rows], desc),
                 sample=case if len(rows) == 3 else None, cls="merge/criteria answering with non-bool values, " + case["source"])
    for _ in range(ctx.budget(300, 12000)):
        case = gen_nonbool_merge_all(rng)
        execute(ctx, case)
        ctx.case((case["feats"], case["criteria"], case["exclude_components"], case["groups"], case["form"]),
                 falsy_decides([model_row(r) for r in sorted(case["feats"], key=lambda r: (r[0], r[2], r[1], r[3]))], case["criteria"]),
                 cls="merge_all/criteria answering with non-bool values")
    for _ in range(ctx.budget(120, 5000)):
        case = gen_nonbool_children_bp(rng)
        info = execute(ctx, case)
        ctx.case((case["feats"], case["parents"], case["calls"]), bool(info and info.get("decisive")),
                 cls="children_bp/criteria answering with non-bool values")
    # 10b. seqids that hold a comma next to seqids equal to one of their parts; input objects hashed before merge()
    for _ in range(ctx.budget(600, 40000)):
        run_merge_case(ctx, gen_comma(rng), "merge/seqids holding a comma next to seqids equal to one of their parts")
    for _ in range(ctx.budget(800, 48000)):
        case = gen_hashed(rng)
        run_merge_case(ctx, case, "merge/input objects hashed before merge()")
        ctx.classes["merge/hashed: " + case["hashed"]["what"]] += 1
    # 11. ONE very long run (>= 1000 chained members) through merge_all, with and without exclude_components: one shard of four
    if ctx.shard % 4 == 1:
        for exclude in (True, False):
            case = {"kind": "long", "seed": rng.randrange(1 << 30), "n": rng.randrange(1000, 1101), "exclude_components": exclude,
                    "form": rng.choice(["list", "tuple"]), "dbfile": exclude and rng.random() < 0.5}
            ok = execute(ctx, case)
            ctx.case(("long", case["seed"], case["n"], exclude), bool(ok), sample=case,
                     cls="merge_all/one run of >= 1000 members, " + ("exclude" if exclude else "keep"))
    ctx.mon("bins.bins contract evaluations", contracts.EVALS["bins.bins"])


MANIFEST = {
    "technique": "exhaustive small interval multisets + random lists -> real merge / merge_all / children_bp; single-pass "
                 "criteria model, independent position-set union, identity partition, content-dump comparison",
    "text": "Every start-ordered arrangement (both tie orders) of every multiset of up to 3 (quick) or 4 (thorough) intervals on "
            "8 positions, and random lists of up to 12 intervals, are merged by the real merge() under the default criteria and "
            "under criteria lists drawn from every shipped criterion, thresholds 0..5 and reflexive custom predicates. Outputs are "
            "mapped to the input objects by identity (partition), run boundaries are compared with a single-pass reference model "
            "parameterised by the criteria, extents with min/max of the children and, under the default criteria, with an "
            "independent position-set union per (seqid, strand, type); ids must be new and distinct; inputs' printed form and an "
            "independent dump of the database must not change; the same objects and the yielded objects are merged again. "
            "merge_all is judged on the content dump (new feature per multi-member run, level-1 relations or deletions, all other "
            "rows untouched), children_bp against summed lengths and union sizes (each child once, also when it is related to the "
            "queried feature at levels 1 and 2). Shaped workloads put shorter features inside a long one (overlapping, touching or "
            "detached from their predecessor; on the same or another seqid / strand / type) so that absorption by the run's extent "
            "and rejection inside the extent are frequent, through merge() and merge_all(); merge_criteria is handed over as list, "
            "tuple, set, generator, iterator, chain or bare callable to merge(), merge_all() and children_bp(). "
            "Further classes: inputs holding features identical in all nine columns and attributes (objects, id-less lines, "
            "repeated IDs under create_unique), each copy an input of its own in the partition (by identity and by id), in "
            "merge_all's relations / deletions and in children_bp; an EMPTY merge_criteria list / tuple (one run over everything) "
            "through merge(), children_bp(merge=True) and merge_all() on the same database, compared with each other; merge_all "
            "over several featuretype groups under non-default criteria given as list, tuple, set or one callable; runs inside "
            "which the frame column varies (0/2/1 cycles, '.' mixed with digits, late changes) on '+', '-' and '.' through "
            "merge(), merge_all() and children_bp(): extents stay the maximal union, the output reports the strand its children "
            "share, children_bp(merge=True) equals the union size; merge_all(exclude_components=True) over several featuretype "
            "groups with multi-member runs in groups other than the last: every member of every run, and every relation row "
            "naming it, is gone afterwards; two-stage merges in which the multi-member outputs of a per-strand merge() open and join "
            "runs of a later, looser merge() (strand ignored or wider reach, new features mixed in): they are inputs like any other "
            "- not mutated (printed form, id, columns, children list), every merged output a new object with a new id, partition and "
            "extents as the model says, the same result when the same objects are merged once more; and one run of 1000..1100 "
            "chained members through merge_all with and without exclude_components (every member, the 998th, 999th, 1000th ... "
            "included, deleted together with its relation rows / related to the new feature); featuretypes and seqids holding "
            "LIKE / GLOB / regex characters (CDS[partial], exon*, match?, a%b, x_y, ...) with stored ids of the shape "
            "<featuretype>_<n> (explicit, id-less lines, or stored by an earlier session's merge_all): every id merge() / "
            "merge_all() hands out is new and distinct and merge_all stores its features; criteria that answer with truthy / "
            "falsy values other than True / False (None, '', [], (), 0, match objects, 'x', 1) through merge(), merge_all() and "
            "children_bp(merge=True): a falsy answer rejects the pair, as in all(). "
            "Seqids that literally hold a comma ('ctg,7') lead clusters whose followers lie on seqids equal to one of the comma-"
            "separated parts ('7', 'ctg') with overlapping coordinates: under criteria holding `seqid` a feature joins a run on its "
            "own seqid only. Input objects that were hashed before merge() (dict.fromkeys de-duplication, set members, dict keys), as "
            "first and as later members of multi-member runs, give the partition, extents and ids of fresh objects, also when merged "
            "again. "
            "Held = no executed case disagreed.",
    "note": "Not generated: runs of >= 3 features on one comma-holding seqid (the unchanged tree splits them, see assumptions). "
            "Trusted: gvmon/models/c16_merge.py (its reading of the undocumented criteria names), create_db. Not asserted: "
            "bin / attributes / source / seqid / strand / type of in-memory merged outputs under non-default criteria, the frame a "
            "merged output reports, output "
            "order, persistence of the id counters merge_all advances.",
}
