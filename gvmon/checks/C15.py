"""
C15  Interfeatures, introns and splice sites have exact gap geometry.

Model comparison: the real FeatureDB.interfeatures / create_introns / create_splice_sites are run on generated ordered
feature lists (Feature objects, and features read back from GFF3 / GTF databases) and on generated gene models; every
yielded feature is compared with the pairwise reference model of gvmon/models/c15_gaps.py (written from the statement).
Inputs' str() and an independent content dump of the database are compared before / after every call, and the SQL
trace of gffutils' own connection is searched for write statements.
"""
import copy
import json
import random
import re
import os
from collections import Counter

from gvmon import dbdump
from gvmon.gen import c15_gen as G
from gvmon.models import c15_gaps as M
from gvmon.monitors import contracts, sqltrace

G_NUMBER = re.compile(r"^-?[0-9]+(\.[0-9]+)?$")
RULE = ("lists of 1..8 features, start-ordered inside each seqid block, consecutive pairs drawn from {1-base gap, longer gap, "
        "touching, overlapping, nested, identical, seqid change with and without room in between} x strands {+,-,.} mixed or "
        "uniform x attribute sets sharing keys with equal / different / numeric / multiple values x new_featuretype x "
        "merge_attributes x numeric_sort x update_attributes, fed as Feature objects and as features read from GFF3 and GTF "
        "databases; numeric IDs include pairs whose numeric and text orders disagree (9/10, 2/10, 99/100); lists whose "
        "consecutive neighbours carry exactly equal attribute dictionaries with unsorted and / or repeated multi-valued "
        "attributes (objects; GFF3 / GTF databases without ID attributes); gene models of 1..3 genes x 1..3 transcripts x "
        "1..6 exons (distinct starts per transcript; + CDS) on +/-/. in GFF3 (exons all on the other strand, all '.', or "
        "randomly stranded under the transcript in about a third of the GFF3 transcripts) and GTF, a quarter of the "
        "transcripts with a long exon that strictly contains later exons, grouped by grandparent or parent type; every "
        "create_splice_sites case is also cross-checked against the introns create_introns yields on the same database; "
        "databases of 2..4 transcripts with DIFFERENT strands drawn from {+,-,.,?} (under one gene or one gene each, over the "
        "same or different coordinates) in every file order, so that sites of a '.' / '?' transcript are produced after a '+' "
        "one, after a '-' one and first in the same call (the order actually taken is read off the yielded features); "
        "databases that already hold derived features: db.update(list(create_x())) (optionally the other kind too), reopen, "
        "call create_x again -> same yield as the first call and as the model, content dump and SQL trace unchanged; "
        "update_attributes with 1..3 single-valued entries chosen from the keys the neighbours carry (override), keys they do "
        "not carry (addition) and a one-valued ID, merge_attributes on / off, objects and databases; "
        "Feature objects built by the caller from a plain dict whose single-valued entries are BARE STRINGS "
        "(Feature(attributes={'ID': 'ex1', 'Parent': 'mRNA1'}); 75% of the single-valued entries; half of the lists share one "
        "Parent value), or given them by item assignment f.attributes[key] = 'string' (on a plain dict: stays a bare string; on "
        "attributes parsed from text), 30% with update_attributes holding bare strings - a bare string is ONE value; 'fed "
        "back' cases: interfeatures(update_attributes={'Parent': 'mRNA1', ...}) over such / ordinary lists, then the yielded "
        "features fed, as they are, to interfeatures again; GFF3 hierarchies gene -> primary_transcript / mRNA / ncRNA -> exon "
        "plus transcript -> miRNA / other feature -> exon (1..3 nested features, a fifth of them one level deeper, nested exons "
        "inside / between / beyond the transcript's own exons, 12% of them naming the transcript as a second Parent), grouped "
        "by grandparent gene or by parent_featuretype = any non-gene, non-exon type present: the exons of a transcript are the "
        "exon-typed features whose Parent values name it; "
        "'alias' cases: lists of 3..8 features (objects; every 8th read from a GFF3 database), merge_attributes on / off (50%), "
        "update_attributes (85%) = the caller's dictionary of 1..3 non-ID keys the neighbours carry or not, each a list of 1..3 "
        "values (several-valued in 60%), plus a one-valued ID in 40%; the consumer compares every yielded feature with the model "
        "at yield time and EDITS it in place - lazily while iterating (70%) and once more after collecting: ID set by item "
        "assignment, values appended to the lists under keys that update_attributes does not give, a key added, a key of "
        "update_attributes re-assigned; after every edit every other yielded feature, a deep snapshot of the caller's "
        "update_attributes and the inputs' attribute mappings are compared; "
        "'several seqids' cases: GFF3 (75%) / GTF databases of 1..2 genes x 1..2 transcripts in which the exons of one "
        "transcript lie on 2..3 seqids following A B A / A A B B A A / A B C A / random patterns over start-ordered intervals "
        "(mostly gapped), so that start order differs from (seqid, start) order: the exons are taken in start order and a "
        "change of seqid between start-neighbours makes no gap (chr1:100-200, chr2:300-400, chr1:500-600 -> nothing); "
        "non-trivial = a transcript for which taking the exons seqid by seqid would give other features; "
        "'empty values' cases: lists in which 1..2 keys (Note, Dbxref, tag, partial) are carried by most features with an EMPTY "
        "value list on half of them - Feature objects ({key: []} / attribute text 'Note=' or a bare flag), GFF3 and GTF (key "
        "\"\";) databases: the union is the other neighbour's values, empty when both are empty; "
        "'zero-length' cases: ordered lists (Feature objects) in which 1..2 features, at any position (first, middle, last, two in "
        "a row), are EMPTY - written end == start - 1, an insertion point between two bases - with every option of the plain "
        "lists: the pairwise law holds for every consecutive pair whatever the length of the neighbours (previous.end+1 .. "
        "next.start-1 after an empty feature starts AT its start; a following feature that starts at the same position touches it); "
        "non-trivial = at least one gap and at least one suppressed pair (touching / overlapping / seqid change) in the "
        "list or in one transcript ('alias' cases: at least two yielded features); distinct = distinct (records, options) tuples")
REQUIRED = ["interfeatures calls", "gap features compared", "suppressed pairs: touching", "suppressed pairs: overlapping",
            "suppressed pairs: seqid change", "one-base gaps compared", "attribute unions compared", "ID values joined",
            "numeric orderings compared", "input str() comparisons", "database dumps compared", "create_introns calls",
            "introns compared", "create_splice_sites calls", "splice sites compared",
            "splice sites of minus-strand transcripts compared",
            "equal attribute dictionaries with unsorted values: unions compared",
            "equal attribute dictionaries with repeated values: unions compared",
            "equal attribute dictionaries with unsorted or repeated values: unions compared (features read from a database)",
            "numeric IDs in disagreeing numeric / text order joined: numeric_sort on",
            "numeric IDs in disagreeing numeric / text order joined: numeric_sort off",
            "splice sites compared whose strand differs from a +/- transcript's strand",
            "splice sites compared: '.' exons under a +/- transcript",
            "splice sites compared: exons on the opposite strand of a +/- transcript",
            "introns compared whose strand differs from the transcript's strand",
            "introns compared: both neighbours strictly nested inside an earlier exon",
            "splice sites compared: both neighbours strictly nested inside an earlier exon",
            "splice sites cross-checked against the ends of the introns create_introns yields",
            "create_splice_sites calls on a database whose transcripts (with introns) have different strands",
            "create_introns calls on a database whose transcripts (with introns) have different strands",
            "splice sites of a '.' transcript yielded directly after those of a '+' transcript",
            "splice sites of a '.' transcript yielded directly after those of a '-' transcript",
            "splice sites of a '?' transcript yielded directly after those of a '+' transcript",
            "splice sites of a '?' transcript yielded directly after those of a '-' transcript",
            "splice sites of a +/- transcript yielded directly after those of a transcript that is neither",
            "splice sites: the first yielded feature belongs to a transcript that is neither '+' nor '-' (others follow)",
            "splice sites of '?'-strand transcripts compared",
            "derived features stored by update() before the second call",
            "databases holding derived features reopened",
            "second calls on a database holding derived features: yield compared with the first call and the model",
            "database dumps compared around a call on a database holding its own derived features",
            "database dumps compared around a call on a database holding both kinds of derived features",
            "update_attributes: single-valued key overriding a key both neighbours carry",
            "update_attributes: single-valued key overriding a key one neighbour carries",
            "update_attributes: single-valued key added that neither neighbour carries",
            "update_attributes: single-valued ID replacing the joined ID of the neighbours",
            "update_attributes: single-valued key overriding a key both neighbours carry (features read from a database)",
            "update_attributes: single-valued key added that neither neighbour carries (features read from a database)",
            "bare strings: gap features compared with a bare-string neighbour",
            "bare strings: neighbour built with Feature(attributes={key: 'string'})",
            "bare strings: neighbour given f.attributes[key] = 'string' on a plain dict",
            "bare strings: two bare-string IDs joined by '-'",
            "bare strings: unions compared of two equal bare strings under one key",
            "bare strings: unions compared of two different bare strings under one key",
            "bare strings: unions compared of a bare string and a value list under one key",
            "bare strings: unions compared of a bare string under a key the other neighbour does not carry",
            "item assignment f.attributes[key] = 'string' on attributes parsed from text: unions compared",
            "input attribute mappings compared before / after (values and bare / list form)",
            "fed back: first-stage features compared (update_attributes holding bare strings)",
            "fed back: interfeatures calls on the features an earlier call yielded",
            "fed back: unions compared of two equal bare strings under one key"] + \
           ["nested: %s compared where pooling the deeper exons with the transcript's own would give other features (%s mode)"
            % (w, m) for w in ("introns", "splice sites") for m in ("grandparent", "parent_featuretype")] + \
           ["nested: transcripts compared that have exon-typed descendants below level 1 (%s mode)" % m
            for m in ("grandparent", "parent_featuretype")] + \
           ["nested: the nested features themselves taken as transcripts (parent_featuretype mode), own exons compared",
            "aliasing: interfeatures calls whose yielded features were edited in place while iterating lazily",
            "aliasing: interfeatures calls whose yielded features were edited in place after collecting",
            "aliasing: yielded features given an ID in place (item assignment)",
            "aliasing: values appended in place to a list of a yielded feature (key not given by update_attributes)",
            "aliasing: values appended in place to a list that came from update_attributes",
            "aliasing: a key given by update_attributes re-assigned in place on a yielded feature",
            "aliasing: other yielded features compared after an in-place edit",
            "aliasing: input attribute mappings compared after an in-place edit"] + \
           ["aliasing: %s: merge_attributes %s" % (w, m) for m in ("on", "off") for w in
            ("the caller's update_attributes dictionary compared (deep) after an in-place edit",
             "... holding several-valued lists under non-ID keys")] + \
           ["aliasing: later features compared at yield time after an earlier one was edited in place: merge_attributes %s, "
            "update_attributes given" % m for m in ("on", "off")] + \
           [t % w for w in ("introns", "splice sites") for t in (
               "multi-seqid: transcripts compared whose exons lie on two or more seqids (%s)",
               "multi-seqid: transcripts compared whose start order differs from (seqid, start) order (%s)",
               "multi-seqid: transcripts compared with two exons of one seqid separated in start order by an exon on another (%s)",
               "multi-seqid: transcripts compared with 2+ exons on each of two or more seqids (%s)",
               "multi-seqid: transcripts compared that have no intron at all although exons of one seqid have room between them (%s)",
               "multi-seqid: %s compared where grouping each transcript's exons per seqid first would give other features")] + \
           ["empty values: unions compared of a key both neighbours carry, empty on %s%s" % (side, src)
            for side in ("the downstream neighbour only", "the upstream neighbour only", "both neighbours")
            for src in ("", " (features read from a gff3 database)", " (features read from a gtf database)")] + \
           ["zero-length features (end == start - 1): gap features compared whose upstream neighbour is empty",
            "zero-length features (end == start - 1): gap features compared whose downstream neighbour is empty",
            "zero-length features (end == start - 1): gap features compared that follow an earlier pair with an empty neighbour",
            "zero-length features (end == start - 1): lists compared whose FIRST feature is empty and is followed by a gap",
            "zero-length features (end == start - 1): suppressed pairs (touching) with an empty neighbour"]
REQUIRED_CLASSES = ["list/objects", "list/db gff3", "list/db gtf", "introns/gff3", "introns/gtf", "splice/gff3", "splice/gtf",
                    "list/objects equal attributes", "list/db gff3 equal attributes", "list/db gtf equal attributes",
                    "list/objects update_attributes", "list/db update_attributes",
                    "splice/gff3 transcripts of different strands", "splice/gtf transcripts of different strands",
                    "introns/gff3 transcripts of different strands", "introns/gtf transcripts of different strands",
                    "introns/gff3 on a database holding derived features", "introns/gtf on a database holding derived features",
                    "splice/gff3 on a database holding derived features", "splice/gtf on a database holding derived features",
                    "list/objects bare strings (plain dict)", "list/objects bare strings (item assignment on parsed text)",
                    "list/objects fed back from an earlier call", "introns/gff3 exons nested below a transcript's exons",
                    "splice/gff3 exons nested below a transcript's exons", "list/objects yielded features edited in place",
                    "list/db gff3 yielded features edited in place",
                    "introns/gff3 exons of one transcript on several seqids", "splice/gff3 exons of one transcript on several seqids",
                    "introns/gtf exons of one transcript on several seqids", "splice/gtf exons of one transcript on several seqids",
                    "list/objects empty values under a shared key", "list/db gff3 empty values under a shared key",
                    "list/db gtf empty values under a shared key", "list/objects zero-length features"]
ASSUMPTIONS = [
    "'at least one base between them' = next.start - previous.end >= 2; lists are start-ordered inside a block of one seqid "
    "(the statement speaks of features given in order), exon starts are distinct inside a transcript",
    "'sorted union' = Python code-point order of the distinct values; under numeric_sort numeric order when every value of "
    "the key matches -?digits(.digits)?; numerically equal values written differently ('2', '2.0') are generated and may come in any order among themselves",
    "with merge_attributes=False the statement does not determine the attributes (docstrings disagree with each other): only "
    "geometry, type, strand and the keys of update_attributes are compared; update_attributes never sets several ID values",
    "score, frame, source, bin and key order of the yielded features are not part of the statement and not compared; "
    "the order of the features yielded by create_introns / create_splice_sites is not compared (multiset)",
    "GTF: all exons/CDS of a transcript share strand (and, outside the 'several seqids' class, seqid), and the inferred "
    "transcript has that strand (C03's domain); the seqid of an inferred transcript / gene is not looked at",
    "'the start-ordered exons of each transcript' = ALL its exons ordered by start alone, whatever seqid they lie on (exon "
    "starts are distinct inside a transcript, also across seqids); 'none across a change of seqid' then applies to "
    "start-neighbours: two exons of one seqid with an exon of another seqid between them in start order have no intron",
    "an attribute key with an empty value list (Note=, a bare flag, GTF key \"\";, {key: []}) contributes no value to the union: "
    "the union under a key both neighbours carry is the other neighbour's values, and [] when both are empty",
    "a transcript whose strand is neither '+' nor '-' ('.' or '?') gets the label 'splice_site' on both sides, whatever "
    "transcripts were visited before it in the same call",
    "derived features are stored with update(..., merge_strategy='create_unique') (GTF: gene / transcript inference off); "
    "update() itself is not judged here: a case in which it raises or stores another number of features is skipped and counted; "
    "stored derived features are of a type other than the exon featuretype, so the statement's gaps do not depend on them",
    "an attribute entry the caller wrote as a bare string (plain-dict attributes, item assignment, update_attributes) is ONE "
    "value of that key; the yielded feature's entries are read the same way (a bare string = one value).  Not generated, hence "
    "not judged: update_attributes whose ID entry is a bare string of several characters - the unchanged tree yields "
    "ID=['n-e-w-i-d'] for update_attributes={'ID': 'newid'} (merge_attributes on or off); one-element lists are used for ID",
    "'the exons of each transcript' = the features of the exon featuretype whose Parent values name the transcript (level-1 "
    "children); exon-typed features further down (exons of a miRNA under a primary_transcript) belong to the nested feature, "
    "which is a transcript itself only when parent_featuretype names its type; the transcripts are the features whose Parent "
    "names a feature of the grandparent type (grandparent mode) or the features of parent_featuretype",
    "a feature may be empty (end == start - 1, an insertion point; Feature objects accept it): the statement's pairwise law is "
    "applied to it like to any other feature - bases between = next.start - previous.end - 1.  Features with end < start - 1 "
    "(negative length) are not generated",
    "'inputs are unchanged' includes the dictionary handed in as update_attributes: whatever a consumer does to a yielded "
    "feature's own attributes (item assignment, appending to its lists) changes neither another yielded feature nor the "
    "caller's update_attributes nor an input, and a feature is yielded as the model says whatever was done to the ones before "
    "it (F-C15-1, repaired: the value lists of update_attributes were shared by reference).  The consumer's edits are item "
    "assignments (ID, a new key, a key of update_attributes) and appends to any list, also those that came from update_attributes",
]
QUICK_SHARDS = 4
THOROUGH_SHARDS = 16

_SCRATCH = {}


def setup(ctx):
    contracts.install_all()
    sqltrace.install()


def scratch_db():
    """A small database that serves as `self` when the inputs are Feature objects."""
    import gffutils

    if "db" not in _SCRATCH:
        text = "c1\tsrc\tgene\t1\t90\t.\t+\t.\tID=keep1\nc1\tsrc\texon\t5\t9\t.\t+\t.\tID=keep2;Parent=keep1\n"
        _SCRATCH["db"] = gffutils.create_db(text, ":memory:", from_string=True)
    return _SCRATCH["db"]


def to_model(rec):
    """The model feature of a record; an attrs entry written as a bare string is ONE value, and an item assignment
    ("assign": [[key, "value"], ...]) makes that one value the values of the key."""
    attrs = {k: M.values_of(v) for k, v in rec["attrs"]}
    for k, v in rec.get("assign", ()):
        attrs[k] = M.values_of(v)
    return {"seqid": rec["seqid"], "start": rec["start"], "end": rec["end"], "strand": rec["strand"],
            "featuretype": rec["featuretype"], "attrs": attrs}


def build_feature(rec, i, build=None):
    """The Feature object the CALLER makes from a record: attributes as a plain dict (bare strings stay bare strings) or,
    build == "string", as attribute text; then the record's item assignments f.attributes[key] = "value"."""
    import gffutils

    if build == "string":
        attributes = G.render_attrs(rec["attrs"], "gff3")
    else:
        attributes = {k: (v if isinstance(v, str) else list(v)) for k, v in rec["attrs"]}
    f = gffutils.Feature(seqid=rec["seqid"], source="src", featuretype=rec["featuretype"], start=rec["start"], end=rec["end"],
                         strand=rec["strand"], attributes=attributes, id="in%d" % i)
    for k, v in rec.get("assign", ()):
        f.attributes[k] = v
    return f


def raw_attrs(f):
    """The attribute mapping of a Feature as it is held (bare strings and lists told apart), JSON-able."""
    a = f.attributes
    d = a if type(a) is dict else getattr(a, "_d", None)
    if d is None:
        d = {k: a[k] for k in a.keys()}
    return {k: (v if isinstance(v, str) else list(v)) for k, v in d.items()}


def attrs_of(f):
    out = {}
    for k in f.attributes.keys():
        v = f.attributes[k]
        out[k] = list(v) if isinstance(v, (list, tuple)) else [v]
    return out


def tie_norm(attrs):
    """The statement fixes numeric order but not the order of numerically equal values written differently
    ('2' and '2.0'): inside a run of equal numbers the values are put in text order before comparing."""
    out = {}
    for k, vals in attrs.items():
        vals = list(vals)
        if len(vals) > 1 and all(G_NUMBER.match(v) for v in vals):
            res, i = [], 0
            while i < len(vals):
                j = i
                while j + 1 < len(vals) and float(vals[j + 1]) == float(vals[i]):
                    j += 1
                res.extend(sorted(vals[i:j + 1]))
                i = j + 1
            vals = res
        out[k] = vals
    return out


def geometry(f):
    return {"seqid": f.seqid, "start": f.start, "end": f.end, "featuretype": f.featuretype, "strand": f.strand}


def compare_gap(f, exp):
    """None or a short reason."""
    got = geometry(f)
    for k in ("seqid", "start", "end", "featuretype", "strand"):
        if got[k] != exp[k]:
            return "coordinates differ" if k in ("start", "end") else "%s differs" % k
    a = attrs_of(f)
    if exp.get("attrs") is not None:
        if tie_norm(a) != tie_norm(exp["attrs"]):
            return "attributes differ"
    else:
        for k, v in exp.get("must_have", {}).items():
            if a.get(k) != v:
                return "update_attributes not applied"
    return None


def open_db(ctx, case, text, fmt, **kw):
    import gffutils

    dbfn = ctx.tmp(".db") if case.get("dbfile") else ":memory:"
    db = gffutils.create_db(text, dbfn, from_string=True, **kw)
    return db, dbfn


def close_db(db, dbfn):
    try:
        db.conn.close()
    except Exception:
        pass
    if dbfn != ":memory:":
        for p in (dbfn, dbfn + ".bak"):
            if os.path.exists(p):
                os.unlink(p)


class Watch(object):
    """str() of inputs, content dump and SQL trace around one call of the real code."""

    def __init__(self, ctx, db, inputs=()):
        self.ctx, self.db, self.inputs = ctx, db, list(inputs)
        self.strs = [str(f) for f in self.inputs]
        self.dump = dbdump.dump_db(db)
        self.log0, self.auth0 = len(sqltrace.LOG), len(sqltrace.AUTH)

    def finish(self):
        """None or (reason, detail)"""
        ctx = self.ctx
        stmts, auth = sqltrace.writes(since_log=self.log0, since_auth=self.auth0)
        ctx.mon("SQL statements observed during calls", len(sqltrace.LOG) - self.log0)
        sqltrace.reset()
        after = [str(f) for f in self.inputs]
        ctx.mon("input str() comparisons", len(after))
        if after != self.strs:
            i = [x != y for x, y in zip(self.strs, after)].index(True)
            return "an input feature was changed by the call", {"before": self.strs[i], "after": after[i]}
        d = dbdump.diff(self.dump, dbdump.dump_db(self.db))
        ctx.mon("database dumps compared")
        if d:
            return "database content changed by the call", {"diff": d}
        if stmts or auth:
            return "write statement on the database connection during the call", {"statements": stmts[:3], "authorizer": auth[:3]}
        return None


def count_expectations(ctx, exp, suppressed):
    for k, n in suppressed.items():
        ctx.mon("suppressed pairs: " + k, n)
    for g in exp:
        if g["start"] == g["end"]:
            ctx.mon("one-base gaps compared")
        if g.get("attrs") is not None:
            ctx.mon("attribute unions compared")


def execute(ctx, case):
    kind = case["kind"]
    try:
        if kind == "list":
            return execute_list(ctx, case)
        if kind == "fedback":
            return execute_fedback(ctx, case)
        if kind == "derived":
            return execute_derived(ctx, case)
        if kind == "alias":
            return execute_alias(ctx, case)
        return execute_model(ctx, case)
    finally:
        for v in contracts.drain():
            ctx.violation(case, v)


# -- interfeatures on a list -------------------------------------------------------------------------------------------
def execute_list(ctx, case):
    import gffutils

    recs = case["feats"]
    opts = case["opts"]
    source = case["source"]
    info = {"gaps": 0, "suppressed": 0}
    db = dbfn = None
    try:
        if source == "objects":
            db = scratch_db()
            feats = [build_feature(r, i, case.get("build")) for i, r in enumerate(recs)]
            model_in = [to_model(r) for r in recs]
            if [attrs_of(f) for f in feats] != [m["attrs"] for m in model_in]:
                ctx.violation(case, {"why": "harness: a Feature object does not carry the values of its record"})
                return info
        else:
            kw = {"id_spec": "ID"}
            if source == "gtf":
                kw.update(disable_infer_genes=True, disable_infer_transcripts=True)
            try:
                db, dbfn = open_db(ctx, case, G.render(recs, source), source, **kw)
                stored = list(db.all_features())
            except Exception as ex:
                ctx.violation(case, {"why": "harness: building the input database raised %r" % (ex,)})
                return info
            if case.get("by_order"):
                # records without ID attributes: the stored features are taken in insertion (= file) order and must
                # agree with their records column by column
                try:
                    ids = [row[0] for row in db.execute("SELECT id FROM features ORDER BY rowid")]
                    feats = [db[i] for i in ids]
                except Exception as ex:
                    ctx.violation(case, {"why": "harness: reading the stored features back raised %r" % (ex,)})
                    return info
                if len(feats) != len(recs) or any(geometry(f) != {k: r[k] for k in ("seqid", "start", "end", "featuretype", "strand")}
                                                  for f, r in zip(feats, recs)):
                    ctx.violation(case, {"why": "harness: a stored feature cannot be mapped to its record"})
                    return info
            else:
                try:
                    by_id = {f.attributes["ID"][0]: f for f in stored}
                    feats = [by_id[r_id(r)] for r in recs]   # the order the records were written in
                except KeyError:
                    ctx.violation(case, {"why": "harness: a stored feature cannot be mapped to its record"})
                    return info
                if len(stored) != len(recs) or len(by_id) != len(recs):
                    ctx.violation(case, {"why": "harness: %d features stored for %d records" % (len(stored), len(recs))})
                    return info
            model_in = [to_model(r) for r in recs]
        exp, suppressed = M.gaps(model_in, new_featuretype=opts["new_featuretype"], merge_attributes=opts["merge_attributes"],
                                 numeric_sort=opts["numeric_sort"], update_attributes=opts["update_attributes"])
        info = {"gaps": len(exp), "suppressed": sum(suppressed.values())}
        real_attrs = [attrs_of(f) for f in feats]    # what the real neighbours carry (evidence counters only)
        held = [raw_attrs(f) for f in feats] if source == "objects" else None
        w = Watch(ctx, db, feats)
        upd = None if opts["update_attributes"] is None else {k: (v if isinstance(v, str) else list(v))
                                                              for k, v in opts["update_attributes"].items()}
        try:
            out = list(db.interfeatures(iter(feats), new_featuretype=opts["new_featuretype"],
                                        merge_attributes=opts["merge_attributes"], numeric_sort=opts["numeric_sort"],
                                        update_attributes=upd))
        except Exception as ex:
            ctx.violation(case, {"why": "interfeatures raised %s" % type(ex).__name__, "error": repr(ex)})
            return info
        ctx.mon("interfeatures calls")
        count_expectations(ctx, exp, suppressed)
        shown = {"got": [short(f) for f in out][:10], "expected": exp[:10]}
        if len(out) != len(exp):
            ctx.violation(case, dict(shown, why="interfeatures yielded %s features than the pairs with a gap" % (
                "more" if len(out) > len(exp) else "fewer"), n_got=len(out), n_expected=len(exp)))
            return info
        for i, (f, g) in enumerate(zip(out, exp)):
            ctx.mon("gap features compared")
            why = compare_gap(f, g)
            if why:
                ctx.violation(case, {"why": "interfeatures: " + why, "index": i, "got": short(f), "expected": g})
                return info
            count_attr_evidence(ctx, g, model_in, opts)
            count_pair_evidence(ctx, g, real_attrs, opts, from_db=source if source != "objects" else False)
            count_update_evidence(ctx, g, real_attrs, opts, from_db=source != "objects")
            if held is not None:
                count_bare_evidence(ctx, g, held, recs, case.get("build"))
        count_empty_evidence(ctx, exp, model_in)
        bad = w.finish()
        if bad:
            ctx.violation(case, dict(bad[1], why="interfeatures: " + bad[0]))
        if held is not None:
            ctx.mon("input attribute mappings compared before / after (values and bare / list form)", len(held))
            if [raw_attrs(f) for f in feats] != held:
                ctx.violation(case, {"why": "interfeatures: the attribute mapping of an input feature was changed by the call",
                                     "before": held[:4], "after": [raw_attrs(f) for f in feats][:4]})
        if upd is not None and upd != opts["update_attributes"]:
            ctx.violation(case, {"why": "interfeatures: the update_attributes argument was changed by the call"})
    finally:
        if dbfn is not None:
            close_db(db, dbfn)
    return info


def is_empty(m):
    return m["end"] == m["start"] - 1


def count_empty_evidence(ctx, exp, model_in):
    """Evidence counters of the zero-length class (called after every expected gap was compared with a yielded feature)."""
    if not any(is_empty(m) for m in model_in):
        return 0
    pre = "zero-length features (end == start - 1): "
    n = 0
    gap_pairs = set()
    for g in exp:
        i, j = g["pair"]
        gap_pairs.add(i)
        if is_empty(model_in[i]):
            n += 1
            ctx.mon(pre + "gap features compared whose upstream neighbour is empty")
            if i == 0:
                ctx.mon(pre + "lists compared whose FIRST feature is empty and is followed by a gap")
        if is_empty(model_in[j]):
            ctx.mon(pre + "gap features compared whose downstream neighbour is empty")
        if any(is_empty(m) for m in model_in[:i]):
            ctx.mon(pre + "gap features compared that follow an earlier pair with an empty neighbour")
    for i, (a, b) in enumerate(zip(model_in, model_in[1:])):
        if i not in gap_pairs and a["seqid"] == b["seqid"] and b["start"] == a["end"] + 1 and (is_empty(a) or is_empty(b)):
            ctx.mon(pre + "suppressed pairs (touching) with an empty neighbour")
    return n


def zero_length_list(rng):
    """An ordered list (G.feature_list) of 2..8 features in which 1..2 features keep their start and get end = start - 1.
    Starts are untouched, so the list stays start-ordered inside each block of one seqid; a following feature of the same
    block starts at or after the empty feature's start, i.e. touches it or leaves a gap that begins at that start."""
    while True:
        feats = G.feature_list(rng)
        if len(feats) >= 2:
            break
    n = len(feats)
    r = rng.random()
    if r < 0.25:
        pos = [0]
    elif r < 0.4 and n >= 3:
        k = rng.randrange(n - 1)
        pos = [k, k + 1]
    elif r < 0.5:
        pos = [n - 1]
    else:
        pos = rng.sample(range(n), rng.choice([1, 1, 2]))
    for k in pos:
        feats[k]["end"] = feats[k]["start"] - 1
    return feats


def r_id(rec):
    for k, v in rec["attrs"]:
        if k == "ID":
            return v[0]
    return None


def count_attr_evidence(ctx, g, model_in, opts):
    a = g.get("attrs")
    if not a:
        return
    if "ID" in a and "-" in a["ID"][0] and not (opts["update_attributes"] or {}).get("ID"):
        ctx.mon("ID values joined")
    if opts["numeric_sort"]:
        for k, v in a.items():
            if len(v) > 1 and all(M.is_number(x) for x in v) and v != sorted(v):
                ctx.mon("numeric orderings compared")
                break


def count_pair_evidence(ctx, g, attrs, opts, from_db=False):
    """Which of the input classes the compared gap belongs to; attrs[i] = attribute dict of the i-th neighbour."""
    if g.get("attrs") is None:
        return
    a, b = attrs[g["pair"][0]], attrs[g["pair"][1]]
    if a == b:
        ctx.mon("equal attribute dictionaries: unions compared")
        multi = [v for v in a.values() if len(v) > 1]
        unsorted_ = any(M.sorted_union(sorted(set(v)), (), opts["numeric_sort"]) != [x for i, x in enumerate(v) if x not in v[:i]]
                        for v in multi)
        repeated = any(len(set(v)) < len(v) for v in multi)
        if unsorted_:
            ctx.mon("equal attribute dictionaries with unsorted values: unions compared")
        if repeated:
            ctx.mon("equal attribute dictionaries with repeated values: unions compared")
        if from_db and (unsorted_ or repeated):
            ctx.mon("equal attribute dictionaries with unsorted or repeated values: unions compared (features read from a database)")
    upd_keys = set(opts.get("update_attributes") or ())
    for k in a:
        if k in b and k not in upd_keys and (not a[k] or not b[k]):
            side = "both neighbours" if not a[k] and not b[k] else "the downstream neighbour only" if a[k] else "the upstream neighbour only"
            ctx.mon("empty values: unions compared of a key both neighbours carry, empty on %s" % side)
            if from_db:
                ctx.mon("empty values: unions compared of a key both neighbours carry, empty on %s (features read from a %s database)"
                        % (side, from_db if isinstance(from_db, str) else "GFF3 / GTF"))
    if not (opts.get("update_attributes") or {}).get("ID"):
        x, y = a.get("ID", []), b.get("ID", [])
        if len(x) == 1 and len(y) == 1 and x != y and M.is_number(x[0]) and M.is_number(y[0]) and float(x[0]) != float(y[0]):
            if (float(x[0]) < float(y[0])) != (x[0] < y[0]):
                ctx.mon("numeric IDs in disagreeing numeric / text order joined: numeric_sort %s" % ("on" if opts["numeric_sort"] else "off"))


def count_update_evidence(ctx, g, attrs, opts, from_db=False):
    """Which kinds of update_attributes entries the compared gap exercised (attrs[i] = real attributes of neighbour i)."""
    upd = opts.get("update_attributes")
    if not upd:
        return
    a, b = attrs[g["pair"][0]], attrs[g["pair"][1]]
    how = "" if g.get("attrs") is not None else " (merge_attributes off)"
    for k, v in upd.items():
        if len(v) != 1:
            continue
        if k == "ID":
            ids = set(a.get("ID", [])) | set(b.get("ID", []))
            if len(ids) > 1:
                ctx.mon("update_attributes: single-valued ID replacing the joined ID of the neighbours" + how)
            elif not ids:
                ctx.mon("update_attributes: single-valued ID given to a gap between neighbours without ID" + how)
            continue
        n = (k in a) + (k in b)
        if n == 2:
            ctx.mon("update_attributes: single-valued key overriding a key both neighbours carry" + how)
            if from_db:
                ctx.mon("update_attributes: single-valued key overriding a key both neighbours carry (features read from a database)" + how)
        elif n == 1:
            ctx.mon("update_attributes: single-valued key overriding a key one neighbour carries" + how)
        else:
            ctx.mon("update_attributes: single-valued key added that neither neighbour carries" + how)
            if from_db:
                ctx.mon("update_attributes: single-valued key added that neither neighbour carries (features read from a database)" + how)


def count_bare_evidence(ctx, g, held, recs=None, build=None, what="bare strings"):
    """Which bare-string situations the compared union covered; held[i] = attribute mapping of neighbour i as it is held
    (bare strings and lists told apart).  Counted only for values of >= 2 characters (one value != its characters)."""
    if g.get("attrs") is None:
        return
    i, j = g["pair"]
    a, b = held[i], held[j]
    seen = False
    for k in set(a) | set(b):
        x, y = a.get(k), b.get(k)
        bx, by = isinstance(x, str) and len(x) >= 2, isinstance(y, str) and len(y) >= 2
        if not (bx or by):
            continue
        seen = True
        if isinstance(x, str) and isinstance(y, str):
            ctx.mon("%s: unions compared of two %s bare strings under one key" % (what, "equal" if x == y else "different"))
            if k == "ID" and x != y:
                ctx.mon("%s: two bare-string IDs joined by '-'" % what)
        elif x is None or y is None:
            ctx.mon("%s: unions compared of a bare string under a key the other neighbour does not carry" % what)
        else:
            ctx.mon("%s: unions compared of a bare string and a value list under one key" % what)
    if seen:
        ctx.mon("%s: gap features compared with a bare-string neighbour" % what)
        if recs is not None:
            for r in (recs[i], recs[j]):
                if any(isinstance(v, str) and len(v) >= 2 for _, v in r["attrs"]):
                    ctx.mon("bare strings: neighbour built with Feature(attributes={key: 'string'})")
                if build != "string" and any(len(v) >= 2 for _, v in r.get("assign", ())):
                    ctx.mon("bare strings: neighbour given f.attributes[key] = 'string' on a plain dict")
    if recs is not None and build == "string" and any(r.get("assign") for r in (recs[i], recs[j])):
        ctx.mon("item assignment f.attributes[key] = 'string' on attributes parsed from text: unions compared")


def compare_outputs(ctx, case, out, exp, label):
    """The yielded features against the expected gaps, one by one; False after a violation."""
    shown = {"got": [short(f) for f in out][:10], "expected": exp[:10]}
    if len(out) != len(exp):
        ctx.violation(case, dict(shown, why="%s yielded %s features than the pairs with a gap" % (
            label, "more" if len(out) > len(exp) else "fewer"), n_got=len(out), n_expected=len(exp)))
        return False
    for i, (f, g) in enumerate(zip(out, exp)):
        ctx.mon("gap features compared")
        why = compare_gap(f, g)
        if why:
            ctx.violation(case, {"why": "%s: %s" % (label, why), "index": i, "got": short(f), "expected": g})
            return False
    return True


def execute_fedback(ctx, case):
    """kind "fedback": {"feats", "build", "opts1", "opts"}.  Stage 1: interfeatures over the list with merge_attributes on
    and update_attributes opts1["update_attributes"] whose values are BARE STRINGS; stage 2: the features stage 1 yielded
    are fed, as they are and in the order yielded, to interfeatures again under opts.  Both stages are judged against the
    pairwise model (stage 2: applied to the model's own stage-1 gaps)."""
    recs, o1, o2 = case["feats"], case["opts1"], case["opts"]
    info = {"gaps": 0, "suppressed": 0, "bare": 0}
    db = scratch_db()
    feats = [build_feature(r, i, case.get("build")) for i, r in enumerate(recs)]
    model_in = [to_model(r) for r in recs]
    if [attrs_of(f) for f in feats] != [m["attrs"] for m in model_in]:
        ctx.violation(case, {"why": "harness: a Feature object does not carry the values of its record"})
        return info

    def copy_upd(u):
        return None if u is None else {k: (v if isinstance(v, str) else list(v)) for k, v in u.items()}

    exp1, sup1 = M.gaps(model_in, new_featuretype=o1["new_featuretype"], merge_attributes=True,
                        numeric_sort=o1["numeric_sort"], update_attributes=o1["update_attributes"])
    w = Watch(ctx, db, feats)
    upd1 = copy_upd(o1["update_attributes"])
    try:
        out1 = list(db.interfeatures(iter(feats), new_featuretype=o1["new_featuretype"], merge_attributes=True,
                                     numeric_sort=o1["numeric_sort"], update_attributes=upd1))
    except Exception as ex:
        ctx.violation(case, {"why": "interfeatures raised %s (first stage, bare-string update_attributes)" % type(ex).__name__,
                             "error": repr(ex)})
        return info
    ctx.mon("interfeatures calls")
    count_expectations(ctx, exp1, sup1)
    if not compare_outputs(ctx, case, out1, exp1, "interfeatures (first stage, bare-string update_attributes)"):
        return info
    ctx.mon("fed back: first-stage features compared (update_attributes holding bare strings)", len(out1))
    bad = w.finish()
    if bad:
        ctx.violation(case, dict(bad[1], why="interfeatures (first stage): " + bad[0]))
        return info
    if upd1 != o1["update_attributes"]:
        ctx.violation(case, {"why": "interfeatures: the update_attributes argument was changed by the call"})
        return info
    # stage 2
    model2 = [{"seqid": g["seqid"], "start": g["start"], "end": g["end"], "strand": g["strand"],
               "featuretype": g["featuretype"], "attrs": g["attrs"]} for g in exp1]
    exp2, sup2 = M.gaps(model2, new_featuretype=o2["new_featuretype"], merge_attributes=o2["merge_attributes"],
                        numeric_sort=o2["numeric_sort"], update_attributes=o2["update_attributes"])
    info = {"gaps": len(exp2), "suppressed": sum(sup2.values()), "bare": 0}
    held = [raw_attrs(f) for f in out1]
    w = Watch(ctx, db, out1)
    upd2 = copy_upd(o2["update_attributes"])
    try:
        out2 = list(db.interfeatures(iter(out1), new_featuretype=o2["new_featuretype"], merge_attributes=o2["merge_attributes"],
                                     numeric_sort=o2["numeric_sort"], update_attributes=upd2))
    except Exception as ex:
        ctx.violation(case, {"why": "interfeatures raised %s (second stage: the features of an earlier call fed back in)"
                                    % type(ex).__name__, "error": repr(ex)})
        return info
    ctx.mon("interfeatures calls")
    ctx.mon("fed back: interfeatures calls on the features an earlier call yielded")
    count_expectations(ctx, exp2, sup2)
    if not compare_outputs(ctx, case, out2, exp2, "interfeatures (second stage: the features of an earlier call fed back in)"):
        return info
    for g in exp2:
        count_attr_evidence(ctx, g, model2, o2)
        count_bare_evidence(ctx, g, held, what="fed back")
        if g.get("attrs") is not None:
            a, b = held[g["pair"][0]], held[g["pair"][1]]
            if any(isinstance(a.get(k), str) and isinstance(b.get(k), str) and len(a[k]) >= 2 for k in a):
                info["bare"] += 1
    bad = w.finish()
    if bad:
        ctx.violation(case, dict(bad[1], why="interfeatures (second stage): " + bad[0]))
    elif [raw_attrs(f) for f in out1] != held:
        ctx.violation(case, {"why": "interfeatures (second stage): the attribute mapping of an input feature was changed by the call"})
    return info


def short(f):
    d = geometry(f)
    d["attrs"] = attrs_of(f)
    return d


# -- aliasing: the consumer edits the yielded features in place ---------------------------------------------------------------
def execute_alias(ctx, case):
    """kind "alias": {"feats", "source": "objects" | "gff3", "opts", "lazy": bool, "edit_seed"}.

    interfeatures(..., update_attributes=<the caller's dict>) is consumed feature by feature (lazy) or collected first; every
    yielded feature is compared with the model AT YIELD TIME and then EDITED IN PLACE by the consumer (an ID is set by item
    assignment, values are appended to lists under keys that update_attributes does not give, a key is added, a key of
    update_attributes is re-assigned); after every edit every other yielded feature, the caller's update_attributes dictionary
    (deep snapshot) and the inputs' attribute mappings must be what they were.  After the generator is exhausted every collected
    feature is edited once more, with the same comparisons."""
    import gffutils

    recs, opts, source = case["feats"], case["opts"], case["source"]
    info = {"gaps": 0, "suppressed": 0}
    db = dbfn = None
    try:
        model_in = [to_model(r) for r in recs]
        if source == "objects":
            db = scratch_db()
            feats = [build_feature(r, i) for i, r in enumerate(recs)]
        else:
            try:
                db, dbfn = open_db(ctx, case, G.render(recs, "gff3"), "gff3", id_spec="ID")
                by_id = {f.attributes["ID"][0]: f for f in db.all_features()}
                feats = [by_id[r_id(r)] for r in recs]
            except Exception as ex:
                ctx.violation(case, {"why": "harness: building the input database raised %r" % (ex,)})
                return info
        if [attrs_of(f) for f in feats] != [m["attrs"] for m in model_in]:
            ctx.violation(case, {"why": "harness: a Feature object does not carry the values of its record"})
            return info
        merge = opts["merge_attributes"]
        exp, suppressed = M.gaps(model_in, new_featuretype=opts["new_featuretype"], merge_attributes=merge,
                                 numeric_sort=opts["numeric_sort"], update_attributes=opts["update_attributes"])
        info = {"gaps": len(exp), "suppressed": sum(suppressed.values())}
        upd = copy.deepcopy(opts["update_attributes"])          # the dictionary the caller hands in
        snap = copy.deepcopy(upd)
        given = set(upd or ())
        several = bool(upd) and any(k != "ID" and len(v) > 1 for k, v in upd.items())
        held_in = [raw_attrs(f) for f in feats]
        how = "on" if merge else "off"
        lazy = case["lazy"]
        when = "while iterating lazily" if lazy else "after collecting"
        r = random.Random(case["edit_seed"])
        out, kept = [], []          # yielded features, and what each must hold (snapshot after the consumer's last edit)

        def edit(f, i, rnd):
            a = f.attributes
            a["ID"] = ["al%d_%d" % (rnd, i)]
            ctx.mon("aliasing: yielded features given an ID in place (item assignment)")
            for k in list(a.keys()):
                if k != "ID" and isinstance(a[k], list) and r.random() < 0.7:
                    a[k].append("ed%d_%d" % (rnd, i))
                    if k in given:
                        ctx.mon("aliasing: values appended in place to a list that came from update_attributes")
                    else:
                        ctx.mon("aliasing: values appended in place to a list of a yielded feature (key not given by update_attributes)")
            if r.random() < 0.5:
                a["alias_extra"] = ["x%d_%d" % (rnd, i)]
            rest = sorted(k for k in given if k != "ID")
            if rest and r.random() < 0.35:
                a[r.choice(rest)] = ["repl%d_%d" % (rnd, i)]
                ctx.mon("aliasing: a key given by update_attributes re-assigned in place on a yielded feature")

        def unaffected(i, what):
            """After the consumer edited yielded feature i: everything else is what it was."""
            for j, f in enumerate(out):
                if j != i:
                    ctx.mon("aliasing: other yielded features compared after an in-place edit")
                    if raw_attrs(f) != kept[j]:
                        ctx.violation(case, {"why": "interfeatures: editing one yielded feature's attributes in place changed another "
                                                    "yielded feature (%s; merge_attributes %s)" % (what, how), "edited": i, "changed": j,
                                             "held": kept[j], "now": raw_attrs(f)})
                        return False
            if upd is not None:
                ctx.mon("aliasing: the caller's update_attributes dictionary compared (deep) after an in-place edit: merge_attributes %s" % how)
                if several:
                    ctx.mon("aliasing: ... holding several-valued lists under non-ID keys: merge_attributes %s" % how)
                if upd != snap:
                    ctx.violation(case, {"why": "interfeatures: editing a yielded feature's attributes in place changed the caller's "
                                                "update_attributes dictionary (%s; merge_attributes %s)" % (what, how),
                                         "edited": i, "before": snap, "after": copy.deepcopy(upd)})
                    return False
            ctx.mon("aliasing: input attribute mappings compared after an in-place edit", len(feats))
            if [raw_attrs(f) for f in feats] != held_in:
                ctx.violation(case, {"why": "interfeatures: editing a yielded feature's attributes in place changed an input feature "
                                            "(%s; merge_attributes %s)" % (what, how), "edited": i})
                return False
            return True

        w = Watch(ctx, db, feats)
        try:
            gen = db.interfeatures(iter(feats), new_featuretype=opts["new_featuretype"], merge_attributes=merge,
                                   numeric_sort=opts["numeric_sort"], update_attributes=upd)
            for i, f in enumerate(gen):
                if i >= len(exp):
                    ctx.violation(case, {"why": "interfeatures yielded more features than the pairs with a gap", "got": short(f),
                                         "n_expected": len(exp)})
                    return info
                ctx.mon("gap features compared")
                why = compare_gap(f, exp[i])
                if why:
                    ctx.violation(case, {"why": "interfeatures: %s%s" % (why, " (yielded after the consumer edited the features yielded "
                                                                              "before it in place)" if lazy and i else ""),
                                         "index": i, "got": short(f), "expected": exp[i], "merge_attributes": merge})
                    return info
                if lazy and i:
                    ctx.mon("aliasing: later features compared at yield time after an earlier one was edited in place: merge_attributes %s%s"
                            % (how, ", update_attributes given" if upd else ""))
                out.append(f)
                kept.append(raw_attrs(f))
                if lazy:
                    edit(f, i, 1)
                    kept[i] = raw_attrs(f)
                    if not unaffected(i, "while iterating lazily"):
                        return info
        except Exception as ex:
            ctx.violation(case, {"why": "interfeatures raised %s (%s)" % (type(ex).__name__, when), "error": repr(ex)})
            return info
        ctx.mon("interfeatures calls")
        count_expectations(ctx, exp, suppressed)
        if len(out) != len(exp):
            ctx.violation(case, {"why": "interfeatures yielded fewer features than the pairs with a gap", "n_got": len(out),
                                 "n_expected": len(exp), "expected": exp[:10]})
            return info
        if out:
            ctx.mon("aliasing: interfeatures calls whose yielded features were edited in place %s" % when)
        # the collected features are edited (once more), one after the other
        for i, f in enumerate(out):
            edit(f, i, 2)
            kept[i] = raw_attrs(f)
            if not unaffected(i, "after collecting"):
                return info
        if out and lazy:
            ctx.mon("aliasing: interfeatures calls whose yielded features were edited in place after collecting")
        bad = w.finish()
        if bad:
            ctx.violation(case, dict(bad[1], why="interfeatures: " + bad[0]))
    finally:
        if dbfn is not None:
            close_db(db, dbfn)
    return info


# -- create_introns / create_splice_sites on a gene model ----------------------------------------------------------------
def transcripts_of(recs, fmt, opts):
    """[(transcript id, transcript strand, [exon records])] as the statement groups them."""
    ex_type = opts["exon_featuretype"]
    out = []
    if fmt == "gff3":
        genes = set(r_id(r) for r in recs if r["featuretype"] == "gene")
        for r in recs:
            parents = dict((k, v) for k, v in r["attrs"]).get("Parent", [])
            if opts["by"] == "grandparent":
                times = sum(1 for p in parents if p in genes)
            else:
                times = 1 if r["featuretype"] == opts["featuretype"] else 0
            if not times:
                continue
            tid = r_id(r)
            exons = [e for e in recs if e["featuretype"] == ex_type and tid in dict((k, v) for k, v in e["attrs"]).get("Parent", [])]
            out.extend([(tid, r["strand"], exons)] * times)
    else:
        tids = []
        for r in recs:
            t = dict((k, v) for k, v in r["attrs"])["transcript_id"][0]
            if t not in tids:
                tids.append(t)
        for tid in tids:
            members = [r for r in recs if dict((k, v) for k, v in r["attrs"])["transcript_id"][0] == tid]
            strands = set(r["strand"] for r in members)
            if len(strands) != 1:
                raise AssertionError("harness: GTF transcript with mixed strands generated")
            out.append((tid, strands.pop(), [r for r in members if r["featuretype"] == ex_type]))
    return out


def canon(d, with_attrs):
    key = [d["seqid"], d["start"], d["end"], d["featuretype"], d["strand"]]
    if with_attrs:
        key.append(sorted((k, list(v)) for k, v in tie_norm(d["attrs"]).items()))
    return json.dumps(key, ensure_ascii=True)


def model_expectations(ctx, recs, fmt, opts, call):
    """(transcripts, expected features, expected introns of the same transcripts, info) from the records alone."""
    info = {"gaps": 0, "suppressed": 0, "nontrivial": False}
    txs = transcripts_of(recs, fmt, opts)
    expected = []
    expected_introns = []      # splice: the introns of the same transcripts, for the cross-check with create_introns
    for tid, tstrand, exons in txs:
        starts = [e["start"] for e in exons]
        if len(set(starts)) != len(starts):
            raise AssertionError("harness: equal exon starts generated")
        ex_model = [to_model(e) for e in exons]
        ordered = M.start_ordered(ex_model)
        if call == "introns":
            exp, sup = M.introns(ex_model, new_featuretype=opts["new_featuretype"], merge_attributes=opts["merge_attributes"],
                                 numeric_sort=opts["numeric_sort"])
            count_expectations(ctx, exp, sup)
            for g in exp:
                count_pair_evidence(ctx, g, [e["attrs"] for e in ordered], opts)
        else:
            exp, sup = M.splice_sites(ex_model, tstrand, numeric_sort=opts["numeric_sort"])
            for k, n in sup.items():
                ctx.mon("suppressed pairs: " + k, n)
            expected_introns.extend(M.introns(ex_model, new_featuretype="intron", numeric_sort=opts["numeric_sort"])[0])
        count_model_evidence(ctx, call, exp, ordered, tstrand)
        expected.extend(exp)
        info["gaps"] += len(exp) if call == "introns" else len(exp) // 2
        info["suppressed"] += sum(sup.values())
        if exp and sum(sup.values()):
            info["nontrivial"] = True
        if call == "splice" and tstrand == "-":
            ctx.mon("splice sites of minus-strand transcripts compared", len(exp))
        if call == "splice" and tstrand == ".":
            ctx.mon("splice sites of unstranded transcripts compared", len(exp))
        if call == "splice" and tstrand == "?":
            ctx.mon("splice sites of '?'-strand transcripts compared", len(exp))
    strands = set(t[1] for t in txs if t[2])
    info["strands"] = sorted(strands)
    return txs, expected, expected_introns, info


def call_kwargs(opts):
    kw = {"exon_featuretype": opts["exon_featuretype"], "merge_attributes": opts["merge_attributes"],
          "numeric_sort": opts["numeric_sort"]}
    if opts["by"] == "grandparent":
        kw["grandparent_featuretype"] = opts["featuretype"]
    else:
        kw["grandparent_featuretype"] = None
        kw["parent_featuretype"] = opts["featuretype"]
    return kw


def run_and_compare(ctx, case, db, call, opts, expected, expected_introns, text, step=""):
    """One call of the real create_introns / create_splice_sites, judged against the expectations and watched for
    changes of the database.  Returns the yielded features, or None after a violation."""
    kw = call_kwargs(opts)
    w = Watch(ctx, db)
    try:
        if call == "introns":
            out = list(db.create_introns(new_featuretype=opts["new_featuretype"], **kw))
            ctx.mon("create_introns calls")
        else:
            out = list(db.create_splice_sites(**kw))
            ctx.mon("create_splice_sites calls")
    except Exception as ex:
        ctx.violation(case, {"why": "create_%s raised %s%s" % ("introns" if call == "introns" else "splice_sites", type(ex).__name__, step),
                             "error": repr(ex), "text": text})
        return None
    with_attrs = call == "introns" and opts["merge_attributes"]
    name = "create_introns" if call == "introns" else "create_splice_sites"
    got = Counter(canon(short(f), with_attrs) for f in out)
    want = Counter(canon(g, with_attrs) for g in expected)
    ctx.mon("introns compared" if call == "introns" else "splice sites compared", len(expected))
    if got != want:
        missing = [json.loads(k) for k in (want - got)][:4]
        extra = [json.loads(k) for k in (got - want)][:4]
        if len(out) != len(expected):
            why = "%s yielded %s features than the model" % (name, "more" if len(out) > len(expected) else "fewer")
        else:
            geo_got = Counter(canon(short(f), False) for f in out)
            geo_want = Counter(canon(g, False) for g in expected)
            if geo_got == geo_want:
                why = "%s: attributes differ" % name
            else:
                def strip(c, idx):
                    return Counter(json.dumps([x for i, x in enumerate(json.loads(k)) if i not in idx]) for k in c.elements())
                if strip(geo_got, (3,)) == strip(geo_want, (3,)):
                    why = "%s: featuretype / label differs" % name
                elif strip(geo_got, (4,)) == strip(geo_want, (4,)):
                    why = "%s: strand differs" % name
                else:
                    why = "%s: coordinates differ" % name
        ctx.violation(case, {"why": why + step, "expected_not_yielded": missing, "yielded_not_expected": extra,
                             "n_got": len(out), "n_expected": len(expected), "text": text})
        return None
    if call == "splice":
        # "the two-base sites of each such intron": the sites must be the two ends of exactly the introns the real
        # create_introns yields on this database under the same grouping (labels aside)
        try:
            real_introns = list(db.create_introns(new_featuretype="intron", **kw))
        except Exception as ex:
            ctx.violation(case, {"why": "create_introns raised %s%s" % (type(ex).__name__, step), "error": repr(ex), "text": text})
            return None
        ends_real = Counter(t for f in real_introns for t in M.site_pair(geometry(f)))
        ends_model = Counter(t for g in expected_introns for t in M.site_pair(g))
        sites = Counter((f.seqid, f.start, f.end, f.strand) for f in out)
        ctx.mon("splice sites cross-checked against the ends of the introns create_introns yields", sum(sites.values()))
        if ends_real != ends_model:
            ctx.violation(case, {"why": "create_introns (cross-check of a splice-site case) differs from the model" + step,
                                 "n_got": len(real_introns), "n_expected": len(expected_introns), "text": text})
            return None
        if sites != ends_real:
            ctx.violation(case, {"why": "create_splice_sites: sites are not the two-base ends of the introns create_introns yields" + step,
                                 "sites_not_intron_ends": [list(k) for k in (sites - ends_real)][:4],
                                 "intron_ends_without_site": [list(k) for k in (ends_real - sites)][:4], "text": text})
            return None
    bad = w.finish()
    if bad:
        ctx.violation(case, dict(bad[1], why="%s: %s%s" % (name, bad[0], step), text=text))
        return None
    return out


def execute_model(ctx, case):
    recs, fmt, opts, call = case["recs"], case["fmt"], case["opts"], case["kind"]
    info = {"gaps": 0, "suppressed": 0, "nontrivial": False}
    text = G.render(recs, fmt)
    try:
        db, dbfn = open_db(ctx, case, text, fmt)
    except Exception as ex:
        ctx.violation(case, {"why": "harness: building the database raised %r" % (ex,), "text": text})
        return info
    try:
        txs, expected, expected_introns, info = model_expectations(ctx, recs, fmt, opts, call)
        out = run_and_compare(ctx, case, db, call, opts, expected, expected_introns, text)
        if out is not None:
            count_visit_evidence(ctx, call, out, txs, fmt, info)
            if case.get("nested"):
                info["deep"] = count_nested_evidence(ctx, recs, opts, call, txs, expected)
            if case.get("multiseq"):
                info["multi"] = count_multiseq_evidence(ctx, opts, call, txs, expected)
    finally:
        close_db(db, dbfn)
    return info


def deeper_exons(recs, tid, ex_type):
    """Records of the exon featuretype that descend from tid through Parent values ONLY at depth >= 2 (exons of nested
    features), in file order."""
    kids = {}
    for r in recs:
        for p in dict((k, v) for k, v in r["attrs"]).get("Parent", []):
            kids.setdefault(p, []).append(r)
    level1 = [id(r) for r in kids.get(tid, [])]
    seen, deep, todo = set(level1), [], [r for r in kids.get(tid, [])]
    while todo:
        r = todo.pop(0)
        for c in kids.get(r_id(r), []):
            if id(c) not in seen:
                seen.add(id(c))
                todo.append(c)
                if c["featuretype"] == ex_type:
                    deep.append(c)
    return deep


def count_nested_evidence(ctx, recs, opts, call, txs, expected):
    """Evidence counters of the nested-hierarchy class (the comparison itself has been made): transcripts with exon-typed
    descendants below their own exons, and whether counting those among the transcript's exons would give other features."""
    what = "introns" if call == "introns" else "splice sites"
    mode = "grandparent" if opts["by"] == "grandparent" else "parent_featuretype"
    pooled, ndeep = [], 0
    for tid, tstrand, exons in txs:
        deep = deeper_exons(recs, tid, opts["exon_featuretype"])
        if deep:
            ndeep += 1
            ctx.mon("nested: transcripts compared that have exon-typed descendants below level 1 (%s mode)" % mode)
            if not exons:
                ctx.mon("nested: such transcripts without an exon of their own")
        ex_model = [to_model(e) for e in exons + deep]
        if call == "introns":
            exp, _ = M.introns(ex_model, new_featuretype=opts["new_featuretype"], merge_attributes=False)
        else:
            exp, _ = M.splice_sites(ex_model, tstrand)
        pooled.extend(exp)
    if ndeep:
        ctx.mon("nested: create_%s calls compared on such a hierarchy (%s mode)" % (what.replace(" ", "_"), mode))
        a = Counter(canon(g, False) for g in expected)
        b = Counter(canon(g, False) for g in pooled)
        if a != b:
            ctx.mon("nested: %s compared where pooling the deeper exons with the transcript's own would give other features (%s mode)"
                    % (what, mode))
            if len(expected) < len(pooled) and not (a - b):
                ctx.mon("nested: ... would only add features (the own exons' gaps stay, e.g. a single-exon transcript)")
    genes = set(r_id(x) for x in recs if x["featuretype"] == "gene")
    by_id = {r_id(r): r for r in recs}
    if opts["by"] == "parent" and any(exons and any(p not in genes for p in dict((k, v) for k, v in by_id[tid]["attrs"]).get("Parent", []))
                                      for tid, _, exons in txs):
        ctx.mon("nested: the nested features themselves taken as transcripts (parent_featuretype mode), own exons compared")
    return ndeep


def count_multiseq_evidence(ctx, opts, call, txs, expected):
    """Evidence counters of the multi-seqid class (the comparison itself has been made): transcripts whose exons lie on two or
    more seqids, whether start order and (seqid, start) order differ, and whether taking the exons seqid by seqid (instead of
    in start order, as the statement says) would give other features.  Returns the number of transcripts for which it would."""
    what = "introns" if call == "introns" else "splice sites"
    n = 0
    grouped = []
    for tid, tstrand, exons in txs:
        ex_model = [to_model(e) for e in exons]
        ordered = M.start_ordered(ex_model)
        seqids = [e["seqid"] for e in ordered]
        by_seqid = sorted(ordered, key=lambda e: (e["seqid"], e["start"]))
        if call == "introns":
            alt, _ = M.gaps(by_seqid, new_featuretype=opts["new_featuretype"], merge_attributes=False)
            own, _ = M.gaps(ordered, new_featuretype=opts["new_featuretype"], merge_attributes=False)
        else:
            alt, own = [], []
            for lst, res in ((by_seqid, alt), (ordered, own)):
                for g in M.gaps(lst, new_featuretype="intron", merge_attributes=False)[0]:
                    res.extend({"seqid": g["seqid"], "start": a, "end": b, "strand": g["strand"],
                                "featuretype": M.site_label(side, tstrand)}
                               for side, (_, a, b, _) in zip(("left", "right"), M.site_pair(g)))
        grouped.extend(alt)
        if len(set(seqids)) < 2:
            continue
        ctx.mon("multi-seqid: transcripts compared whose exons lie on two or more seqids (%s)" % what)
        if [id(e) for e in by_seqid] != [id(e) for e in ordered] and [id(e) for e in by_seqid[::-1]] != [id(e) for e in ordered]:
            ctx.mon("multi-seqid: transcripts compared whose start order differs from (seqid, start) order (%s)" % what)
        if any(seqids.count(s) >= 2 and any(x != s for x in seqids[seqids.index(s):len(seqids) - seqids[::-1].index(s)])
               for s in set(seqids)):
            ctx.mon("multi-seqid: transcripts compared with two exons of one seqid separated in start order by an exon on another (%s)" % what)
        if sum(1 for s in set(seqids) if seqids.count(s) >= 2) >= 2:
            ctx.mon("multi-seqid: transcripts compared with 2+ exons on each of two or more seqids (%s)" % what)
        a = Counter(canon(g, False) for g in own)
        b = Counter(canon(g, False) for g in alt)
        if a != b:
            n += 1
            ctx.mon("multi-seqid: transcripts compared for which taking the exons seqid by seqid would give other %s" % what)
            if not own:
                ctx.mon("multi-seqid: transcripts compared that have no intron at all although exons of one seqid have room between them (%s)" % what)
            elif b - a and a - b:
                ctx.mon("multi-seqid: ... both gaps that would be invented and gaps that would be lost (%s)" % what)
    if n:
        a = Counter(canon(g, False) for g in expected)
        b = Counter(canon(g, False) for g in grouped)
        if a != b:
            ctx.mon("multi-seqid: %s compared where grouping each transcript's exons per seqid first would give other features" % what)
    return n


def neither(strand):
    return strand not in ("+", "-")


def count_visit_evidence(ctx, call, out, txs, fmt, info):
    """In which order the real code visited transcripts of different strands, read off the yielded features (each carries
    the id of its transcript in the union of its neighbours' attributes).  Evidence counters only."""
    what = "introns" if call == "introns" else "splice sites"
    if len(info.get("strands", ())) > 1:
        ctx.mon("create_%s calls on a database whose transcripts (with introns) have different strands" % what.replace(" ", "_"))
    strand_of = {tid: s for tid, s, _ in txs}
    key = "Parent" if fmt == "gff3" else "transcript_id"
    seq = []
    for f in out:
        v = attrs_of(f).get(key, [])
        if len(v) != 1 or v[0] not in strand_of:
            return
        if not seq or seq[-1] != v[0]:
            seq.append(v[0])
    if seq and neither(strand_of[seq[0]]) and len(info.get("strands", ())) > 1:
        ctx.mon("%s: the first yielded feature belongs to a transcript that is neither '+' nor '-' (others follow)" % what)
    for a, b in zip(seq, seq[1:]):
        sa, sb = strand_of[a], strand_of[b]
        if sa in ("+", "-") and neither(sb):
            ctx.mon("%s of a '%s' transcript yielded directly after those of a '%s' transcript" % (what, sb, sa))
        elif neither(sa) and sb in ("+", "-"):
            ctx.mon("%s of a +/- transcript yielded directly after those of a transcript that is neither" % what)
        elif sa != sb and neither(sa) and neither(sb):
            ctx.mon("%s of a '.' / '?' transcript yielded directly after those of the other kind" % what)


# -- create_introns / create_splice_sites on a database that already holds derived features -----------------------------
def execute_derived(ctx, case):
    import gffutils

    recs, fmt, opts, call = case["recs"], case["fmt"], case["opts"], case["call"]
    info = {"gaps": 0, "suppressed": 0, "nontrivial": False, "stored": 0}
    text = G.render(recs, fmt)
    try:
        db, dbfn = open_db(ctx, case, text, fmt)
    except Exception as ex:
        ctx.violation(case, {"why": "harness: building the database raised %r" % (ex,), "text": text})
        return info
    try:
        txs, expected, expected_introns, info = model_expectations(ctx, recs, fmt, opts, call)
        info["stored"] = 0
        first = run_and_compare(ctx, case, db, call, opts, expected, expected_introns, text, step=" (first call)")
        if first is None:
            return info
        store = list(first)
        if case.get("store") == "both":
            # the derived features of the other kind are stored as well
            kw = call_kwargs(opts)
            try:
                if call == "introns":
                    store += list(db.create_splice_sites(**dict(kw, merge_attributes=True)))
                else:
                    store += list(db.create_introns(**kw))
            except Exception as ex:
                ctx.skip("derived: producing the features of the other kind raised %s (judged by its own cases)" % type(ex).__name__)
                return info
        n0 = len(dbdump.dump_db(db)["features"])
        ukw = {"merge_strategy": "create_unique"}
        if fmt == "gtf":
            ukw.update(disable_infer_genes=True, disable_infer_transcripts=True)
        try:
            db.update(store, **ukw)
        except Exception as ex:
            # update() is not the subject of this statement (C09 / C10 judge it)
            ctx.skip("derived: update() with the derived features raised %s" % type(ex).__name__)
            return info
        sqltrace.reset()
        if dbfn != ":memory:":
            db.conn.close()
            db = gffutils.FeatureDB(dbfn)
            ctx.mon("databases holding derived features reopened")
        stored = len(dbdump.dump_db(db)["features"]) - n0
        info["stored"] = stored
        if stored != len(store):
            ctx.skip("derived: update() stored %s features than it was given (not this statement)" % ("more" if stored > len(store) else "fewer"))
            return info
        ctx.mon("derived features stored by update() before the second call", stored)
        second = run_and_compare(ctx, case, db, call, opts, expected, expected_introns, text,
                                 step=" (second call, database holding the derived features)")
        if second is None:
            return info
        ctx.mon("second calls on a database holding derived features: yield compared with the first call and the model")
        if stored:
            ctx.mon("database dumps compared around a call on a database holding %s derived features" % ("its own" if case.get("store") != "both" else "both kinds of"))
        with_attrs = opts["merge_attributes"]
        a = Counter(canon(short(f), with_attrs) for f in first)
        b = Counter(canon(short(f), with_attrs) for f in second)
        if a != b:
            ctx.violation(case, {"why": "create_%s on a database holding derived features yields other features than the first call"
                                        % ("introns" if call == "introns" else "splice_sites"),
                                 "only_first": [json.loads(k) for k in (a - b)][:4], "only_second": [json.loads(k) for k in (b - a)][:4],
                                 "text": text})
    finally:
        close_db(db, dbfn)
    return info


def count_model_evidence(ctx, call, exp, ordered, tstrand):
    """Input classes of one transcript's expectations (exp = introns, or two sites per intron)."""
    what = "introns" if call == "introns" else "splice sites"
    for g in exp:
        i, j = g["pair"]
        left, right = ordered[i], ordered[j]
        if any(k["start"] < left["start"] and k["end"] > right["end"] for k in ordered[:i]):
            ctx.mon("%s compared: both neighbours strictly nested inside an earlier exon" % what)
        if call == "introns":
            if g["strand"] != tstrand:
                ctx.mon("introns compared whose strand differs from the transcript's strand")
            continue
        if tstrand in ("+", "-"):
            if g["strand"] != tstrand:
                ctx.mon("splice sites compared whose strand differs from a +/- transcript's strand")
            if left["strand"] == right["strand"] == ".":
                ctx.mon("splice sites compared: '.' exons under a +/- transcript")
            elif left["strand"] == right["strand"] != tstrand:
                ctx.mon("splice sites compared: exons on the opposite strand of a +/- transcript")
        elif g["strand"] in ("+", "-"):
            ctx.mon("splice sites compared: stranded exons under an unstranded transcript")


# -- workload -------------------------------------------------------------------------------------------------------------
def run(ctx):
    rng = ctx.rng
    for _ in range(ctx.budget(12000, 440000)):
        case = {"kind": "list", "source": "objects", "feats": G.feature_list(rng), "opts": G.list_options(rng)}
        info = execute(ctx, case)
        nt = info["gaps"] >= 1 and info["suppressed"] >= 1
        ctx.case((case["feats"], case["opts"]), nt, sample=case if len(case["feats"]) <= 4 else None, cls="list/objects")
    # neighbours with exactly equal attribute dictionaries whose multi-valued attributes are unsorted / repeated
    for _ in range(ctx.budget(2400, 48000)):
        opts = G.list_options(rng)
        opts["merge_attributes"] = True
        if opts["update_attributes"] is not None and rng.random() < 0.6:
            opts["update_attributes"] = None
        case = {"kind": "list", "source": "objects", "feats": G.equal_attrs_list(rng, with_ids=True), "opts": opts}
        info = execute(ctx, case)
        ctx.case((case["feats"], case["opts"]), info["gaps"] >= 1, sample=case if len(case["feats"]) <= 2 else None,
                 cls="list/objects equal attributes")
    for _ in range(ctx.budget(500, 10000)):
        fmt = rng.choice(["gff3", "gtf"])
        feats = G.equal_attrs_list(rng, with_ids=False)
        if fmt == "gtf":
            for r in feats:
                r["attrs"] = [["gene_id", ["g"]], ["transcript_id", ["t"]]] + [kv for kv in r["attrs"]]
        opts = G.list_options(rng)
        opts["merge_attributes"] = True
        case = {"kind": "list", "source": fmt, "feats": feats, "opts": opts, "by_order": True, "dbfile": rng.random() < 0.2}
        info = execute(ctx, case)
        ctx.case((fmt, case["feats"], case["opts"]), info["gaps"] >= 1, cls="list/db %s equal attributes" % fmt)
    for _ in range(ctx.budget(2400, 48000)):
        fmt = rng.choice(["gff3", "gtf"])
        feats = G.feature_list(rng, unique_ids=True)
        if fmt == "gtf":
            for r in feats:
                r["attrs"] = [["gene_id", ["g"]], ["transcript_id", ["t"]]] + [kv for kv in r["attrs"]]
        case = {"kind": "list", "source": fmt, "feats": feats, "opts": G.list_options(rng), "dbfile": rng.random() < 0.25}
        info = execute(ctx, case)
        nt = info["gaps"] >= 1 and info["suppressed"] >= 1
        ctx.case((fmt, case["feats"], case["opts"]), nt, cls="list/db " + fmt)
    for _ in range(ctx.budget(2400, 48000)):
        fmt = rng.choice(["gff3", "gtf"])
        call = rng.choice(["introns", "splice"])
        case = {"kind": call, "fmt": fmt, "recs": G.gene_model(rng, fmt), "opts": G.gene_options(rng, fmt, call),
                "dbfile": rng.random() < 0.25}
        info = execute(ctx, case)
        ctx.case((call, fmt, case["recs"], case["opts"]), info["nontrivial"], cls="%s/%s" % (call, fmt))
    # update_attributes: single-valued overrides of keys the neighbours carry, additions of keys they do not, one-valued ID
    for _ in range(ctx.budget(1000, 40000)):
        feats = G.feature_list(rng)
        opts = G.list_options(rng)
        opts["update_attributes"] = G.update_attributes_for(rng, feats)
        opts["merge_attributes"] = rng.random() < 0.85
        case = {"kind": "list", "source": "objects", "feats": feats, "opts": opts}
        info = execute(ctx, case)
        ctx.case((case["feats"], case["opts"]), info["gaps"] >= 1, sample=case if len(feats) == 2 else None,
                 cls="list/objects update_attributes")
    for _ in range(ctx.budget(200, 8000)):
        fmt = rng.choice(["gff3", "gtf"])
        feats = G.feature_list(rng, unique_ids=True)
        if fmt == "gtf":
            for r in feats:
                r["attrs"] = [["gene_id", ["g"]], ["transcript_id", ["t"]]] + [kv for kv in r["attrs"]]
        opts = G.list_options(rng)
        opts["update_attributes"] = G.update_attributes_for(rng, feats)
        opts["merge_attributes"] = rng.random() < 0.85
        case = {"kind": "list", "source": fmt, "feats": feats, "opts": opts, "dbfile": rng.random() < 0.2}
        info = execute(ctx, case)
        ctx.case((fmt, case["feats"], case["opts"]), info["gaps"] >= 1, cls="list/db update_attributes")
    # several transcripts of different strands ('+', '-', '.', '?') in one call, every file / visiting order
    for _ in range(ctx.budget(320, 14000)):
        fmt = rng.choice(["gff3", "gff3", "gtf"])
        call = rng.choice(["splice", "splice", "introns"])
        case = {"kind": call, "fmt": fmt, "recs": G.strand_order_model(rng, fmt), "opts": G.strand_order_options(rng, fmt, call),
                "dbfile": rng.random() < 0.15}
        info = execute(ctx, case)
        ctx.case((call, fmt, case["recs"], case["opts"]), len(info.get("strands", ())) > 1 and info["gaps"] >= 2,
                 sample=case if len(case["recs"]) <= 7 else None, cls="%s/%s transcripts of different strands" % (call, fmt))
    # databases that already hold derived features: update(list(create_x())), reopen, call again
    for _ in range(ctx.budget(140, 8000)):
        fmt = rng.choice(["gff3", "gtf"])
        call = rng.choice(["introns", "splice"])
        recs = G.strand_order_model(rng, fmt) if rng.random() < 0.3 else G.gene_model(rng, fmt)
        case = {"kind": "derived", "call": call, "fmt": fmt, "recs": recs, "opts": G.strand_order_options(rng, fmt, call),
                "dbfile": rng.random() < 0.7, "store": "both" if rng.random() < 0.3 else "same"}
        info = execute(ctx, case)
        ctx.case((call, fmt, case["recs"], case["opts"], case["store"]), info.get("stored", 0) >= 1,
                 cls="%s/%s on a database holding derived features" % (call, fmt))
    # neighbours built by the caller with plain dicts holding BARE STRINGS / item assignment of a string
    for _ in range(ctx.budget(2400, 60000)):
        feats, build = G.bare_list(rng)
        opts = G.list_options(rng)
        opts["merge_attributes"] = rng.random() < 0.9
        if rng.random() < 0.3:
            opts["update_attributes"] = G.bare_update(rng)
        case = {"kind": "list", "source": "objects", "feats": feats, "opts": opts, "build": build}
        info = execute(ctx, case)
        ctx.case((build, case["feats"], case["opts"]), info["gaps"] >= 1, sample=case if len(feats) == 2 else None,
                 cls="list/objects bare strings (%s)" % ("plain dict" if build == "dict" else "item assignment on parsed text"))
    # the features an earlier interfeatures(update_attributes={key: 'string'}) yielded, fed back in
    for _ in range(ctx.budget(800, 24000)):
        feats, build = G.bare_list(rng) if rng.random() < 0.5 else (G.feature_list(rng), "dict")
        o1 = {"new_featuretype": rng.choice([None, "intron", "intron"]), "numeric_sort": rng.random() < 0.5,
              "update_attributes": G.bare_update(rng)}
        opts = G.list_options(rng)
        opts["merge_attributes"] = rng.random() < 0.9
        if rng.random() < 0.2:
            opts["update_attributes"] = G.bare_update(rng)
        case = {"kind": "fedback", "feats": feats, "build": build, "opts1": o1, "opts": opts}
        info = execute(ctx, case)
        ctx.case((build, case["feats"], o1, opts), info["gaps"] >= 1 and info.get("bare", 0) >= 1,
                 sample=case if len(feats) == 3 else None, cls="list/objects fed back from an earlier call")
    # transcripts with exon-typed descendants below their own exons (gene -> primary_transcript -> exon, -> miRNA -> exon)
    for _ in range(ctx.budget(1000, 30000)):
        call = rng.choice(["introns", "splice"])
        recs = G.nested_model(rng)
        case = {"kind": call, "fmt": "gff3", "recs": recs, "opts": G.nested_options(rng, recs, call), "nested": True,
                "dbfile": rng.random() < 0.1}
        info = execute(ctx, case)
        ctx.case((call, case["recs"], case["opts"]), info.get("deep", 0) >= 1 and info["gaps"] >= 1,
                 sample=case if len(recs) <= 7 else None, cls="%s/gff3 exons nested below a transcript's exons" % call)
    # the consumer edits every yielded feature in place (lazily and after collecting): nothing else may change
    for k in range(ctx.budget(2400, 60000)):
        feats = G.alias_list(rng)
        opts = G.list_options(rng)
        opts["merge_attributes"] = rng.random() < 0.5
        opts["update_attributes"] = G.alias_update(rng, feats) if rng.random() < 0.85 else None
        source = "gff3" if k % 8 == 7 else "objects"
        if source == "gff3":
            feats = G.feature_list(rng, unique_ids=True)
        case = {"kind": "alias", "source": source, "feats": feats, "opts": opts, "lazy": rng.random() < 0.7,
                "edit_seed": rng.randrange(1 << 30), "dbfile": source == "gff3" and rng.random() < 0.2}
        info = execute(ctx, case)
        ctx.case((source, case["feats"], case["opts"], case["lazy"], case["edit_seed"]), info["gaps"] >= 2,
                 sample=case if len(feats) == 3 else None,
                 cls="list/%s yielded features edited in place" % ("objects" if source == "objects" else "db gff3"))
    # transcripts whose exons lie on two or more seqids with interleaved starts (start order != (seqid, start) order)
    for _ in range(ctx.budget(1000, 30000)):
        fmt = rng.choice(["gff3", "gff3", "gff3", "gtf"])
        call = rng.choice(["introns", "splice"])
        recs = G.multiseq_model(rng, fmt)
        case = {"kind": call, "fmt": fmt, "recs": recs, "opts": G.strand_order_options(rng, fmt, call), "multiseq": True,
                "dbfile": rng.random() < 0.1}
        info = execute(ctx, case)
        ctx.case((call, fmt, case["recs"], case["opts"]), info.get("multi", 0) >= 1,
                 sample=case if len(recs) <= 6 else None, cls="%s/%s exons of one transcript on several seqids" % (call, fmt))
    # a key both neighbours carry whose value is EMPTY on one of them (Note= / bare flag / GTF tag "" / {key: []})
    for k in range(ctx.budget(1200, 30000)):
        source = ("objects", "objects", "gff3", "gtf")[k % 4]
        feats = G.empty_values_list(rng, unique_ids=source != "objects")
        if source == "gtf":
            for r in feats:
                r["attrs"] = [["gene_id", ["g"]], ["transcript_id", ["t"]]] + [kv for kv in r["attrs"]]
        opts = G.list_options(rng)
        opts["merge_attributes"] = rng.random() < 0.95
        case = {"kind": "list", "source": source, "feats": feats, "opts": opts}
        if source == "objects":
            case["build"] = rng.choice(["dict", "string"])
        else:
            case["dbfile"] = rng.random() < 0.1
        info = execute(ctx, case)
        ctx.case((source, case.get("build"), case["feats"], case["opts"]), info["gaps"] >= 1,
                 sample=case if len(feats) == 2 else None, cls="list/%s empty values under a shared key"
                 % ("objects" if source == "objects" else "db " + source))
    # empty features (end == start - 1) anywhere in an ordered list: the pairwise law holds whatever the neighbours' length
    for _ in range(ctx.budget(1600, 40000)):
        feats = zero_length_list(rng)
        case = {"kind": "list", "source": "objects", "feats": feats, "opts": G.list_options(rng)}
        if rng.random() < 0.3:
            case["build"] = "string"
        info = execute(ctx, case)
        mi = [to_model(r) for r in feats]
        nt = any(is_empty(mi[g["pair"][0]]) for g in M.gaps(mi, merge_attributes=False)[0])
        ctx.case((case.get("build"), case["feats"], case["opts"]), nt, sample=case if len(feats) <= 3 else None,
                 cls="list/objects zero-length features")
    ctx.mon("bins.bins contract evaluations", contracts.EVALS["bins.bins"])


MANIFEST = {
    "technique": "generated ordered feature lists and gene models -> real interfeatures / create_introns / create_splice_sites; "
                 "pairwise reference model comparison; str() / content-dump / SQL-trace immutability monitors",
    "text": "Every feature yielded by the real interfeatures on generated ordered lists (Feature objects and features read "
            "from GFF3 and GTF databases) is compared with a pairwise reference model written from the statement (one gap per "
            "consecutive same-seqid pair with at least one base in between, coordinates, type, strand, per-key sorted union of "
            "attributes with joined IDs, numeric order, update_attributes). create_introns and create_splice_sites are run on "
            "generated GFF3 and GTF gene models and compared as multisets with the model applied to each transcript's "
            "start-ordered exons, the splice-site labels following side x transcript strand (also when the exons lie on the "
            "other strand or carry '.'), the site strand following the two neighbouring exons; the sites of every splice case are "
            "also compared with the two-base ends of the introns the real create_introns yields on the same database. Workload "
            "classes include neighbours with exactly equal attribute dictionaries holding unsorted / repeated values, numeric IDs "
            "whose numeric and text orders disagree (numeric_sort on and off) and exons strictly nested inside an earlier exon, "
            "databases whose transcripts have different strands (+, -, ., ?) in every order within one call (each transcript's "
            "sites labelled from its own strand), databases that already hold the derived introns / splice sites (stored with "
            "update(), reopened; the second call must yield what the first did and leave the content dump unchanged), and "
            "update_attributes with single-valued overriding / added keys and a one-valued ID; neighbours the caller built "
            "from plain dicts holding bare strings or changed by item assignment of a string, and the features of an earlier "
            "interfeatures(update_attributes={key: 'string'}) call fed back in (a bare string is one whole value in the union and "
            "in the joined ID; the inputs' attribute mappings keep values and form); GFF3 hierarchies in which transcripts have "
            "exon-typed descendants below their own exons (primary_transcript -> exon and -> miRNA -> exon), in grandparent and "
            "parent_featuretype mode: only the exons whose Parent names the transcript are its exons; 'alias' cases in which the "
            "consumer edits every yielded feature in place (sets an ID, appends to its lists) while iterating lazily and after "
            "collecting, with update_attributes holding several-valued lists and merge_attributes on and off: every other yielded "
            "feature, a deep snapshot of the caller's update_attributes dictionary and the inputs stay what they were, and later "
            "features are yielded as the model says; transcripts whose exons lie on two or three seqids with interleaved "
            "starts (GFF3 and GTF): the exons are taken in start order and no intron / site is made across a change of seqid, "
            "counted separately where taking the exons seqid by seqid would give other features; keys both neighbours carry "
            "whose value list is empty on one or both of them (objects, GFF3 'Note=' / bare flags, GTF key \"\";); ordered "
            "lists in which features at any position are empty (end == start - 1): every consecutive pair still follows the "
            "pairwise law. "
            "The inputs' printed form, an "
            "independent sqlite3 dump of the database and the SQL trace are compared before and after each call. "
            "Held = no executed case disagreed.",
    "note": "Trusted: gvmon/models/c15_gaps.py, the generators' rendering of GFF3/GTF lines, create_db (C01-C03 judge it). "
            "Not asserted: attributes when merge_attributes=False, score/frame/source/bin of the new features, output order of "
            "create_introns / create_splice_sites, splice-site attributes.",
}
