"""
C19  Existing databases are never clobbered; queries never write.

(a) (old database, new input) pairs: without force create_db must raise and leave the old content untouched; with
    force the result equals a solitary import of the new input.
(b) sequences of read-style calls on a reopened file database, observed by three independent write detectors on the
    connection gffutils itself opened (authorizer log, statement trace, total_changes) and by hashing / re-dumping
    the file afterwards.
"""
import hashlib
import os
import random

from gvmon import dbdump
from gvmon.gen import genemodels as G
from gvmon.monitors import contracts, sqltrace

RULE = ("(a) pairs of (old file database from one generated GFF3/GTF annotation, new GFF3/GTF input with disjoint or "
        "overlapping ids) x force in {False, True}, also with the existing database at a path whose directory / file name contains "
        "characters special to URI, shell, SQL or format-string layers (percent escapes, ?, #, blanks, quotes, non-ASCII; put there by "
        "create_db or moved there; no-force attempt first or force only); (b) file databases (GFF3 and GTF gene models) reopened with FeatureDB and "
        "driven by random sequences of 40 read-style calls (look-up, iteration with filters/ordering, children, parents, "
        "region, interfeatures, create_introns, create_splice_sites, merge, children_bp, bed12, counts, featuretypes, seqids, "
        "iter_by_parent_childs, schema, directives) with generated arguments, every generator drained; non-trivial = call "
        "sequence touching >= 6 distinct methods / pair with disjoint ids; distinct by (annotation, call sequence) / (old, new, force)")
REQUIRED = ["no-force attempts refused", "force imports compared with solitary import", "read-style calls made",
            "statements traced on gffutils' connection", "authorizer events seen", "files re-dumped after read sequences",
            "old databases with un-checkpointed WAL frames", "attempts on a database locked by another connection",
            "GTF databases built without inference", "look-ups of ids known only as relation parents",
            "attempts through an open connection to the existing database", "databases that already hold derived introns",
            "read sequences on a handle holding an uncommitted failed write", "databases whose stored dialect is null",
            "read sequences on a handle that committed a delete, an update and a hand-made relation before",
            "generators left suspended after their first item", "attempts with the new data given as a URL",
            "files re-dumped right after being opened", "databases with an update history (several meta rows) opened",
            "read sequences on a GTF database of more than 5000 rows",
            "attempts after set_pragmas() on a handle to another database", "journal mode and side files compared after a refused import",
            "no-force attempts refused at a path with special characters",
            "force imports at a path with special characters compared with solitary import",
            "forced databases reopened through FeatureDB at a path with special characters"]
ASSUMPTIONS = [
    "'content untouched' is judged on the independent content dump (byte identity of the file is recorded as a monitor, not demanded)",
    "exceptions raised by a read-style call (e.g. bed12 on non-spanning blocks) are not this property's concern; the call still must not write",
    "PRAGMA statements issued while FeatureDB opens the file (before the first call) are outside the monitored window",
]
QUICK_SHARDS = 4
METHODS = ["getitem", "all_features", "features_of_type", "children", "parents", "region", "interfeatures", "create_introns",
           "create_splice_sites", "merge", "children_bp", "bed12", "count", "featuretypes", "seqids", "iter_by_parent_childs",
           "schema", "missing_key"]


def setup(ctx):
    contracts.install_all()
    sqltrace.install()


def file_state(path):
    side = sorted(sfx for sfx in ("-wal", "-shm", "-journal") if os.path.exists(path + sfx))
    with open(path, "rb") as fh:
        head = fh.read(20)
    return {"side_files": side, "format_versions": [head[18], head[19]] if len(head) >= 20 else None}


def sha(path):
    h = hashlib.sha256()
    with open(path, "rb") as fh:
        h.update(fh.read())
    return h.hexdigest()


def annotation(seed, fmt, prefix=""):
    rng = random.Random(seed)
    genes = G.models(rng, prefix=prefix)
    if fmt == "gff3":
        # a third of the GFF3 models use ids shaped like gffutils' own generated ones and a fourth tier of features
        return G.gff3(genes, rng, shaped_ids=seed % 3 == 0, parts=seed % 3 != 1)
    return G.gtf(genes, rng)


def execute(ctx, case):
    try:
        if case["kind"] == "pair":
            pair(ctx, case)
        elif case["kind"] == "pair_path":
            pair_path(ctx, case)
        else:
            reads(ctx, case)
    finally:
        for v in contracts.drain():
            ctx.violation(case, v)


def pair(ctx, case):
    import gffutils

    old_text = annotation(case["old_seed"], case["old_fmt"], prefix="o" if case["disjoint"] else "")
    new_text = annotation(case["new_seed"], case["new_fmt"], prefix="n" if case["disjoint"] else "")
    dbfn, solo = ctx.tmp(".db"), ctx.tmp(".solo.db")
    try:
        gffutils.create_db(old_text, dbfn, from_string=True).conn.close()
        if case.get("old_without_stats"):
            # a database as older gffutils versions wrote it (no ANALYZE statistics); FeatureDB still opens those
            c0 = sqltrace.ORIG_CONNECT(dbfn)
            c0.execute("DROP TABLE IF EXISTS sqlite_stat1")
            c0.commit()
            c0.close()
            ctx.mon("old databases without ANALYZE statistics")
        locker = None
        if case.get("old_in_wal_mode"):
            # the leftovers of a writer that died in WAL mode: committed frames that live only in the -wal file
            import shutil
            live = gffutils.FeatureDB(dbfn)
            live.set_pragmas({"journal_mode": "WAL"})
            live.update("chrW\tsrc\tgene\t5\t50\t.\t+\t.\tID=only_in_wal_%d\n" % case["old_seed"], from_string=True, make_backup=False)
            crashed = ctx.tmp(".crashed.db")
            for suf in ("", "-wal", "-shm"):
                if os.path.exists(dbfn + suf):
                    shutil.copy(dbfn + suf, crashed + suf)
            live.conn.close()
            for suf in ("", "-wal", "-shm", ".bak"):
                if os.path.exists(dbfn + suf):
                    os.unlink(dbfn + suf)
            for suf in ("", "-wal", "-shm"):
                if os.path.exists(crashed + suf):
                    os.replace(crashed + suf, dbfn + suf)
            if os.path.exists(dbfn + "-wal") and os.path.getsize(dbfn + "-wal") > 0:
                ctx.mon("old databases with un-checkpointed WAL frames")
        if case.get("pragmas_history"):
            # earlier in this process a handle on ANOTHER database followed the documented recipe db.set_pragmas({...})
            other_db = ctx.tmp(".other.db")
            try:
                gffutils.create_db("chr1\ts\tgene\t1\t9\t.\t+\t.\tID=elsewhere\n", other_db, from_string=True).conn.close()
                h = gffutils.FeatureDB(other_db)
                h.set_pragmas({"journal_mode": "WAL"} if case["pragmas_history"] == "wal" else {"synchronous": "FULL", "cache_size": 50})
                h.conn.close()
                ctx.mon("attempts after set_pragmas() on a handle to another database")
            finally:
                for suf in ("", "-wal", "-shm"):
                    if os.path.exists(other_db + suf):
                        os.unlink(other_db + suf)
        before, h0 = dbdump.dump(dbfn), sha(dbfn)
        state0 = file_state(dbfn)
        if case.get("locked"):
            # another connection holds the exclusive lock while the import is attempted (takes sqlite3's busy timeout)
            locker = sqltrace.ORIG_CONNECT(dbfn, timeout=0.1)
            locker.isolation_level = None
            locker.execute("BEGIN EXCLUSIVE")
            ctx.mon("attempts on a database locked by another connection")
        # without force: must raise, content untouched
        raised = None
        try:
            kw = {} if case.get("force_kw", "absent") == "absent" else {"force": False}
            target = dbfn
            if case.get("target_connection"):
                # the documented alternative to a path: an open sqlite3 connection (here: to the existing database)
                target = sqltrace.ORIG_CONNECT(dbfn)
                ctx.mon("attempts through an open connection to the existing database")
            new_input = case.get("new_input", "string")
            if new_input == "string":
                db = gffutils.create_db(new_text, target, from_string=True, **kw)
            else:
                newp = ctx.tmp(".new.gff")
                with open(newp, "w", encoding="utf-8") as fh:
                    fh.write(new_text)
                if new_input == "url":
                    import pathlib
                    ctx.mon("attempts with the new data given as a URL")
                    db = gffutils.create_db(pathlib.Path(newp).as_uri(), target, **kw)
                else:
                    db = gffutils.create_db(newp, target, **kw)
            db.conn.close()
        except Exception as ex:
            raised = ex
        finally:
            if case.get("target_connection"):
                try:
                    target.rollback()
                    target.close()
                except Exception:
                    pass
        if raised is None:
            ctx.violation(case, {"why": "create_db on an existing database did not raise without force"})
            return
        del raised
        import gc
        gc.collect()
        if locker is not None:
            locker.execute("ROLLBACK")
            locker.close()
        if not os.path.exists(dbfn):
            ctx.violation(case, {"why": "a refused create_db removed the existing database file"})
            return
        after = dbdump.dump(dbfn)
        if not case.get("old_in_wal_mode") and not case.get("target_connection"):
            ctx.mon("journal mode and side files compared after a refused import")
            if file_state(dbfn) != state0:
                ctx.violation(case, {"why": "a refused create_db changed the existing file's journal mode / left side files next to it",
                                     "before": state0, "after": file_state(dbfn)})
                return
        ctx.mon("no-force attempts refused")
        ctx.mon("file bytes identical after refused import" if sha(dbfn) == h0 else "file bytes changed after refused import (content equal)")
        d = dbdump.diff(before, after)
        if d:
            ctx.violation(case, {"why": "a refused create_db changed the existing database", "diff": d})
            return
        if case["force"] and not case.get("locked") and not case.get("target_connection"):
            try:
                db = gffutils.create_db(new_text, dbfn, from_string=True, force=True)
                db.conn.close()
            except Exception as ex:
                ctx.violation(case, {"why": "create_db(force=True) on an existing database raised %r" % (ex,)})
                return
            gffutils.create_db(new_text, solo, from_string=True).conn.close()
            ctx.mon("force imports compared with solitary import")
            d = dbdump.diff(dbdump.dump(solo), dbdump.dump(dbfn))
            if d:
                ctx.violation(case, {"why": "create_db(force=True) result differs from a solitary import of the new input", "diff": d})
                return
            old_ids = set(f["id"] for f in before["features"])
            new_ids = set(f["id"] for f in dbdump.dump(dbfn)["features"])
            solo_ids = set(f["id"] for f in dbdump.dump(solo)["features"])
            if (new_ids - solo_ids) & old_ids:
                ctx.violation(case, {"why": "features of the old database survive force=True", "ids": sorted((new_ids - solo_ids) & old_ids)[:5]})
    finally:
        for p in (dbfn, solo, dbfn + "-wal", dbfn + "-shm", dbfn + "-journal"):
            if os.path.exists(p):
                os.unlink(p)


# Fragments a database path may legally contain on a POSIX file system and that mean something to SOME layer a path can
# pass through (URI syntax and percent-escapes, query/fragment markers, shell/glob/SQL/format metacharacters, blanks,
# non-ASCII).  The property speaks of "a path that already holds a database" - whatever that path is spelled like.
PATH_FRAGMENTS = ["%41", "%20", "%2F", "%2e", "%", "%%", "%zz", "%s", "%d", "?", "#", "?mode=ro", "?x=1&y=2", " ", "  ", "'", '"',
                  "é", "日本", "*", "[x]", ";", "&", "=", "+", "$HOME", "~", "\\", ":", "..", "-", "{0}", "(1)", ",", "@", "!", "|"]


def odd_name(rng, ext):
    return rng.choice(["a", "annot", "db", "-", "~", "."]) + "".join(
        rng.choice(PATH_FRAGMENTS) + rng.choice(["", "x", "B", "7"]) for _ in range(rng.randrange(1, 4))) + ext


def dump_any(path):
    """Independent read-only dump of the database at exactly `path`, whatever characters the path contains."""
    from urllib.parse import quote
    conn = sqltrace.ORIG_CONNECT("file:%s?mode=ro" % quote(os.path.abspath(path)), uri=True)
    try:
        return dbdump.dump_conn(conn)
    finally:
        conn.close()


def tree_listing(top):
    out = []
    for d, _, files in os.walk(top):
        out.extend(os.path.relpath(os.path.join(d, f), top) for f in files)
    return sorted(out)


def pair_path(ctx, case):
    """(old database, new input) x force where the existing database sits at a path whose directory and/or file name
    contains characters that are special to some layer (see PATH_FRAGMENTS).  The old database got there either by
    create_db itself or by being moved there by the user; the no-force attempt may be skipped (force only)."""
    import shutil
    import gffutils

    old_text = annotation(case["old_seed"], case["old_fmt"], prefix="o")
    new_text = annotation(case["new_seed"], case["new_fmt"], prefix="n")
    top, solo = ctx.tmp(".dir"), ctx.tmp(".solo.db")
    where = os.path.join(top, case["dirname"]) if case["dirname"] else top
    dbfn = os.path.join(where, case["fname"])
    try:
        os.makedirs(where)
        made_in_place = False
        if case["old_made"] == "in place":
            try:
                gffutils.create_db(old_text, dbfn, from_string=True).conn.close()
                made_in_place = os.path.exists(dbfn) and tree_listing(top) == [os.path.relpath(dbfn, top)]
            except Exception:
                pass
            if not made_in_place:
                # creating a FRESH database is not this property's subject: start over with a moved one
                ctx.mon("fresh creation at a path with special characters failed or went elsewhere (not judged here)")
                shutil.rmtree(top)
                os.makedirs(where)
        if not made_in_place:
            plain = ctx.tmp(".plain.db")
            gffutils.create_db(old_text, plain, from_string=True).conn.close()
            os.replace(plain, dbfn)
        ctx.mon("existing databases at a path with special characters in the %s name" % ("directory" if case["dirname"] else "file"))
        before, listing0 = dump_any(dbfn), tree_listing(top)
        old_ids = set(f["id"] for f in before["features"])
        if not case["force_only"]:
            raised = None
            try:
                db = gffutils.create_db(new_text, dbfn, from_string=True, **({} if case["force_kw"] == "absent" else {"force": False}))
                db.conn.close()
            except Exception as ex:
                raised = ex
            if raised is None:
                ctx.violation(case, {"why": "create_db on an existing database did not raise without force", "path": dbfn,
                                     "files_before": listing0, "files_after": tree_listing(top)})
                return
            del raised
            if not os.path.exists(dbfn):
                ctx.violation(case, {"why": "a refused create_db removed the existing database file", "path": dbfn})
                return
            d = dbdump.diff(before, dump_any(dbfn))
            if d:
                ctx.violation(case, {"why": "a refused create_db changed the existing database", "diff": d, "path": dbfn})
                return
            ctx.mon("no-force attempts refused at a path with special characters")
            ctx.mon("directory listing unchanged after refused import" if tree_listing(top) == listing0 else
                    "directory listing changed after refused import (recorded, not demanded)")
        if case["force"] or case["force_only"]:
            try:
                db = gffutils.create_db(new_text, dbfn, from_string=True, force=True)
                db.conn.close()
            except Exception as ex:
                ctx.violation(case, {"why": "create_db(force=True) on an existing database raised %r" % (ex,), "path": dbfn,
                                     "files_after": tree_listing(top)})
                return
            if not os.path.exists(dbfn):
                ctx.violation(case, {"why": "after create_db(force=True) there is no database at the given path", "path": dbfn,
                                     "files_after": tree_listing(top)})
                return
            gffutils.create_db(new_text, solo, from_string=True).conn.close()
            try:
                got = dump_any(dbfn)
            except Exception as ex:
                ctx.violation(case, {"why": "the file at the given path is not a readable database after create_db(force=True): %r" % (ex,),
                                     "path": dbfn})
                return
            ctx.mon("force imports at a path with special characters compared with solitary import")
            d = dbdump.diff(dbdump.dump(solo), got)
            if d:
                ctx.violation(case, {"why": "create_db(force=True) result differs from a solitary import of the new input", "diff": d,
                                     "path": dbfn})
                return
            # the property's own observation: reopening the given path through gffutils shows the new input and nothing old
            try:
                db2 = gffutils.FeatureDB(dbfn)
                seen = set(f.id for f in db2.all_features())
                db2.conn.close()
            except Exception as ex:
                ctx.violation(case, {"why": "reopening the forced database with FeatureDB raised %r" % (ex,), "path": dbfn})
                return
            ctx.mon("forced databases reopened through FeatureDB at a path with special characters")
            want = set(f["id"] for f in got["features"])     # == the solitary import's ids (compared above)
            if seen != want:
                ctx.violation(case, {"why": "FeatureDB on the forced path shows other features than the new input",
                                     "old_ids_seen": sorted((seen - want) & old_ids)[:5], "path": dbfn})
    finally:
        import shutil as _sh
        _sh.rmtree(top, ignore_errors=True)
        for p_ in (solo,):
            if os.path.exists(p_):
                os.unlink(p_)


ABANDON = [False]      # set per call: generators are left suspended after their first item instead of being drained
SUSPENDED = []         # suspended generators are kept alive until the read sequence is over


def drain_gen(x):
    n = 0
    if ABANDON[0] and hasattr(x, "__next__"):
        for item in x:
            n += 1
            break
        SUSPENDED.append(x)
        return n
    for item in x:
        n += 1
        if isinstance(item, list):
            n += len(item)
    return n


def one_call(db, name, rng, ids, feats):
    """One read-style call with generated arguments; generators are drained."""
    from gffutils import merge_criteria as mc

    fid = rng.choice(ids)
    types = [None, "exon", "CDS", "mRNA", "gene", "transcript", ["exon", "CDS"], ("gene",), "nope"]
    order = [None, "start", "end", "seqid", ("seqid", "start"), "featuretype", "file_order", ("length",), "strand", "attributes"]
    seqid = rng.choice(["chr1", "chr2", "scaf_3", "nope"])
    s = rng.randrange(1, 20000)
    e = s + rng.randrange(0, 20000)
    limit = rng.choice([None, (seqid, s, e), "%s:%d-%d" % (seqid, s, e)])
    strand = rng.choice([None, None, "+", "-", "."])
    if name == "getitem":
        f = db[fid]
        return 1 if db[f].id == fid else 0
    if name == "missing_key":
        try:
            db[fid + "_nope"]
        except Exception:
            pass
        return 1
    if name == "all_features":
        return drain_gen(db.all_features(limit=limit, strand=strand, featuretype=rng.choice(types), order_by=rng.choice(order),
                                         reverse=rng.random() < 0.5, completely_within=rng.random() < 0.5))
    if name == "features_of_type":
        return drain_gen(db.features_of_type(rng.choice(types[1:]), limit=limit, strand=strand, order_by=rng.choice(order),
                                             reverse=rng.random() < 0.5))
    if name in ("children", "parents"):
        f = rng.choice([fid, db[fid]])
        return drain_gen(getattr(db, name)(f, level=rng.choice([None, 1, 2, 3, 4]), featuretype=rng.choice(types),
                                           order_by=rng.choice(order), reverse=rng.random() < 0.5, limit=limit,
                                           completely_within=rng.random() < 0.5))
    if name == "region":
        form = rng.randrange(4)
        kw = dict(strand=strand, featuretype=rng.choice(types), completely_within=rng.random() < 0.5)
        if form == 0:
            return drain_gen(db.region((seqid, s, e), **kw))
        if form == 1:
            return drain_gen(db.region("%s:%d-%d" % (seqid, s, e), **kw))
        if form == 2:
            return drain_gen(db.region(db[fid], **kw))
        return drain_gen(db.region(seqid=rng.choice([seqid, None]), start=rng.choice([s, None]), end=rng.choice([e, None]), **kw))
    if name == "interfeatures":
        src = list(db.features_of_type(rng.choice(["exon", "gene", "CDS"]), order_by=("seqid", "start")))
        other_dialect = {"leading semicolon": False, "trailing semicolon": True, "quoted GFF2 values": True, "field separator": "; ",
                         "keyval separator": " ", "multival separator": ",", "fmt": "gtf", "repeated keys": False, "order": ["gene_id"]}
        return drain_gen(db.interfeatures(src, new_featuretype=rng.choice([None, "gap"]), merge_attributes=rng.random() < 0.7,
                                          numeric_sort=rng.random() < 0.3, update_attributes=rng.choice([None, {"k": ["v"]}]),
                                          dialect=rng.choice([None, None, other_dialect, dict(db.dialect or {}) or None])))
    if name == "create_introns":
        return drain_gen(db.create_introns(merge_attributes=rng.random() < 0.7, numeric_sort=rng.random() < 0.3))
    if name == "create_splice_sites":
        return drain_gen(db.create_splice_sites())
    if name == "merge":
        src = db.all_features(featuretype=rng.choice(["exon", "CDS", None]), order_by=("seqid", "strand", "featuretype", "start"))
        crit = rng.choice([None, [mc.seqid, mc.overlap_any_inclusive], [mc.seqid, mc.overlap_end_threshold(50), mc.strand]])
        return drain_gen(db.merge(src) if crit is None else db.merge(src, merge_criteria=crit))
    if name == "children_bp":
        return db.children_bp(rng.choice([fid, db[fid]]), child_featuretype=rng.choice(["exon", "CDS"]), merge=rng.random() < 0.5)
    if name == "bed12":
        db.bed12(rng.choice([fid, db[fid]]), block_featuretype=rng.choice([["exon"], "exon", ["CDS"]]),
                 thick_featuretype=rng.choice([["CDS"], None]), name_field=rng.choice(["ID", "transcript_id", "nope"]))
        return 1
    if name == "count":
        return db.count_features_of_type(rng.choice([None, "exon", "gene", "nope"]))
    if name == "featuretypes":
        return drain_gen(db.featuretypes())
    if name == "seqids":
        return drain_gen(db.seqids())
    if name == "iter_by_parent_childs":
        return drain_gen(db.iter_by_parent_childs(featuretype=rng.choice(["gene", "mRNA", "transcript"]), level=rng.choice([None, 1])))
    if name == "schema":
        db.schema()
        list(db.directives)
        dict(db.dialect)
        return 1
    raise ValueError(name)


def reads(ctx, case):
    import gffutils

    text = annotation(case["seed"], case["fmt"])
    if case.get("big_gtf"):
        # a GTF database above any size threshold (>= 5000 rows once genes and transcripts are inferred)
        rows = []
        for g in range(720):
            for e in range(7):
                s0 = 1000 * g + 100 * e + 1
                rows.append('chr%d\tsrc\texon\t%d\t%d\t.\t%s\t.\tgene_id "bg%d"; transcript_id "bt%d";' % (g % 3 + 1, s0, s0 + 50, "+-"[g % 2], g, g))
        text = "\n".join(rows) + "\n"
        ctx.mon("read sequences on a GTF database of more than 5000 rows")
    dbfn = ctx.tmp(".db")
    try:
        kw = {}
        if case["fmt"] == "gtf" and case.get("no_infer"):
            kw = {"disable_infer_genes": True, "disable_infer_transcripts": True}
            ctx.mon("GTF databases built without inference")
        if case.get("null_dialect") and case["fmt"] == "gff3":
            # the one documented route to a database whose stored dialect is null
            kw = {"force_dialect_check": True, "force_gff": True}
        gffutils.create_db(text, dbfn, from_string=True, **kw).conn.close()
        if case.get("null_dialect") and case["fmt"] == "gff3":
            meta = dbdump.dump(dbfn)["meta"]
            if meta and meta[0][0] in (None, "null", []):
                ctx.mon("databases whose stored dialect is null")
        if case.get("stored_derived") and case["fmt"] == "gff3":
            # a database that already holds features derived earlier (the documented db.update(db.create_introns()))
            w = gffutils.FeatureDB(dbfn)
            try:
                w.update(list(w.create_introns()), make_backup=False, merge_strategy="create_unique")
                ctx.mon("databases that already hold derived introns")
            except Exception:
                pass
            w.conn.close()
        sqltrace.reset()
        pre_open = dbdump.dump(dbfn)
        db = gffutils.FeatureDB(dbfn, keep_order=case["seed"] % 2 == 0)
        serial = getattr(db.conn, "gv_serial", None)
        if serial is None:
            from gvmon.run import Inconclusive
            raise Inconclusive("gffutils' connection is not a traced connection")
        # opening a database is a read as well (also one that has seen updates: several meta rows)
        ctx.mon("files re-dumped right after being opened")
        if len(pre_open["meta"]) > 1:
            ctx.mon("databases with an update history (several meta rows) opened")
        d_open = dbdump.diff(pre_open, dbdump.dump(dbfn))
        if d_open or db.conn.in_transaction:
            ctx.violation(case, {"why": "opening a database with FeatureDB() changed its content", "diff": d_open,
                                 "meta_rows_before": len(pre_open["meta"])})
            return
        if case.get("prior_writes"):
            # the reading handle has a past: it deleted a feature in the middle of a hierarchy, added features and a
            # hand-made second-level relation (all committed).  What it reads afterwards still writes nothing.
            try:
                pre = dbdump.dump(dbfn)
                parents_of = {}
                for p_, c_, l_ in pre["relations"]:
                    if l_ == 1:
                        parents_of.setdefault(c_, []).append(p_)
                fids = [f["id"] for f in pre["features"]]
                mids = [c_ for c_ in fids if c_ in parents_of and any(r[0] == c_ and r[2] == 1 for r in pre["relations"])]
                if mids:
                    db.delete(mids[case["seed"] % len(mids)], make_backup=False)
                db.update("chrW\tsrc\tgene\t5\t90\t.\t+\t.\tID=later_gene\nchrW\tsrc\tmRNA\t5\t90\t.\t+\t.\tID=later_tx;Parent=later_gene\n"
                          if case["fmt"] == "gff3" else
                          'chrW\tsrc\texon\t5\t90\t.\t+\t.\tgene_id "later_gene"; transcript_id "later_tx";\n',
                          from_string=True, make_backup=False, merge_strategy="create_unique")
                if len(fids) >= 2:
                    db.add_relation(fids[0], fids[-1], 2)
                ctx.mon("read sequences on a handle that committed a delete, an update and a hand-made relation before")
            except Exception:
                ctx.mon("prior writes raised (not judged)")
                try:
                    db.conn.rollback()
                except Exception:
                    pass
        before, h0 = dbdump.dump(dbfn), sha(dbfn)
        ids = [f["id"] for f in before["features"]]
        pending = False
        if case.get("pending") and len(ids) >= 2:
            # an earlier write on this handle failed half-way (a hook function that forgets to return the feature): its
            # INSERT is still uncommitted when the reads begin.  Reads neither commit nor roll back what they did not start.
            try:
                db.add_relation(ids[0], ids[-1], 1, parent_func=lambda parent, child: None)
            except Exception:
                pass
            pending = db.conn.in_transaction
            if pending:
                ctx.mon("read sequences on a handle holding an uncommitted failed write")
        log0, auth0, tc0 = len(sqltrace.LOG), len(sqltrace.AUTH), db.conn.total_changes
        # ids that occur in the relations table but are not features (dangling parents; GTF transcripts/genes when
        # inference is off): look-ups of those are misses and must stay reads
        only_related = sorted(set(r[0] for r in before["relations"]) - set(ids))
        rng = random.Random(case["seed"] * 31 + 7)
        used = set()
        per_method = {}
        for name in case["calls"]:
            l0, a0, t0 = len(sqltrace.LOG), len(sqltrace.AUTH), db.conn.total_changes
            ABANDON[0] = bool(case.get("abandon")) and rng.random() < 0.5
            if ABANDON[0]:
                ctx.mon("generators left suspended after their first item")
            try:
                if name == "missing_key" and only_related and rng.random() < 0.7:
                    k = rng.choice(only_related)
                    ctx.mon("look-ups of ids known only as relation parents")
                    for fn in (lambda: db[k], lambda: list(db.children(k)), lambda: db.bed12(k), lambda: db.children_bp(k)):
                        try:
                            fn()
                        except Exception:
                            pass
                else:
                    one_call(db, name, rng, ids, before["features"])
            except Exception as ex:
                ctx.mon("read-style calls that raised (not judged): %s" % type(ex).__name__)
            ctx.mon("read-style calls made")
            ctx.mon("call:" + name)
            used.add(name)
            stmts, auth = sqltrace.writes(serial=serial, since_log=l0, since_auth=a0)
            ended = [st for n, st in sqltrace.LOG[l0:] if n == serial and sqltrace.first_word(st) in ("COMMIT", "ROLLBACK")] if pending else []
            if stmts or auth or db.conn.total_changes != t0 or db.conn.in_transaction != pending or ended:
                ctx.violation(case, {"why": "read-style method %s wrote to the database" % name, "statements": stmts[:5],
                                     "authorizer": [list(map(str, a)) for a in auth[:5]],
                                     "total_changes_delta": db.conn.total_changes - t0, "in_transaction": db.conn.in_transaction,
                                     "uncommitted_failed_write_before": pending, "transaction_ended_by": ended[:3]})
                return
        ABANDON[0] = False
        for g in SUSPENDED:
            try:
                g.close()
            except Exception:
                pass
        del SUSPENDED[:]
        ctx.mon("statements traced on gffutils' connection", len([1 for n, _ in sqltrace.LOG[log0:] if n == serial]))
        ctx.mon("authorizer events seen", len([1 for a in sqltrace.AUTH[auth0:] if a[0] == serial]))
        db.conn.close()
        ctx.mon("files re-dumped after read sequences")
        ctx.mon("file bytes identical after read sequence" if sha(dbfn) == h0 else "file bytes changed after read sequence (content equal?)")
        d = dbdump.diff(before, dbdump.dump(dbfn))
        if d:
            ctx.violation(case, {"why": "database content changed after read-style calls", "diff": d, "calls": case["calls"]})
            return
        # reopening through gffutils observes the same counters/dialect/directives
        db2 = gffutils.FeatureDB(dbfn)
        same = dict(db2._autoincrements) == before["autoincrements"] and list(db2.directives) == before["directives"]
        db2.conn.close()
        if not same:
            ctx.violation(case, {"why": "id counters or directives observed after reopening differ", "calls": case["calls"]})
    finally:
        if os.path.exists(dbfn):
            os.unlink(dbfn)


def run(ctx):
    rng = ctx.rng
    for _ in range(ctx.budget(300, 8000)):
        case = {"kind": "pair", "old_seed": rng.randrange(10 ** 6), "new_seed": rng.randrange(10 ** 6),
                "old_fmt": rng.choice(["gff3", "gtf"]), "new_fmt": rng.choice(["gff3", "gtf"]),
                "disjoint": rng.random() < 0.5, "force": rng.random() < 0.7, "force_kw": rng.choice(["absent", "False"]),
                "old_without_stats": rng.random() < 0.3, "old_in_wal_mode": rng.random() < 0.15,
                "target_connection": rng.random() < 0.12, "new_input": rng.choice(["string", "string", "path", "url"]),
                "pragmas_history": rng.choice([None, None, None, "wal", "other"])}
        execute(ctx, case)
        ctx.case(("pair", case), case["disjoint"], sample=case, cls="pair force=%s" % case["force"])
    # the existing database sits at a path with characters that are special to some layer (URI, shell, SQL, format strings)
    for _ in range(ctx.budget(160, 4000)):
        where = rng.choice(["file", "file", "dir", "both"])
        case = {"kind": "pair_path", "old_seed": rng.randrange(10 ** 6), "new_seed": rng.randrange(10 ** 6),
                "old_fmt": rng.choice(["gff3", "gtf"]), "new_fmt": rng.choice(["gff3", "gtf"]),
                "dirname": odd_name(rng, rng.choice(["", ".d"])) if where in ("dir", "both") else "",
                "fname": odd_name(rng, rng.choice([".db", ".db", "", ".sqlite"])) if where in ("file", "both") else "annotation.db",
                "old_made": rng.choice(["in place", "moved"]), "force": rng.random() < 0.6, "force_only": rng.random() < 0.3,
                "force_kw": rng.choice(["absent", "False"])}
        execute(ctx, case)
        ctx.case(("pair_path", case), True, sample=case if rng.random() < 0.1 else None,
                 cls="pair at a path with special characters (%s name)" % where)
    # a database that another connection holds locked (each attempt waits for sqlite3's busy timeout, so only a few)
    for _ in range(1 if ctx.tier == "quick" else 6):
        case = {"kind": "pair", "old_seed": rng.randrange(10 ** 6), "new_seed": rng.randrange(10 ** 6), "old_fmt": "gff3",
                "new_fmt": rng.choice(["gff3", "gtf"]), "disjoint": True, "force": False, "force_kw": "absent", "locked": True}
        execute(ctx, case)
        ctx.case(("pair-locked", case["old_seed"], case["new_seed"]), True, sample=case, cls="pair on a locked database")
    if ctx.shard == 0 or ctx.tier == "thorough":
        calls = ["region", "all_features", "features_of_type", "children", "parents", "region", "count", "region", "getitem", "region"] * 2
        case = {"kind": "reads", "seed": rng.randrange(10 ** 6), "fmt": "gtf", "calls": calls, "no_infer": False, "big_gtf": True}
        execute(ctx, case)
        ctx.case(("reads-big-gtf", case["seed"]), True, cls="read sequence on a large gtf db")
    for _ in range(ctx.budget(480, 16000)):
        calls = [rng.choice(METHODS) for _ in range(40)]
        case = {"kind": "reads", "seed": rng.randrange(10 ** 6), "fmt": rng.choice(["gff3", "gff3", "gtf"]), "calls": calls,
                "no_infer": rng.random() < 0.4, "stored_derived": rng.random() < 0.3, "pending": rng.random() < 0.2,
                "null_dialect": rng.random() < 0.12, "prior_writes": rng.random() < 0.25, "abandon": rng.random() < 0.4}
        execute(ctx, case)
        ctx.case(("reads", case["seed"], case["fmt"], calls), len(set(calls)) >= 6, sample=case if rng.random() < 0.05 else None,
                 cls="read sequence on %s db" % case["fmt"])


MANIFEST = {
    "technique": "sqlite3 authorizer log + statement trace + total_changes on gffutils' own connection during random read-call sequences; content dump / sha256 before-after; refused and forced re-imports compared with solitary imports",
    "text": "Read-style methods are driven in random sequences on reopened file databases while three independent write "
            "detectors watch the connection gffutils itself opened (authorizer action codes, first keyword of every traced "
            "statement, total_changes / open transaction); afterwards the file is re-dumped with plain sqlite3 and compared. "
            "For clobbering, create_db is pointed at an existing database with and without force and the outcome compared "
            "with the old content / with a solitary import of the new input. Old databases also come without ANALYZE statistics, as crashed-writer leftovers in WAL mode (frames only in the -wal file) and locked by another connection; read sequences include GTF databases built without inference and look-ups of ids known only as relation parents, levels 3/4 and four-tier hierarchies; a fifth of the read sequences run on a handle that holds the uncommitted INSERT of a failed add_relation (reads must neither commit nor roll it back), some on a database whose stored dialect is null.",
    "note": "Trusted: sqlite3's authorizer and trace callbacks. Methods not listed in the statement are still exercised when "
            "they are read-style (create_splice_sites, iter_by_parent_childs, schema).",
}
