"""
C18  Coordinate conventions of exports: length, sequence and BED12.

Case kinds (each replayable through execute):
  seq    a random reference (2-4 sequences, upper/lower case, N, line-wrapped) is written to a scratch FASTA file; for
         features inside it (parsed lines, Feature(...), read from a database): len(f) == end-start+1 and
         f.sequence(fasta[, use_strand=False]) == the model's slice of the in-memory reference (own complement table),
         fasta given as a path and as a pyfaidx.Fasta object
  seq    (case["twins"]) the same on references holding records whose names are equal ignoring letter case (ctgA / ctga /
         CTGA, chrX / chrx, non-ASCII case pairs) or differ by Unicode normalisation form only (NFC / NFD / compatibility
         spellings), all of one length with independent bases: every feature gets the bases of the record named EXACTLY
         like its seqid
  seqrw  2-4 versions of one FASTA file are written to the SAME path one after the other (other bases, other lengths /
         line widths; index file removed or left behind, file overwritten or replaced); after every rewrite
         f.sequence(path) must give the bases of the file as it is at the time of the call
  seqobj records with headers gi|<n>|<name> [description] read through pyfaidx.Fasta objects opened with key_function,
         split_char (+ duplicate_action='first'), read_long_names with / without key_function, plain short names, each
         with as_raw False / True; feature.seqid is a key the object offers; expected = the slice of the record the object
         itself resolves for feature.seqid
  seqtwin two different FASTA files with the SAME base name and the SAME size in bytes are written into two scratch
         directories (records in another order / some bases changed / bases moved between records); no index file next
         to either; sequence(<path string>) calls alternate between the two paths: each returns the bases of the file
         it names
  bed12  (case["sub"]) transcripts whose children carry type names that contain one another (exon / coding_exon, UTR /
         five_prime_UTR, CDS / CDS_part); block and thick featuretype given as str and as list, thick names equal to /
         contained in / disjoint from / overlapping the block names: blocks and thick range come from exactly the
         children of the named type(s)
  bed12  (case["look"]) transcripts whose children carry, next to the requested block / thick types, look-alike types:
         letter-case twins (exon / EXON / Exon, CDS / cds) and twins differing exactly where the requested name has '_' or
         '%' (coding_exon / coding-exon / codingXexon, five_prime_UTR / five-prime-UTR, ex%n / exon / exZZn): blocks and
         thick range come from the children whose featuretype EQUALS a requested name; ValueError where only a look-alike
         reaches the transcript boundary; single-block export where only look-alikes exist
  bed12  (case["deep"]) single-isoform genes: bed12(gene) whose block / thick features are level-2 children
         (gene > transcript > exon/CDS), and bed12(transcript) with CDS / UTR / exons attached through an intermediate
         feature (transcript > protein > CDS)
  bed12  (case["dup"]) transcripts some of whose exon (and CDS) records are written two or three times: byte-identical
         lines without an ID of their own (stored as exon_1 / exon_2) or equal coordinates under distinct IDs (GTF:
         exon_id); one block per stored block feature
  bed12  (case["reach"]) transcripts whose exons span them exactly while CDS / UTR records reach past the transcript's
         start, end or both: thickStart/thickEnd from the thick features; with the thin choice the other ten fields
  bed12  (case["nest"]) transcripts whose block features overlap or lie inside one another (all block starts distinct): an
         enclosing first block, an earlier block reaching the transcript end, overlapping chains, a block inside an
         earlier one, CDS listed among the block types next to the exons holding them: one block per block feature in
         ascending order of start; ValueError when the last of them does not end at the transcript end
  bed12  GFF3 / GTF database of transcripts with 0-6 exons, 0-4 CDS, UTRs; the real FeatureDB.bed12 (id and Feature,
         block/thick/thin/name_field/color choices) and convert.to_bed12 vs the field model in gvmon/models/c18.py
"""
import os
import shutil
import random

from gvmon.gen import c18 as G
from gvmon.models import c18 as M

RULE = ("seq: references of 2-4 sequences of 1-3000 bases over ACGTN + IUPAC ambiguity codes in both cases wrapped at 1-100 columns; (seqid,start,end,strand) "
        "with whole-sequence, single-base, first/last-base and line-wrap-boundary slices on + - and '.'; features from "
        "feature_from_line, Feature(...) and a database; non-trivial = minus strand; "
        "bed12: 1-5 transcripts per database (GFF3 with explicit transcript lines, GTF with inferred transcripts), 0-6 "
        "disjoint or abutting exons (two exon type names), 0-4 CDS inside them, UTRs, stop codon, intron noise, children "
        "in random file order, transcript extents spanning the blocks or deliberately not (5 shapes), calls by id and by "
        "Feature with block in {exon, [exon], [exon,noncoding_exon], [CDS], absent type} x thick/thin choices x name field "
        "present/absent x colour; non-trivial = >= 2 blocks or a non-spanning transcript; distinct by case content; "
        "sub: 1-3 GFF3 transcripts of 3-8 children typed exon/coding_exon/UTR/five_prime_UTR/CDS/CDS_part (flat: disjoint "
        "segments of random type, every named type accompanied by the type whose name contains it; nested: CDS pieces "
        "inside coding_exon, UTR over exon), 2-4 calls each with block in {name, [name], [name, containing name], names "
        "of two or three families} x thick {equal, subset, disjoint, the containing/contained name, overlapping} each as "
        "str or list; seqtwin: 2-4 records of 1-400 bases, twin = reordered / 1-3 bases changed / 1-5 bases moved "
        "between records at equal file size, 3-7 calls alternating between the two paths; "
        "dup: 1-3 transcripts (GFF3 / GTF) with >= 1 exon, 1-2 exon records and (40%) one CDS record repeated once or twice, "
        "65% as byte-identical lines without ID, 35% with one ID (GTF: exon_id) per copy, lines shuffled in half of the "
        "cases, 1-3 calls each (bed12 by id / Feature, to_bed12); reach: 1-3 spanning transcripts with CDS, first CDS "
        "start moved 1-300 before the transcript start and / or last CDS end 1-300 after its end (stop codon moved along), "
        "and / or a UTR record before / after it, thick in {CDS, [CDS], [CDS, stop_codon]} or the thin choices; "
        "twins: 1-2 families of 2-4 look-alike record names (11 families: ASCII case, NFC/NFD/compatibility, non-ASCII case "
        "pairs) of one length with independent bases + 0-1 ordinary record, file order random, 12 slices, origins line / "
        "ctor / db; look: 1-3 GFF3 transcripts of 3-8 disjoint segments typed with the block name or one of its 3-5 "
        "look-alikes (8 families; 18% with a look-alike as outermost segment), thick-type or look-alike pieces inside 60% of "
        "the segments and look-alike pieces in gaps, 2-4 calls each: requested = the family name (or in 25% a look-alike "
        "itself, 10-15% a list of the name and a twin) as str or list, by id / Feature, to_bed12 in 30%; "
        "alt: the bed12 cases in GFF3 with, per transcript, children recorded on ANOTHER seqid (5 alternate names): the first "
        "block, the last block, an inner block, the first / last CDS, a random subset, all children, or one further block "
        "feature past the transcript's end / before its start, same calls; "
        "overlapping blocks: 1-3 transcripts (GFF3 70% / GTF), 2-5 exons of >= 4 bases in a chain, then one of {first block "
        "stretched over the whole transcript, an earlier block stretched to (past) the end of the last, consecutive blocks "
        "started inside their predecessor, an extra block inside a non-last one, block types exon+CDS with a CDS strictly "
        "after the start of each exon of a run up to the last exon, the last CDS ending inside / with the last exon}, block "
        "starts pairwise distinct; 1-2 calls each by id / Feature; "
        "stale: a GFF3 bed12 case, one transcript, 1-2 calls; the transcript record replaced through update(merge_strategy="
        "'replace') with another extent (45% exactly the exons' span, else off by 1 / 2 / 50 on one end, widened, or random) "
        "and 50% another score, on a memory or file database; a Feature fetched BEFORE (25% through a second handle on the "
        "file opened before the replace) or a fetched Feature whose start/end the caller assigns (25%, database untouched); "
        "bed12 by id, by a fresh copy, by id through the older handle are judged, the call with the stale object is counted")
NEST = "bed12 overlapping blocks: "
REQUIRED = ["len(feature) checked", "sequence() by other spellings of the path compared", "sequence() by path compared", "sequence() by pyfaidx.Fasta object compared",
            "sequence() minus strand reverse-complemented", "sequence() minus strand with use_strand=False",
            "sequence(): features from a database", "bed12 calls by id", "bed12 calls by Feature", "bed12 lines compared",
            "bed12 thickStart/thickEnd judged", "bed12 ValueError expected and raised", "bed12 single-block exports",
            "to_bed12 lines compared (fields 1-3, 10-12)", "bed12 name field absent -> '.'",
            "sequence(path) compared after the file was rewritten", "rewrites: index file removed",
            "rewrites: index file of the previous version kept", "rewrites by replacing the file",
            "rewrites by writing into the same file", "rewrites that change a sequence length", "rewrites that change bases only",
            "sequence(Fasta with naming options) compared", "sequence(Fasta keyfn_last) compared",
            "sequence(Fasta split_first) compared", "sequence(Fasta long) compared", "sequence(Fasta long_keyfn) compared",
            "sequence(Fasta short) compared",
            "bed12 deep: lines for a gene compared (candidates are level-2 children)",
            "bed12 deep: lines with >= 2 level-2 blocks compared", "bed12 deep: thick range from level-2 features judged",
            "bed12 deep: block/thick features attached through an intermediate feature",
            "bed12 deep: ValueError expected and raised",
            "twin files: pairs with equal base name and byte size written", "twin files: sequence(path) compared",
            "twin files: calls on one file after the other file was read", "twin files: records in another order",
            "twin files: bases changed only", "twin files: bases moved between records",
            "twin files: first call with no index file next to either file",
            "bed12 substring names: lines compared", "bed12 substring names: block featuretype given as str",
            "bed12 substring names: block featuretype given as list", "bed12 substring names: thick featuretype given as str",
            "bed12 substring names: thick featuretype given as list",
            "bed12 substring names: thick types equal to the block types judged",
            "bed12 substring names: thick types contained in the block types judged",
            "bed12 substring names: thick types disjoint from the block types judged",
            "bed12 substring names: thick types overlapping with the block types judged",
            "bed12 substring names: blocks judged while a child of a containing/contained type name is present",
            "bed12 substring names: thick range judged while a child of a containing/contained type name is present",
            "bed12 substring names: str block name contained in / containing the str or listed thick name",
            "bed12 substring names: ValueError expected and raised",
            "bed12 duplicated records: lines with byte-identical block records compared",
            "bed12 duplicated records: lines with equal-coordinate blocks under distinct IDs compared",
            "bed12 duplicated records: lines compared, fmt=gff3", "bed12 duplicated records: lines compared, fmt=gtf",
            "bed12 duplicated records: thick range judged with a duplicated thick record",
            "bed12 duplicated records: to_bed12 lines compared",
            "bed12 reach: thickStart judged for a thick feature starting before the transcript",
            "bed12 reach: thickEnd judged for a thick feature ending after the transcript",
            "bed12 reach: lines compared, fmt=gff3", "bed12 reach: lines compared, fmt=gtf",
            "bed12 reach: thin features reaching past the transcript (thickStart/thickEnd not judged, other fields judged)",
            "sequence(): features on a record whose name equals another record's up to letter case",
            "sequence(): features on a record whose name equals another record's up to letter case, minus strand",
            "sequence(): features on a record whose name equals another record's up to letter case, plus / unstranded strand",
            "sequence(): features on a record whose name equals another record's up to letter case, features from a database",
            "sequence(): features on a record whose name equals another record's up to letter case, features from a parsed line",
            "sequence(): features on a record whose name equals another record's up to letter case, features from Feature(...)",
            "sequence(): features on a record whose name equals another record's up to letter case, the twin holding other bases at start..end",
            "sequence(): features on a record whose name equals another record's up to letter case, a twin coming later in the file",
            "sequence(): features on a record whose name equals another record's up to letter case, a twin coming earlier in the file",
            "sequence(): features on a record whose name equals another record's up to normalisation form",
            "sequence(): features on a record whose name equals another record's up to normalisation form, minus strand",
            "sequence(): features on a record whose name equals another record's up to normalisation form, plus / unstranded strand",
            "sequence(): features on a record whose name equals another record's up to normalisation form, features from a database",
            "sequence(): features on a record whose name equals another record's up to normalisation form, features from a parsed line",
            "sequence(): features on a record whose name equals another record's up to normalisation form, features from Feature(...)",
            "sequence(): features on a record whose name equals another record's up to normalisation form, the twin holding other bases at start..end",
            "sequence(): features on a record whose name equals another record's up to normalisation form, a twin coming later in the file",
            "sequence(): features on a record whose name equals another record's up to normalisation form, a twin coming earlier in the file",
            "bed12 look-alike types: lines compared",
            "bed12 look-alike types: calls by id",
            "bed12 look-alike types: calls by Feature",
            "bed12 look-alike types: blocks judged while a child differing from a block type by letter case only is present",
            "bed12 look-alike types: blocks judged while a child differing from a block type by wildcard only is present",
            "bed12 look-alike types: blocks judged while a child differing from a block type by letter case and wildcard only is present",
            "bed12 look-alike types: thick range judged while a child differing from a thick type by letter case only is present",
            "bed12 look-alike types: thick range judged while a child differing from a thick type by wildcard only is present",
            "bed12 look-alike types: thick range judged while a look-alike child lies outside it",
            "bed12 look-alike types: block featuretype given as str (look-alike child present)",
            "bed12 look-alike types: block featuretype given as list (look-alike child present)",
            "bed12 look-alike types: thick featuretype given as str (look-alike child present)",
            "bed12 look-alike types: thick featuretype given as list (look-alike child present)",
            "bed12 look-alike types: ValueError expected and raised",
            "bed12 look-alike types: ValueError expected and raised while only a look-alike child reaches the transcript boundary",
            "bed12 look-alike types: single-block exports while only look-alike children exist",
            "bed12 look-alike types: to_bed12 lines compared",
            "bed12 other-seqid children: lines compared with a block feature on another seqid (one block per block feature)",
            "bed12 other-seqid children: first block on another seqid", "bed12 other-seqid children: last block on another seqid",
            "bed12 other-seqid children: inner block on another seqid", "bed12 other-seqid children: every block on another seqid",
            "bed12 other-seqid children: thick range judged whose first / last thick feature is on another seqid",
            "bed12 other-seqid children: ValueError expected and raised with a block feature on another seqid",
            "bed12 other-seqid children: ValueError expected and raised while the blocks on the transcript's own seqid alone would span it",
            "bed12 other-seqid children: to_bed12 lines compared",
            NEST + "calls by id judged", NEST + "calls by Feature judged", NEST + "calls judged, fmt=gff3",
            NEST + "calls judged, fmt=gtf", NEST + "ValueError expected and raised",
            NEST + "ValueError expected and raised while an earlier block reaches the transcript end and the last "
                   "block in ascending order ends before it",
            NEST + "lines compared (one block per block feature, last block ending at chromEnd)",
            NEST + "lines compared with a block lying inside an earlier one",
            NEST + "lines compared with blocks of two featuretypes",
            "bed12 stale objects: records replaced with other coordinates through update(merge_strategy='replace')",
            "bed12 stale objects: objects fetched through a handle opened before the replace",
            "bed12 stale objects: objects edited by the caller (start/end assigned)",
            "bed12 stale objects: bed12 given the id judged against the record as it is now",
            "bed12 stale objects: bed12 given a fresh copy of the record judged against the record as it is now",
            "bed12 stale objects: bed12 given the id, asked of the handle opened before the replace judged against the record as it is now",
            "bed12 stale objects: ValueError expected from the record as it is now",
            "bed12 stale objects: bed12 given the stale / edited object (not judged)",
            "bed12 stale objects: bed12 given the id judged again after the call with the stale object"]

REQUIRED_CLASSES = ["bed12 substring names layout=flat", "bed12 substring names layout=nested", "seqtwin order",
                    "seqtwin bases", "seqtwin move", "bed12 deep target=gene", "bed12 deep target=transcript via intermediate", "bed12 deep fmt=gtf",
                    "bed12 duplicated records fmt=gff3", "bed12 duplicated records fmt=gtf",
                    "bed12 thick/thin past the transcript fmt=gff3", "bed12 thick/thin past the transcript fmt=gtf",
                    "bed12 dup: identical", "bed12 dup: distinct", "bed12 reach: CDS start", "bed12 reach: CDS end",
                    "bed12 reach: UTR start", "bed12 reach: UTR end",
                    "seq look-alike record names origin=line", "seq look-alike record names origin=ctor",
                    "seq look-alike record names origin=db", "bed12 look-alike types",
                    "bed12 look-alike types: spanning", "bed12 look-alike types: look-alike at the boundary",
                    "bed12 children on another seqid", "bed12 other seqid: first block", "bed12 other seqid: last block",
                    "bed12 other seqid: thick first", "bed12 other seqid: beyond", "bed12 other seqid: all",
                    "bed12 overlapping blocks fmt=gff3", "bed12 overlapping blocks fmt=gtf"]
REQUIRED_CLASSES += ["bed12 overlapping blocks: " + x for x in (
    "enclosing first block", "earlier block reaches the end", "chain overlapping, last reaches the end",
    "block inside an earlier one, last reaches the end", "CDS among the blocks, last CDS ends inside the last exon",
    "CDS among the blocks, last CDS ends with the last exon")]
REQUIRED_CLASSES += ["bed12 stale object: replace", "bed12 stale object: older_handle", "bed12 stale object: edited",
                    "seqobj as_raw=True", "seqobj as_raw=False", "single block by id", "bed12 fmt=gff3", "bed12 fmt=gtf", "blocks=0", "blocks=1", "blocks>=2", "non-spanning", "strand -", "strand +"]
ASSUMPTIONS = [
    "'ascending order' = by start; children selected as blocks or thick features share a start only when they also share "
    "the end (duplicated records: interchangeable in every field, 'one block per block feature' gives each its own "
    "entry); otherwise they never share a start (tie order is not stated) and are disjoint or abutting - except in the "
    "'overlapping blocks' class, where block features overlap or lie inside one another with all starts distinct: the "
    "statement's 'one block per block feature in ascending order ... last block ending at chromEnd' then names one order "
    "and one last block; when that last block (greatest start) ends before the transcript end no line can satisfy the "
    "statement, so ValueError is expected even though an earlier block reaches the end; convert.to_bed12 is not asked there",
    "thick features may lie outside the transcript (a CDS / UTR record reaching past its start or end): thickStart = "
    "start-1 of the first, thickEnd = end of the last thick feature as stated, whatever the transcript's extent; a stop "
    "codon selected together with the CDS ends where the CDS ends",
    "thickStart/thickEnd are judged only when at least one thick feature exists (statement: 'when present'); with the "
    "thin_featuretype choice or no thick child the two fields are not judged; calls giving neither thick nor thin "
    "featuretype are not generated (the real code raises UnboundLocalError there)",
    "name: first value of the name attribute or '.', score '.' -> '0', colour = the given one (blanks optional) or 0,0,0; "
    "blockSizes/blockStarts may carry a trailing comma",
    "convert.to_bed12 is judged on fields 1-3 and 10-12 only, and only for transcripts with >= 1 block child whose "
    "blocks span the transcript",
    "GTF transcripts are the inferred ones (extent = span of the exons, all other children inside that span)",
    "deep: only levels the database records (1 and 2) are used: a gene's exons/CDS below its only transcript, or parts one "
    "intermediate feature below the transcript; level-3 descendants are not generated; to_bed12 is not asked there",
    "seqrw: an index file left behind is older than the rewritten FASTA file (its mtime is set one hour back, as if time "
    "had passed), which is what makes pyfaidx itself rebuild it",
    "seqobj: feature.seqid is one of the keys the reader offers; readers opened with as_raw=True hand out plain str: a "
    "call that raises AttributeError on such a reader is counted and not judged (the statement does not name raw "
    "readers); a value that is returned is judged",
    "sub: like everywhere, a selection (block or thick) in which two children share a start or overlap is not asked; "
    "'the features of the named type(s)' = children whose featuretype is one of the given names as a whole (a str "
    "argument names one type)",
    "seqtwin: both files are complete before the first call and are not touched afterwards; index files pyfaidx writes "
    "next to them are left where they are between the calls",
    "'the named sequence' = the record whose name EQUALS feature.seqid (code point by code point); records whose names differ "
    "in letter case or normalisation form are other sequences; such names are generated only in forms pyfaidx accepts as "
    "distinct keys; 'block / thick features' of a call = children whose featuretype EQUALS one of the given names",
    "alt: the statement's blocks / thick features are the transcript's block / thick features whatever seqid their own "
    "record carries (its quantifier does not confine children to the transcript's seqid): one block per block feature, "
    "ValueError when they do not span the feature; only GFF3 (the transcript record is explicit there; which seqid an "
    "inferred GTF transcript gets from exons on two seqids is not stated); records sharing one ID across seqids are not generated",
    "stale: the statement describes bed12 of a transcript 'given an id or a Feature' and does not say what it is a function "
    "of when the Feature object given disagrees with the database record (fetched before a replace, edited by the "
    "caller): that call is made, counted by the reading its result agrees with (record re-fetched by id / the object's own "
    "coordinates) and NOT judged; judged are bed12 by id (on every open handle of the file) and by a fresh copy after "
    "the replace - the record committed by update() is the transcript - and by id again after the call with the stale object",
    "sequence(): features lie inside the named sequence; alphabet ACGTN plus the IUPAC ambiguity codes, both cases; complement = the standard IUPAC table",
]
QUICK_SHARDS = 4
THOROUGH_SHARDS = 16


def setup(ctx):
    pass


def execute(ctx, case):
    return {"seq": run_seq, "bed12": run_bed12, "seqrw": run_seqrw, "seqobj": run_seqobj,
            "seqtwin": run_seqtwin, "stale": run_stale}[case["kind"]](ctx, case)


# ---------------------------------------------------------------------------------
# seq
# ---------------------------------------------------------------------------------
def other_spellings(path, seqs):
    root = path + ".d"
    shutil.rmtree(root, ignore_errors=True)
    os.makedirs(os.path.join(root, "store", "deep"))
    os.makedirs(os.path.join(root, "proj"))
    shutil.copyfile(path, os.path.join(root, "store", "ref.fa"))
    # decoy: same record names, other bases (each record reversed)
    with open(os.path.join(root, "proj", "ref.fa"), "w", newline="") as fh:
        fh.write(M.fasta_text([(name, desc, seq[::-1], width) for name, desc, seq, width in seqs]))
    os.symlink(os.path.join(root, "store", "deep"), os.path.join(root, "proj", "link"))
    os.symlink(os.path.join(root, "store", "ref.fa"), os.path.join(root, "proj", "reference_link.fa"))
    return {"root": root, "dotdot": os.path.join(root, "proj", "link", "..", "ref.fa"),
            "filelink": os.path.join(root, "proj", "reference_link.fa")}


def run_seq(ctx, case):
    import gffutils
    import pyfaidx
    from gffutils.feature import Feature, feature_from_line

    seqs = case["genome"]
    ref = {name: seq for name, _, seq, _ in seqs}
    path = ctx.tmp(".fa")
    with open(path, "w", newline="") as fh:
        fh.write(M.fasta_text(seqs))
    fa = None
    db = None
    try:
        lines = ["%s\tsrc\tregion\t%d\t%d\t.\t%s\t.\tID=r%d" % (sl[0], sl[1], sl[2], sl[3], i)
                 for i, sl in enumerate(case["slices"])]
        feats = []
        try:
            if case["origin"] == "db":
                db = gffutils.create_db("\n".join(lines), ":memory:", from_string=True)
                feats = [db["r%d" % i] for i in range(len(lines))]
                ctx.mon("sequence(): features from a database", len(feats))
            elif case["origin"] == "line":
                feats = [feature_from_line(l) for l in lines]
            else:
                feats = [Feature(seqid=sl[0], start=sl[1], end=sl[2], strand=sl[3]) for sl in case["slices"]]
            fa = pyfaidx.Fasta(path)
        except Exception as ex:
            ctx.violation(case, {"why": "preparing features raised %s" % type(ex).__name__, "exception": repr(ex)})
            return
        for i, (sl, f) in enumerate(zip(case["slices"], feats)):
            name, s, e, strand = sl
            try:
                n = len(f)
                got = {
                    "path": f.sequence(path),
                    "path,use_strand=False": f.sequence(path, use_strand=False),
                    "Fasta": f.sequence(fa),
                    "Fasta,use_strand=False": f.sequence(fa, use_strand=False),
                }
                if i == 0:
                    # other spellings of a path to the same bases: relative to the working directory, through a symlink to
                    # the file, and through a symlinked directory followed by '..' (the operating system resolves the
                    # link first; a decoy with other bases sits where a lexical collapse of '..' would point)
                    spell = other_spellings(path, seqs)
                    cwd = os.getcwd()
                    try:
                        os.chdir(os.path.join(spell["root"], "store"))
                        got["path relative to cwd"] = f.sequence("ref.fa")
                        os.chdir(cwd)
                        got["path to a symlink"] = f.sequence(spell["filelink"])
                        got["path through symlinked dir and .."] = f.sequence(spell["dotdot"])
                        ctx.mon("sequence() by other spellings of the path compared", 3)
                    finally:
                        os.chdir(cwd)
                        shutil.rmtree(spell["root"], ignore_errors=True)
            except Exception as ex:
                ctx.violation(case, {"why": "len()/sequence() raised %s" % type(ex).__name__, "exception": repr(ex), "slice": sl})
                return
            ctx.mon("len(feature) checked")
            if case.get("twins"):
                twin_counters(ctx, case, seqs, sl)
            if n != e - s + 1:
                ctx.violation(case, {"why": "len(feature) != end-start+1", "slice": sl, "len": n})
                return
            for how, text in got.items():
                use_strand = "use_strand=False" not in how
                want = M.expected_sequence(ref[name], s, e, strand, use_strand)
                ctx.mon("sequence() by path compared" if how.startswith("path") else "sequence() by pyfaidx.Fasta object compared")
                if strand == "-":
                    ctx.mon("sequence() minus strand reverse-complemented" if use_strand
                            else "sequence() minus strand with use_strand=False")
                if not isinstance(text, str) or text != want:
                    ctx.violation(case, {"why": "sequence(%s) differs from bases start..end of the reference%s" % (
                        "fasta" + how[how.index(","):] if "," in how else "fasta",
                        " (reverse complement expected)" if strand == "-" and use_strand else ""),
                        "fasta given as": how.split(",")[0], "slice": sl, "got": repr(text)[:300], "expected": want[:300],
                        "len(feature)": n})
                    return
                if len(text) != n:
                    ctx.violation(case, {"why": "len(sequence) != len(feature)", "slice": sl})
                    return
    finally:
        try:
            if fa is not None:
                fa.close()
        except Exception:
            pass
        if db is not None:
            db.conn.close()
        for p in (path, path + ".fai"):
            if os.path.exists(p):
                os.unlink(p)


def twin_counters(ctx, case, seqs, sl):
    """What a slice on a reference with look-alike record names exercised (the oracle is run_seq's: ref[name])."""
    name, s, e, strand = sl
    names = [r[0] for r in seqs]
    own = dict((r[0], r[2]) for r in seqs)[name]
    for rel in ("letter case", "normalisation form"):
        twins = [r for r in seqs if M.name_relation(name, r[0]) == rel]
        if not twins:
            continue
        pre = "sequence(): features on a record whose name equals another record's up to %s" % rel
        ctx.mon(pre)
        ctx.mon(pre + ", %s strand" % ("minus" if strand == "-" else "plus / unstranded"))
        ctx.mon(pre + ", features from %s" % {"db": "a database", "line": "a parsed line", "ctor": "Feature(...)"}[case["origin"]])
        if any(r[2][s - 1:e] != own[s - 1:e] for r in twins):
            ctx.mon(pre + ", the twin holding other bases at start..end")
        if any(names.index(r[0]) > names.index(name) for r in twins):
            ctx.mon(pre + ", a twin coming later in the file")
        if any(names.index(r[0]) < names.index(name) for r in twins):
            ctx.mon(pre + ", a twin coming earlier in the file")


# ---------------------------------------------------------------------------------
# seqrw: the same path string, the file rewritten between calls
# ---------------------------------------------------------------------------------
def make_features(case_origin, slices):
    from gffutils.feature import Feature, feature_from_line

    if case_origin == "line":
        return [feature_from_line("%s\tsrc\tregion\t%d\t%d\t.\t%s\t.\tID=r%d" % (sl[0], sl[-3], sl[-2], sl[-1], i))
                for i, sl in enumerate(slices)]
    return [Feature(seqid=sl[0], start=sl[-3], end=sl[-2], strand=sl[-1]) for sl in slices]


def run_seqrw(ctx, case):
    import time

    path = ctx.tmp(".fa")
    fai = path + ".fai"
    prev = None
    try:
        for r, rd in enumerate(case["rounds"]):
            ref = {name: seq for name, _, seq, _ in rd["genome"]}
            text = M.fasta_text(rd["genome"])
            if r:
                if rd["fai"] == "remove" or not os.path.exists(fai):
                    if os.path.exists(fai):
                        os.unlink(fai)
                    ctx.mon("rewrites: index file removed")
                else:
                    # the index file stays; it is (as it would be after some seconds) older than the new FASTA file
                    old = time.time() - 3600
                    os.utime(fai, (old, old))
                    ctx.mon("rewrites: index file of the previous version kept")
                if rd["write"] == "replace":
                    with open(path + ".new", "w", newline="") as fh:
                        fh.write(text)
                    os.replace(path + ".new", path)
                    ctx.mon("rewrites by replacing the file")
                else:
                    with open(path, "w", newline="") as fh:
                        fh.write(text)
                    ctx.mon("rewrites by writing into the same file")
                if any(len(ref[n]) != len(prev[n]) for n in ref):
                    ctx.mon("rewrites that change a sequence length")
                elif ref != prev:
                    ctx.mon("rewrites that change bases only")
                else:
                    ctx.mon("rewrites with identical content")
            else:
                with open(path, "w", newline="") as fh:
                    fh.write(text)
            try:
                feats = make_features(case["origin"], rd["slices"])
            except Exception as ex:
                ctx.violation(case, {"why": "preparing features raised %s" % type(ex).__name__, "exception": repr(ex)})
                return
            for sl, f in zip(rd["slices"], feats):
                name, s, e, strand = sl
                for use_strand in (True, False):
                    want = M.expected_sequence(ref[name], s, e, strand, use_strand)
                    try:
                        got = f.sequence(path) if use_strand else f.sequence(path, use_strand=False)
                    except Exception as ex:
                        ctx.violation(case, {"why": "sequence(path) raised %s %s" % (
                            type(ex).__name__, "after the file was rewritten" if r else "on the first version of the file"),
                            "exception": repr(ex), "slice": sl, "version": r})
                        return
                    ctx.mon("sequence(path) compared after the file was rewritten" if r else "sequence(path) compared on the first version")
                    if got != want:
                        stale = prev is not None and name in prev and got == M.expected_sequence(prev[name], s, e, strand, use_strand)
                        ctx.violation(case, {"why": "sequence(path) differs from bases start..end of the file as it is at the time of the call"
                                                    + (" (file rewritten since an earlier call with the same path)" if r else ""),
                                             "slice": sl, "version": r, "use_strand": use_strand, "got": repr(got)[:300],
                                             "expected": want[:300], "equals the previous version's bases": bool(stale),
                                             "index file": rd["fai"] if r else None, "rewritten by": rd["write"] if r else None})
                        return
            prev = ref
    finally:
        for p in (path, fai, path + ".new"):
            if os.path.exists(p):
                os.unlink(p)


# ---------------------------------------------------------------------------------
# seqtwin: two files, same base name, same size, different directories, both given as path strings
# ---------------------------------------------------------------------------------
def run_seqtwin(ctx, case):
    import shutil

    genomes = (case["a"], case["b"])
    refs = [{name: seq for name, _, seq, _ in g} for g in genomes]
    dirs = [ctx.tmp(".d%d" % i) for i in range(2)]
    paths = [os.path.join(d, case["basename"]) for d in dirs]
    try:
        for d, p, g in zip(dirs, paths, genomes):
            os.mkdir(d)
            with open(p, "w", newline="") as fh:
                fh.write(M.fasta_text(g))
        if os.path.getsize(paths[0]) != os.path.getsize(paths[1]) or refs[0] == refs[1] and case["how"] != "order":
            raise AssertionError("harness: twin files differ in size or not in content")
        ctx.mon("twin files: pairs with equal base name and byte size written")
        ctx.mon({"order": "twin files: records in another order", "bases": "twin files: bases changed only",
                 "move": "twin files: bases moved between records"}[case["how"]])
        if not any(os.path.exists(p + ".fai") for p in paths):
            ctx.mon("twin files: first call with no index file next to either file")
        try:
            feats = make_features(case["origin"], [c[1:] for c in case["calls"]])
        except Exception as ex:
            ctx.violation(case, {"why": "preparing features raised %s" % type(ex).__name__, "exception": repr(ex)})
            return
        seen = set()
        for n, (c, f) in enumerate(zip(case["calls"], feats)):
            which, name, s, e, strand = c
            for use_strand in (True, False):
                want = M.expected_sequence(refs[which][name], s, e, strand, use_strand)
                try:
                    got = f.sequence(paths[which]) if use_strand else f.sequence(paths[which], use_strand=False)
                except Exception as ex:
                    ctx.violation(case, {"why": "sequence(path) raised %s (two files with the same base name and size in different "
                                                "directories)" % type(ex).__name__, "exception": repr(ex), "call": n, "slice": c,
                                         "twin differs by": case["how"]})
                    return
                ctx.mon("twin files: sequence(path) compared")
                if (1 - which) in seen:
                    ctx.mon("twin files: calls on one file after the other file was read")
                if got != want:
                    other = refs[1 - which].get(name, "")
                    ctx.violation(case, {"why": "sequence(path) differs from bases start..end of the file it names (another file with "
                                                "the same base name and size in another directory was written / read in this process)",
                                         "call": n, "slice": c, "use_strand": use_strand, "got": repr(got)[:300], "expected": want[:300],
                                         "equals the other file's bases": got == M.expected_sequence(other, s, e, strand, use_strand),
                                         "twin differs by": case["how"], "other file read before": (1 - which) in seen})
                    return
            seen.add(which)
    finally:
        for d in dirs:
            shutil.rmtree(d, ignore_errors=True)


# ---------------------------------------------------------------------------------
# seqobj: pyfaidx.Fasta objects opened with non-default naming options
# ---------------------------------------------------------------------------------
def reader_options(mode):
    return {
        "keyfn_last": dict(key_function=lambda k: k.split("|")[-1]),
        "split_first": dict(split_char="|", duplicate_action="first"),
        "long": dict(read_long_names=True),
        "long_keyfn": dict(read_long_names=True, key_function=lambda k: k.split(" ")[0].split("|")[-1]),
        "short": dict(),
    }[mode]


def run_seqobj(ctx, case):
    import pyfaidx

    seqs = case["genome"]
    path = ctx.tmp(".fa")
    with open(path, "w", newline="") as fh:
        fh.write(M.fasta_text(seqs))
    fa = None
    try:
        try:
            fa = pyfaidx.Fasta(path, as_raw=bool(case["as_raw"]), **reader_options(case["mode"]))
            feats = make_features(case["origin"], case["slices"])
        except Exception as ex:
            ctx.violation(case, {"why": "preparing reader/features raised %s" % type(ex).__name__, "exception": repr(ex)})
            return
        for sl, f in zip(case["slices"], feats):
            key, idx, s, e, strand = sl
            # the record the object itself resolves for feature.seqid (pyfaidx is the trusted reader)
            rec = fa[f.seqid]
            whole = rec[0:len(rec)]
            whole = whole if isinstance(whole, str) else whole.seq
            if whole != seqs[idx][2]:
                raise AssertionError("harness: reader in mode %s resolves %r to another record than the naming model" % (case["mode"], key))
            ctx.mon("sequence(Fasta object): records resolved by the object itself")
            for use_strand in (True, False):
                want = M.expected_sequence(whole, s, e, strand, use_strand)
                try:
                    got = f.sequence(fa) if use_strand else f.sequence(fa, use_strand=False)
                except Exception as ex:
                    if case["as_raw"] and isinstance(ex, AttributeError):
                        # a raw reader hands out plain str; the statement does not say such readers are supported
                        ctx.skip("sequence(Fasta(as_raw=True)) raised AttributeError (raw readers: not judged)")
                        ctx.mon("sequence(Fasta as_raw=True) calls that raised AttributeError (not judged)")
                        continue
                    ctx.violation(case, {"why": "sequence(Fasta opened with naming options) raised %s" % type(ex).__name__,
                                         "exception": repr(ex), "slice": sl, "mode": case["mode"], "as_raw": case["as_raw"]})
                    return
                ctx.mon("sequence(Fasta with naming options) compared")
                ctx.mon("sequence(Fasta %s%s) compared" % (case["mode"], ", as_raw" if case["as_raw"] else ""))
                if got != want:
                    ctx.violation(case, {"why": "sequence(Fasta opened with naming options) differs from bases start..end of the record "
                                                "the object resolves for feature.seqid", "slice": sl, "mode": case["mode"],
                                         "as_raw": case["as_raw"], "use_strand": use_strand, "got": repr(got)[:300], "expected": want[:300]})
                    return
    finally:
        try:
            if fa is not None:
                fa.close()
        except Exception:
            pass
        for p in (path, path + ".fai"):
            if os.path.exists(p):
                os.unlink(p)


# ---------------------------------------------------------------------------------
# bed12
# ---------------------------------------------------------------------------------
def gff3_attrs(attrs):
    return ";".join("%s=%s" % (k, ",".join(v)) for k, v in attrs)


def gtf_attrs(attrs):
    return " ".join('%s "%s";' % (k, v[0]) for k, v in attrs)


def annotation_text(case):
    ts = case["transcripts"]
    lines = []
    via = (case.get("deep") or {}).get("via") or []
    if case["fmt"] == "gff3":
        genes = {}
        for t in ts:
            gid = dict((k, v) for k, v in t["attrs"])["Parent"][0]
            g = genes.setdefault(gid, [t["seqid"], t["start"], t["end"], t["strand"]])
            g[1] = min(g[1], t["start"])
            g[2] = max(g[2], t["end"])
        for gid, (seqid, s, e, strand) in genes.items():
            lines.append("%s\tsrc\tgene\t%d\t%d\t.\t%s\t.\tID=%s" % (seqid, s, e, strand, gid))
        for t in ts:
            lines.append("%s\tsrc\t%s\t%d\t%d\t%s\t%s\t.\t%s" % (t["seqid"], t["type"], t["start"], t["end"], t["score"],
                                                                t["strand"], gff3_attrs(t["attrs"])))
            hung = [c for c in t["children"] if c["type"] in via]
            if hung:
                # intermediate feature between the transcript and some of its parts
                lines.append("%s\tsrc\tprotein\t%d\t%d\t.\t%s\t.\tID=%s.p;Parent=%s" % (
                    t["seqid"], min(c["start"] for c in hung), max(c["end"] for c in hung), t["strand"], t["id"], t["id"]))
            for n, c in enumerate(t["children"]):
                if "id" in c:
                    # duplicated records: no ID of their own (byte-identical lines) or one ID per copy
                    extra = ";ID=%s" % c["id"] if c["id"] else ""
                else:
                    extra = ";ID=%s.c%d" % (t["id"], n) if n % 3 == 0 else ""
                lines.append("%s\tsrc\t%s\t%d\t%d\t.\t%s\t%s\tParent=%s%s" % (
                    c.get("seqid") or t["seqid"], c["type"], c["start"], c["end"], t["strand"], "0" if c["type"] == "CDS" else ".",
                    t["id"] + ".p" if c["type"] in via else t["id"], extra))
    else:
        for t in ts:
            for c in t["children"]:
                lines.append("%s\tsrc\t%s\t%d\t%d\t.\t%s\t%s\t%s" % (
                    t["seqid"], c["type"], c["start"], c["end"], t["strand"], "0" if c["type"] == "CDS" else ".",
                    gtf_attrs([[k, v] for k, v in reversed(t["attrs"])]) + (' exon_id "%s";' % c["id"] if c.get("id") else "")))
    if case.get("shuffle_seed") is not None:
        random.Random(case["shuffle_seed"]).shuffle(lines)
    return "\n".join(lines) + "\n"


def model_transcript(t, fmt):
    if fmt == "gff3":
        return t
    exons = [c for c in t["children"] if c["type"] == "exon"]
    return dict(t, start=min(c["start"] for c in exons), end=max(c["end"] for c in exons), score=".")


def target_model(case, c):
    """The feature bed12 is asked for in call c (with its block/thick candidates as "children"): the transcript, or -
    deep target 'gene' - the single-isoform gene above it, whose candidates are the transcript's parts (level 2)."""
    t = model_transcript(case["transcripts"][c["t"]], case["fmt"])
    if (case.get("deep") or {}).get("target") != "gene":
        return t
    attrs = dict((k, v) for k, v in t["attrs"])
    if case["fmt"] == "gff3":
        gid = attrs["Parent"][0]
        gattrs = [["ID", [gid]]]
    else:
        gid = attrs["gene_id"][0]
        gattrs = [["gene_id", [gid]]]
    return {"id": gid, "seqid": t["seqid"], "start": t["start"], "end": t["end"], "strand": t["strand"], "score": ".",
            "type": "gene", "attrs": gattrs, "children": t["children"], "shape": t.get("shape")}


SINGLE_BY_ID = "bed12 given an id raised %s for a transcript without block children (single-block export expected)"


def run_bed12(ctx, case):
    import gffutils

    text = annotation_text(case)
    try:
        db = gffutils.create_db(text, ":memory:", from_string=True)
    except Exception as ex:
        ctx.violation(case, {"why": "create_db raised %s" % type(ex).__name__, "exception": repr(ex), "text": text})
        return
    found = []
    try:
        for ci, c in enumerate(case["calls"]):
            r = one_call(ctx, case, db, ci, c)
            if r:
                found.append(r)
    finally:
        db.conn.close()
    if found:
        # one report per case; a reason other than the id/single-block one goes first
        found.sort(key=lambda d: d["why"].startswith("bed12 given an id raised") and "single-block" in d["why"])
        first = dict(found[0])
        if len(found) > 1:
            first["also"] = [{"call": d["call"], "why": d["why"]} for d in found[1:8]]
        first["text"] = text
        ctx.violation(case, first)


def one_call(ctx, case, db, ci, c):
    """Runs one bed12 call (+ to_bed12); returns a violation detail or None."""
    from gffutils import constants, convert

    fmt = case["fmt"]
    t = target_model(case, c)
    deep = case.get("deep") or {}
    opts = {"block": c["block"], "thick": c["thick"], "thin": c["thin"], "name_field": c["name_field"], "color": c["color"]}
    exp = M.bed12_expect(t, t["children"], opts)
    info = {"call": ci, "transcript": t["id"], "given as": c["as"], "options": opts}
    try:
        feat = db[t["id"]]
    except Exception as ex:
        return dict(info, why="looking the transcript up raised %s" % type(ex).__name__, exception=repr(ex))
    # the stored feature must agree with the file (otherwise the model would judge another transcript)
    if (feat.start, feat.end, feat.strand, feat.seqid, feat.score) != (t["start"], t["end"], t["strand"], t["seqid"], t["score"]):
        raise AssertionError("harness: stored transcript %r differs from the generated one: %s" % (t["id"], feat))
    arg = t["id"] if c["as"] == "id" else feat
    ctx.mon("bed12 calls by id" if c["as"] == "id" else "bed12 calls by Feature")
    line, raised = None, None
    try:
        line = db.bed12(arg, block_featuretype=c["block"], thick_featuretype=c["thick"], thin_featuretype=c["thin"],
                        name_field=c["name_field"], color=c["color"])
    except Exception as ex:
        raised = ex
    finally:
        changed = constants.always_return_list is not True
        constants.always_return_list = True
    if changed:
        return dict(info, why="bed12 left always_return_list changed")
    if "raises" in exp:
        if raised is None:
            return dict(info, why="blocks do not span the feature but bed12 returned a line instead of raising ValueError", got=line)
        if not isinstance(raised, ValueError):
            return dict(info, why="blocks do not span the feature: %s raised instead of ValueError" % type(raised).__name__,
                        exception=repr(raised))
        ctx.mon("bed12 ValueError expected and raised")
        if case.get("look"):
            ctx.mon("bed12 look-alike types: ValueError expected and raised")
            both = M.select(t["children"], c["block"]) + M.lookalikes(t["children"], c["block"])
            if both and min(x["start"] for x in both) == t["start"] and max(x["end"] for x in both) == t["end"]:
                ctx.mon("bed12 look-alike types: ValueError expected and raised while only a look-alike child reaches the "
                        "transcript boundary")
        if deep:
            ctx.mon("bed12 deep: ValueError expected and raised")
        if case.get("alt"):
            alt_counters(ctx, t, c, None)
        if case.get("sub"):
            ctx.mon("bed12 substring names: ValueError expected and raised")
        if case.get("nest"):
            nest_counters(ctx, fmt, t, c, exp)
        return None
    if raised is not None:
        if exp["single"] and c["as"] == "id":
            why = SINGLE_BY_ID % type(raised).__name__
        else:
            why = "bed12 given %s raised %s" % ("an id" if c["as"] == "id" else "a Feature", type(raised).__name__)
        return dict(info, why=why, exception=repr(raised))
    # the same call with constants.always_return_list switched off must give the same line (the switch only changes how
    # single-item lists are *viewed*; an export is not a view)
    if ci % 4 == 0:
        try:
            constants.always_return_list = False
            arg2 = t["id"] if c["as"] == "id" else db[t["id"]]
            line2 = db.bed12(arg2, block_featuretype=c["block"], thick_featuretype=c["thick"], thin_featuretype=c["thin"],
                             name_field=c["name_field"], color=c["color"])
        except Exception as ex:
            line2 = "raised %r" % (ex,)
        finally:
            restored = constants.always_return_list is False
            constants.always_return_list = True
        ctx.mon("bed12 calls repeated with always_return_list=False")
        if line2 != line:
            return dict(info, why="bed12 output depends on constants.always_return_list", with_switch_on=line, with_switch_off=line2)
        if not restored:
            return dict(info, why="bed12 left always_return_list changed (switch was off before the call)")
    why, detail = M.judge_bed12(line, exp)
    ctx.mon("bed12 lines compared")
    if deep:
        lvl2 = [x for x in t["children"] if deep["target"] == "gene" or x["type"] in deep["via"]]
        nb, nt = len(M.select(lvl2, c["block"])), len(M.select(lvl2, c["thick"]))
        if deep["target"] == "gene":
            ctx.mon("bed12 deep: lines for a gene compared (candidates are level-2 children)")
        if nb:
            ctx.mon("bed12 deep: lines with level-2 block features compared")
        if nb >= 2:
            ctx.mon("bed12 deep: lines with >= 2 level-2 blocks compared")
        if nt:
            ctx.mon("bed12 deep: thick range from level-2 features judged")
        if deep["via"] and (nb or nt):
            ctx.mon("bed12 deep: block/thick features attached through an intermediate feature")
    if case.get("sub"):
        pre = "bed12 substring names: "
        ctx.mon(pre + "lines compared")
        ctx.mon(pre + "block featuretype given as %s" % ("str" if isinstance(c["block"], str) else "list"))
        if M.name_relatives(t["children"], c["block"]):
            ctx.mon(pre + "blocks judged while a child of a containing/contained type name is present")
        if c["thick"] is not None:
            ctx.mon(pre + "thick featuretype given as %s" % ("str" if isinstance(c["thick"], str) else "list"))
            if exp["thick_present"]:
                ctx.mon(pre + "thick types %s the block types judged" % M.type_relation(c["block"], c["thick"]))
                if M.name_relatives(t["children"], c["thick"]):
                    ctx.mon(pre + "thick range judged while a child of a containing/contained type name is present")
            if isinstance(c["block"], str) and any(x != c["block"] and (x in c["block"] or c["block"] in x) for x in M._types(c["thick"])):
                ctx.mon(pre + "str block name contained in / containing the str or listed thick name")
    if case.get("look"):
        pre = "bed12 look-alike types: "
        ctx.mon(pre + "lines compared")
        ctx.mon(pre + "calls by %s" % ("id" if c["as"] == "id" else "Feature"))
        for rel in sorted(M.lookalike_relations(t["children"], c["block"])):
            ctx.mon(pre + "blocks judged while a child differing from a block type by %s only is present" % rel)
            ctx.mon(pre + "block featuretype given as %s (look-alike child present)" % ("str" if isinstance(c["block"], str) else "list"))
        if exp["thick_present"]:
            for rel in sorted(M.lookalike_relations(t["children"], c["thick"])):
                ctx.mon(pre + "thick range judged while a child differing from a thick type by %s only is present" % rel)
                ctx.mon(pre + "thick featuretype given as %s (look-alike child present)" % ("str" if isinstance(c["thick"], str) else "list"))
            looks = M.lookalikes(t["children"], c["thick"])
            sel = M.select(t["children"], c["thick"])
            if looks and (min(x["start"] for x in looks) < sel[0]["start"] or max(x["end"] for x in looks) > sel[-1]["end"]):
                ctx.mon(pre + "thick range judged while a look-alike child lies outside it")
        elif M.lookalikes(t["children"], c["thick"]):
            ctx.mon(pre + "no child of the thick type, look-alike children present (thickStart/thickEnd not judged)")
        if exp["single"] and M.lookalikes(t["children"], c["block"]):
            ctx.mon(pre + "single-block exports while only look-alike children exist")
    if exp["thick_present"]:
        ctx.mon("bed12 thickStart/thickEnd judged")
    if case.get("alt"):
        alt_counters(ctx, t, c, exp)
    if case.get("nest") and not why:
        nest_counters(ctx, fmt, t, c, exp)
    blocks_sel = M.select(t["children"], c["block"])
    thick_sel = M.select(t["children"], c["thick"])
    spans = bool(blocks_sel) and blocks_sel[0]["start"] == t["start"] and blocks_sel[-1]["end"] == t["end"]
    for kind in sorted(M.duplicate_kinds(blocks_sel)):
        ctx.mon("bed12 duplicated records: lines with %s compared"
                % ("byte-identical block records" if kind == "identical" else "equal-coordinate blocks under distinct IDs"))
        ctx.mon("bed12 duplicated records: lines compared, fmt=" + fmt)
    if M.duplicate_kinds(thick_sel):
        ctx.mon("bed12 duplicated records: thick range judged with a duplicated thick record")
    if thick_sel and spans:
        if thick_sel[0]["start"] < t["start"]:
            ctx.mon("bed12 reach: thickStart judged for a thick feature starting before the transcript")
        if thick_sel[-1]["end"] > t["end"]:
            ctx.mon("bed12 reach: thickEnd judged for a thick feature ending after the transcript")
        if thick_sel[0]["start"] < t["start"] or thick_sel[-1]["end"] > t["end"]:
            ctx.mon("bed12 reach: lines compared, fmt=" + fmt)
    if c["thin"] and spans:
        thin_sel = M.select(t["children"], c["thin"])
        if thin_sel and (thin_sel[0]["start"] < t["start"] or thin_sel[-1]["end"] > t["end"]):
            # the statement names the thick features only: fields 7 and 8 are not judged, the other ten are
            ctx.mon("bed12 reach: thin features reaching past the transcript (thickStart/thickEnd not judged, other fields judged)")
    if exp["single"]:
        ctx.mon("bed12 single-block exports")
    if exp["fields"][3] == ".":
        ctx.mon("bed12 name field absent -> '.'")
    if why:
        return dict(info, why="bed12: " + why, detail=detail, got=line)
    if c.get("to_bed12") and not exp["single"]:
        for given in ("id", "feature"):
            try:
                out = convert.to_bed12(t["id"] if given == "id" else db[t["id"]], db, child_type=c["block"],
                                       name_field=c["name_field"])
            except Exception as ex:
                return dict(info, why="convert.to_bed12 raised %s" % type(ex).__name__, exception=repr(ex))
            why, detail = M.judge_bed12(out, exp, only=(0, 1, 2, 9, 10, 11))
            ctx.mon("to_bed12 lines compared (fields 1-3, 10-12)")
            if M.duplicate_kinds(blocks_sel):
                ctx.mon("bed12 duplicated records: to_bed12 lines compared")
            if case.get("look") and M.lookalikes(t["children"], c["block"]):
                ctx.mon("bed12 look-alike types: to_bed12 lines compared")
            if case.get("alt") and any(x.get("seqid") for x in blocks_sel):
                ctx.mon("bed12 other-seqid children: to_bed12 lines compared")
            if why:
                return dict(info, why="convert.to_bed12: " + why, detail=detail, got=out)
    return None


def alt_counters(ctx, t, c, exp):
    """What a call saw of children recorded on another seqid than the transcript (exp None = ValueError expected and raised)."""
    pre = "bed12 other-seqid children: "
    blocks = M.select(t["children"], c["block"])
    thick = M.select(t["children"], c["thick"])
    ab = [i for i, x in enumerate(blocks) if x.get("seqid")]
    at = [i for i, x in enumerate(thick) if x.get("seqid")]
    if exp is None:
        if ab:
            ctx.mon(pre + "ValueError expected and raised with a block feature on another seqid")
            on = [x for x in blocks if not x.get("seqid")]
            if on and on[0]["start"] == t["start"] and on[-1]["end"] == t["end"]:
                ctx.mon(pre + "ValueError expected and raised while the blocks on the transcript's own seqid alone would span it")
        return
    if ab:
        ctx.mon(pre + "lines compared with a block feature on another seqid (one block per block feature)")
        if 0 in ab:
            ctx.mon(pre + "first block on another seqid")
        if len(blocks) - 1 in ab:
            ctx.mon(pre + "last block on another seqid")
        if any(0 < i < len(blocks) - 1 for i in ab):
            ctx.mon(pre + "inner block on another seqid")
        if len(ab) == len(blocks):
            ctx.mon(pre + "every block on another seqid")
    if at and exp["thick_present"]:
        ctx.mon(pre + "thick range judged with a thick feature on another seqid")
        if 0 in at or len(thick) - 1 in at:
            ctx.mon(pre + "thick range judged whose first / last thick feature is on another seqid")
    if c["thin"] and any(x.get("seqid") for x in M.select(t["children"], c["thin"])):
        ctx.mon(pre + "thin features on another seqid (thickStart/thickEnd not judged, other fields judged)")


# ---------------------------------------------------------------------------------
# bed12 given a Feature object that is not a fresh copy of the database record
# ---------------------------------------------------------------------------------
def bed12_outcome(db, arg, c):
    """("line", text) or ("raised", exception)."""
    from gffutils import constants

    try:
        return "line", db.bed12(arg, block_featuretype=c["block"], thick_featuretype=c["thick"], thin_featuretype=c["thin"],
                                name_field=c["name_field"], color=c["color"])
    except Exception as ex:
        return "raised", ex
    finally:
        constants.always_return_list = True


def agrees(outcome, exp):
    """why-not (str) or None: does the outcome of a call agree with an expectation of the model?"""
    kind, val = outcome
    if "raises" in exp:
        if kind == "raised" and isinstance(val, ValueError):
            return None
        return "blocks do not span the feature but bed12 %s" % ("returned a line" if kind == "line" else "raised %s" % type(val).__name__)
    if kind == "raised":
        return "bed12 raised %s (%r)" % (type(val).__name__, val)
    why, detail = M.judge_bed12(val, exp)
    return None if not why else "%s: %r" % (why, detail)


def run_stale(ctx, case):
    import gffutils
    from gffutils.feature import feature_from_line

    text = annotation_text(case)
    t = case["transcripts"][case["t"]]
    how = case["how"]
    ns, ne = case["new"]
    score = case.get("new_score") or t["score"]
    dbfn = ctx.tmp(".db") if case.get("file") else ":memory:"
    handles = []
    pre = "bed12 stale objects: "
    try:
        try:
            db = gffutils.create_db(text, dbfn, from_string=True)
            handles.append(db)
            older = db
            if how == "older_handle":
                older = gffutils.FeatureDB(dbfn)
                handles.append(older)
            held = older[t["id"]]       # the caller's object
            if (held.start, held.end, held.seqid) != (t["start"], t["end"], t["seqid"]):
                raise AssertionError("harness: stored transcript differs from the generated one")
            if how == "edited":
                held.start, held.end = ns, ne
                now = t
                ctx.mon(pre + "objects edited by the caller (start/end assigned)")
            else:
                line = "%s\tsrc\t%s\t%d\t%d\t%s\t%s\t.\t%s" % (t["seqid"], t["type"], ns, ne, score, t["strand"], gff3_attrs(t["attrs"]))
                db.update([feature_from_line(line)], merge_strategy="replace")
                now = dict(t, start=ns, end=ne, score=score)
                ctx.mon(pre + "records replaced with other coordinates through update(merge_strategy='replace')")
                if how == "older_handle":
                    ctx.mon(pre + "objects fetched through a handle opened before the replace")
        except AssertionError:
            raise
        except Exception as ex:
            ctx.violation(case, {"why": "preparing the database raised %s" % type(ex).__name__, "exception": repr(ex), "text": text})
            return
        # the record as the database holds it now (independent of bed12)
        rec = db[t["id"]]
        if (rec.start, rec.end, rec.score) != (now["start"], now["end"], now["score"]):
            ctx.violation(case, {"why": "after update(merge_strategy='replace') the database record does not carry the new coordinates",
                                 "record": str(rec), "expected": [now["start"], now["end"], now["score"]]})
            return
        for ci, c in enumerate(case["calls"]):
            opts = {"block": c["block"], "thick": c["thick"], "thin": c["thin"], "name_field": c["name_field"], "color": c["color"]}
            exp = M.bed12_expect(now, t["children"], opts)
            as_object = M.bed12_expect(dict(now, start=held.start, end=held.end, score=held.score), t["children"], opts)
            info = {"call": ci, "transcript": t["id"], "how": how, "options": opts, "text": text,
                    "record now": [now["start"], now["end"]], "object held": [held.start, held.end]}
            empty = not M.select(t["children"], c["block"])
            # judged: the id (and a fresh copy of the record) after the replace / next to an edited object
            given = [("a fresh copy of the record", db, lambda: db[t["id"]])]
            if not empty:       # by id without block children: F-C18-1 territory, asked by the bed12 phases
                given.insert(0, ("the id", db, lambda: t["id"]))
                if how == "older_handle":
                    given.append(("the id, asked of the handle opened before the replace", older, lambda: t["id"]))
            for label, handle, arg in given:
                out = bed12_outcome(handle, arg(), c)
                ctx.mon(pre + "bed12 given %s judged against the record as it is now" % label)
                if "raises" in exp:
                    ctx.mon(pre + "ValueError expected from the record as it is now")
                why = agrees(out, exp)
                if why:
                    ctx.violation(case, dict(info, why="bed12 given %s, %s: %s" % (
                        label, "next to an object edited by the caller" if how == "edited" else "after the record was replaced", why),
                        got=repr(out[1])))
                    return
            # not judged (the statement does not say what bed12 is a function of when the object given disagrees with
            # the database): counted by which reading the result agrees with
            out = bed12_outcome(older, held, c)
            a, b = agrees(out, exp) is None, agrees(out, as_object) is None
            ctx.skip("bed12 given a Feature object that disagrees with the database record: not judged")
            ctx.mon(pre + "bed12 given the stale / edited object (not judged)")
            if a and b:
                ctx.mon(pre + "stale-object result agrees with both readings (they coincide)")
            elif a:
                ctx.mon(pre + "stale-object result is that of the database record (re-fetched by id)")
            elif b:
                ctx.mon(pre + "stale-object result is that of the object's own coordinates")
            else:
                ctx.mon(pre + "stale-object result agrees with neither reading")
            # the call with the object must not have changed what the id gives
            if not empty:
                why = agrees(bed12_outcome(db, t["id"], c), exp)
                ctx.mon(pre + "bed12 given the id judged again after the call with the stale object")
                if why:
                    ctx.violation(case, dict(info, why="bed12 given the id after a call with a stale object: " + why))
                    return
    finally:
        for h in handles:
            try:
                h.conn.close()
            except Exception:
                pass
        if dbfn != ":memory:":
            for p in (dbfn, dbfn + "-journal"):
                if os.path.exists(p):
                    os.unlink(p)


# ---------------------------------------------------------------------------------
# bed12 for transcripts whose block features overlap / lie inside one another
# ---------------------------------------------------------------------------------
NEST_SHAPES = ["enclosing first block", "earlier block reaches the end", "chain overlapping, last reaches the end",
               "block inside an earlier one, last reaches the end", "CDS among the blocks, last CDS ends inside the last exon",
               "CDS among the blocks, last CDS ends with the last exon"]


def nest_transcript(rng, idx, fmt):
    """One transcript whose block features overlap or lie inside one another, all block starts distinct (so 'ascending
    order' names one order).  The shape only steers the generator; what a call must give is worked out by the model from
    the statement: one block per block feature in ascending order, the LAST of them ending at chromEnd, else ValueError."""
    strand = rng.choice(["+", "-"])
    shape = rng.choice(NEST_SHAPES)
    pos = rng.randrange(1, 3000)
    k = rng.randrange(2, 6)
    chain = []                      # an ordinary chain of blocks, each >= 4 long
    for _ in range(k):
        ln = rng.choice([4, 5, rng.randrange(4, 200), rng.randrange(4, 200)])
        chain.append([pos, pos + ln - 1])
        pos += ln + rng.choice([0, 1, 2, rng.randrange(1, 300)])
    blocks = [list(b) for b in chain]
    cds = []
    block = rng.choice([["exon"], "exon"])
    if shape == "enclosing first block":
        # the first block covers the whole transcript (mostly ending after every other block)
        blocks[0][1] = chain[-1][1] + rng.choice([0, 1, 1, 2, 50])
    elif shape == "earlier block reaches the end":
        j = rng.randrange(0, k - 1)
        blocks[j][1] = chain[-1][1] + rng.choice([1, 1, 2, 50])
    elif shape == "chain overlapping, last reaches the end":
        moved = False
        for i in range(1, k):
            if rng.random() < 0.6 or (i == k - 1 and not moved):
                blocks[i][0] = rng.randrange(blocks[i - 1][0] + 1, blocks[i - 1][1] + 1)
                moved = True
    elif shape == "block inside an earlier one, last reaches the end":
        s, e = chain[rng.randrange(0, k - 1)]
        ns = rng.randrange(s + 1, e + 1)
        blocks.append([ns, rng.randrange(ns, e + 1)])
    else:
        # CDS features among the blocks: one inside each exon of a run that includes the last exon, starting after the
        # exon's start
        block = rng.choice([["exon", "CDS"], ["CDS", "exon"]])
        for s, e in chain[rng.randrange(0, k):]:
            cs = rng.randrange(s + 1, e)
            cds.append([cs, rng.randrange(cs, e)])
        if shape.endswith("ends with the last exon"):
            cds[-1][1] = chain[-1][1]
    children = [{"type": "exon", "start": s, "end": e} for s, e in blocks]
    thick = ["CDS"]
    if cds:
        children += [{"type": "CDS", "start": s, "end": e} for s, e in cds]
    elif rng.random() < 0.5:
        s, e = blocks[0]
        cs = rng.randrange(s, e + 1)
        children.append({"type": "CDS", "start": cs, "end": rng.randrange(cs, e + 1)})
    else:
        thick = rng.choice([["absent_type"], "CDS"])
    rng.shuffle(children)
    tid = "t%d" % idx
    if fmt == "gff3":
        attrs = [["ID", [tid]], ["Parent", ["g%d" % idx]]]
        if rng.random() < 0.5:
            attrs.append(["Name", ["nm%d" % idx]])
    else:
        attrs = [["transcript_id", [tid]], ["gene_id", ["g%d" % idx]]]
    t = {"id": tid, "seqid": "chr1", "strand": strand, "start": min(b[0] for b in blocks), "end": max(b[1] for b in blocks),
         "score": rng.choice([".", ".", "7"]) if fmt == "gff3" else ".", "type": "mRNA" if fmt == "gff3" else "transcript",
         "attrs": attrs, "children": children, "shape": "spanning", "nest": shape}
    return t, block, thick


def nest_case(rng):
    fmt = "gtf" if rng.random() < 0.3 else "gff3"
    ts, calls = [], []
    for i in range(rng.randrange(1, 4)):
        t, block, thick = nest_transcript(rng, i, fmt)
        ts.append(t)
        given = ["id", "feature"]
        rng.shuffle(given)
        for how in given[:rng.randrange(1, 3)]:
            calls.append({"t": i, "as": how, "block": block, "thick": thick, "thin": None,
                          "name_field": rng.choice(["ID", "Name"] if fmt == "gff3" else ["transcript_id", "gene_id"]),
                          "color": rng.choice([None, "255,0,0"]), "to_bed12": False})
    return {"kind": "bed12", "fmt": fmt, "transcripts": ts, "calls": calls, "nest": True,
            "shuffle_seed": rng.randrange(1 << 30) if rng.random() < 0.3 else None}


def nest_counters(ctx, fmt, t, c, exp):
    """What a call saw of overlapping block features (counted from the model's view of the selection)."""
    sel = M.select(t["children"], c["block"])
    if not M.overlapping(t["children"], c["block"]):
        return
    ctx.mon(NEST + "calls by %s judged" % ("id" if c["as"] == "id" else "Feature"))
    earlier_reaches = any(x["end"] == t["end"] for x in sel[:-1])
    if "raises" in exp:
        ctx.mon(NEST + "ValueError expected and raised")
        if earlier_reaches and sel[0]["start"] == t["start"] and sel[-1]["end"] < t["end"]:
            ctx.mon(NEST + "ValueError expected and raised while an earlier block reaches the transcript end and the last "
                           "block in ascending order ends before it")
    else:
        ctx.mon(NEST + "lines compared (one block per block feature, last block ending at chromEnd)")
        if any(a["end"] >= b["end"] for a, b in zip(sel, sel[1:])):
            ctx.mon(NEST + "lines compared with a block lying inside an earlier one")
        if len(set(x["type"] for x in sel)) > 1:
            ctx.mon(NEST + "lines compared with blocks of two featuretypes")
    ctx.mon(NEST + "calls judged, fmt=" + fmt)


def case_classes(case):
    """(classes, nontrivial) from the model's own view of the calls."""
    out = set(["bed12 fmt=" + case["fmt"]])
    nontrivial = False
    for c in case["calls"]:
        t = target_model(case, c)
        out.add("strand " + t["strand"])
        n = len(M.select(t["children"], c["block"]))
        out.add("blocks=0" if n == 0 else ("blocks=1" if n == 1 else "blocks>=2"))
        exp = M.bed12_expect(t, t["children"], {"block": c["block"], "thick": c["thick"], "thin": c["thin"],
                                                "name_field": c["name_field"], "color": c["color"]})
        if "raises" in exp:
            out.add("non-spanning")
            nontrivial = True
        elif n >= 2:
            nontrivial = True
        out.add("thin choice" if c["thin"] else "thick choice")
    return out, nontrivial


def run(ctx):
    rng = ctx.rng
    # 1. sequence / len
    for _ in range(ctx.budget(400, 16000)):
        seqs = G.genome(rng, maxlen=3000 if ctx.tier == "quick" else 6000)
        case = {"kind": "seq", "genome": seqs, "slices": G.slices(rng, seqs, 40), "origin": rng.choice(["line", "line", "ctor", "db"])}
        execute(ctx, case)
        ctx.case(case, any(sl[3] == "-" for sl in case["slices"]), cls="seq origin=" + case["origin"])
        ctx.mon("slices on the minus strand", sum(1 for sl in case["slices"] if sl[3] == "-"))
    # 1b. the same path while the file is rewritten between calls
    for _ in range(ctx.budget(500, 16000)):
        case = G.rewrite_case(rng)
        execute(ctx, case)
        ctx.case(case, True, sample=case if rng.random() < 0.01 else None, cls="seqrw %d versions" % len(case["rounds"]))
        for rd in case["rounds"][1:]:
            ctx.classes["seqrw index %s, %s" % (rd["fai"], rd["write"])] += 1
    # 1c. readers opened with non-default naming options
    for _ in range(ctx.budget(500, 16000)):
        case = G.named_case(rng)
        execute(ctx, case)
        ctx.case(case, True, cls="seqobj mode=%s" % case["mode"])
        ctx.classes["seqobj as_raw=%s" % bool(case["as_raw"])] += 1
    # 2a. bed12 for features whose block / thick features are level-2 children
    for _ in range(ctx.budget(700, 24000)):
        case = G.deep_case(rng)
        execute(ctx, case)
        classes, nontrivial = case_classes(case)
        ctx.case(case, nontrivial, sample={"fmt": case["fmt"], "deep": case["deep"], "calls": case["calls"][:1],
                                           "text": annotation_text(case)[:600]} if rng.random() < 0.02 else None,
                 cls="bed12 deep target=%s%s" % (case["deep"]["target"], " via intermediate" if case["deep"]["via"] else ""))
        ctx.classes["bed12 deep fmt=" + case["fmt"]] += 1
    # 1d. two files with the same base name and size
    for _ in range(ctx.budget(320, 12000)):
        case = G.twin_case(rng)
        execute(ctx, case)
        ctx.case(case, True, sample=case if rng.random() < 0.01 else None, cls="seqtwin " + case["how"])
    # 2b. bed12 with type names that contain one another
    for _ in range(ctx.budget(900, 30000)):
        case = G.substring_case(rng)
        if not case["calls"]:
            continue
        execute(ctx, case)
        classes, nontrivial = case_classes(case)
        ctx.case(case, nontrivial, sample={"fmt": case["fmt"], "calls": case["calls"][:2], "text": annotation_text(case)[:600]}
                 if rng.random() < 0.02 else None, cls="bed12 substring names")
        for lay in set(t["layout"] for t in case["transcripts"]):
            ctx.classes["bed12 substring names layout=" + lay] += 1
    # 1e. references whose record names are equal ignoring letter case / normalisation form
    for _ in range(ctx.budget(300, 9000)):
        seqs = G.twin_name_genome(rng)
        case = {"kind": "seq", "genome": seqs, "slices": G.slices(rng, seqs, 12), "origin": rng.choice(["line", "ctor", "db"]),
                "twins": True}
        execute(ctx, case)
        ctx.case(case, True, sample=case if rng.random() < 0.01 else None, cls="seq look-alike record names origin=" + case["origin"])
    # 2b'. bed12 with featuretypes that look alike (letter case; '_' / '%' in the requested name)
    for _ in range(ctx.budget(700, 24000)):
        case = G.lookalike_case(rng)
        if not case["calls"]:
            continue
        execute(ctx, case)
        classes, nontrivial = case_classes(case)
        ctx.case(case, True, sample={"fmt": case["fmt"], "calls": case["calls"][:2], "text": annotation_text(case)[:600]}
                 if rng.random() < 0.02 else None, cls="bed12 look-alike types")
        for t in case["transcripts"]:
            ctx.classes["bed12 look-alike types: " + t["shape"]] += 1
    # 2c. duplicated block records; thick / thin children reaching past the transcript
    for _ in range(ctx.budget(700, 24000)):
        which = "dup" if rng.random() < 0.5 else "reach"
        fmt = "gtf" if rng.random() < 0.35 else "gff3"
        case = G.dup_case(rng, fmt) if which == "dup" else G.reach_case(rng, fmt)
        execute(ctx, case)
        classes, nontrivial = case_classes(case)
        ctx.case(case, True, sample={"fmt": fmt, "calls": case["calls"][:1], "text": annotation_text(case)[:700]}
                 if rng.random() < 0.02 else None,
                 cls="bed12 %s fmt=%s" % ("duplicated records" if which == "dup" else "thick/thin past the transcript", fmt))
        for t in case["transcripts"]:
            for k in t.get("dups", []) + t.get("reach", []):
                ctx.classes["bed12 %s: %s" % (which, k)] += 1
    # 2d. block / thick children recorded on another seqid than the transcript
    for _ in range(ctx.budget(700, 24000)):
        case = G.altseq_case(rng)
        execute(ctx, case)
        classes, nontrivial = case_classes(case)
        ctx.case(case, True, sample={"calls": case["calls"][:1], "text": annotation_text(case)[:700]} if rng.random() < 0.02 else None,
                 cls="bed12 children on another seqid")
        for t in case["transcripts"]:
            for k in t.get("alt", []):
                ctx.classes["bed12 other seqid: " + k] += 1
    # 2d'. block features that overlap / lie inside one another (block starts distinct)
    for _ in range(ctx.budget(600, 20000)):
        case = nest_case(rng)
        execute(ctx, case)
        ctx.case(case, True, sample={"calls": case["calls"][:1], "text": annotation_text(case)[:600]} if rng.random() < 0.02 else None,
                 cls="bed12 overlapping blocks fmt=" + case["fmt"])
        for t in case["transcripts"]:
            ctx.classes["bed12 overlapping blocks: " + t["nest"]] += 1
    # 2e. Feature objects that are not a fresh copy of the database record
    for _ in range(ctx.budget(500, 16000)):
        case = G.stale_case(rng)
        if not case["calls"]:
            continue
        execute(ctx, case)
        ctx.case(case, True, sample={"how": case["how"], "new": case["new"], "calls": case["calls"][:1], "text": annotation_text(case)[:500]}
                 if rng.random() < 0.02 else None, cls="bed12 stale object: " + case["how"])
    # 2. bed12 (transcripts whose block selection is empty are given as Feature here)
    bed_phase(ctx, rng, ctx.budget(3000, 120000), False)
    # 3. bed12 by id for transcripts without block children: last, so that a defect there cannot push other reports
    #    out of the per-shard record
    if ctx.shard == 0:
        execute(ctx, CANONICAL_SINGLE)
        ctx.case(CANONICAL_SINGLE, True)
    bed_phase(ctx, rng, ctx.budget(400, 16000), True)


def bed_phase(ctx, rng, n, single_by_id):
    for _ in range(n):
        case = G.bed_case(rng, "gtf" if rng.random() < 0.3 else "gff3", single_by_id=single_by_id)
        execute(ctx, case)
        classes, nontrivial = case_classes(case)
        for c in classes:
            ctx.classes[c] += 1
        if single_by_id:
            ctx.classes["single block by id"] += 1
        ctx.case(case, nontrivial or single_by_id,
                 sample=None if single_by_id else {"fmt": case["fmt"], "calls": case["calls"][:2], "text": annotation_text(case)[:700]})


CANONICAL_SINGLE = {
    "kind": "bed12", "fmt": "gff3", "shuffle_seed": None,
    "transcripts": [{"id": "t0", "seqid": "chr1", "strand": "+", "start": 100, "end": 200, "score": ".", "type": "mRNA",
                     "attrs": [["ID", ["t0"]], ["Parent", ["g0"]]], "children": [], "shape": "spanning"}],
    "calls": [{"t": 0, "as": "id", "block": ["exon"], "thick": ["CDS"], "thin": None, "name_field": "ID", "color": None,
               "to_bed12": False}],
}


MANIFEST = {
    "technique": "differential check of the real len/sequence/bed12/to_bed12 against an in-memory reference and a BED12 field model",
    "text": "A random multi-sequence reference is kept in memory and written line-wrapped to a scratch FASTA file; for generated "
            "features (parsed, constructed, from a database) len() and sequence() (path and pyfaidx.Fasta object, both "
            "use_strand settings) are compared with the model's 1-based inclusive slice and its own reverse complement. "
            "Generated GFF3/GTF transcript models are imported with the real create_db and FeatureDB.bed12 (by id and by "
            "Feature, all block/thick/thin/name/colour choices) is compared field by field with a model written from the "
            "statement, including ValueError for non-spanning blocks and the single-block export; convert.to_bed12 is "
            "judged on the shared fields. bed12 is also asked for single-isoform genes and for transcripts whose CDS/UTR/"
            "exons hang on an intermediate feature (block/thick features at level 2), and for transcripts whose children "
            "carry type names that contain one another with the featuretype arguments given as str and as list. Two "
            "different FASTA files with the same base name and size in different directories are read alternately by path. "
            "The same FASTA path is rewritten "
            "between sequence() calls (index removed or left behind, overwrite or replace), and readers opened with "
            "key_function / split_char / read_long_names / as_raw are passed to sequence(). "
            "bed12 is also asked for transcripts whose block / thick children are recorded on another seqid, and - by id, by "
            "a fresh copy and through an older handle - after the transcript record was replaced with other coordinates. "
            "bed12 is asked for transcripts whose block features overlap or lie inside one another (distinct starts): "
            "ValueError unless the block with the greatest start ends at the transcript end. "
            "Held = no executed case disagreed.",
    "note": "Trusted: the 60-line field model, pyfaidx as file reader. Not judged: bed12 given a Feature object that "
            "disagrees with the database record (stale / edited; counted by reading), thickStart/thickEnd without thick "
            "features, thin choices, calls with neither thick nor thin featuretype. F-C18-1: bed12(<id string>) for a "
            "transcript without block children raises AttributeError.",
}
