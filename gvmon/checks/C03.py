"""
C03  GTF import infers exact gene/transcript extents and the three-level hierarchy.

History + model: a generated GTF file (genes x transcripts x exon/CDS/other lines, shuffled, optionally with gene and
transcript lines of its own) is imported by the real create_db under one of the four disable_infer_* combinations.
The reference model gvmon/models/gtfinfer.py says which derived features must exist (id, type, seqid, strand, extent),
which must not, and the exact relation triples; the database is read back through db[id], children(), parents() and,
independently, with plain sqlite3 (gvmon/dbdump.py).

Case kinds (all replayable through execute): "gtf" (the basic workload), "gtf-large" (1100-2500 lines, rebuilt from
case["gen"] = {seed, where, nlines}: the file's own gene/transcript lines late / early / both / none), "gtf-odd" (ids and
values with 'word=', '%41', blanks, non-ASCII: the file must still be read as GTF), "gtf-oneshot" (case["how"] =
generator | iterator of Features, case["checklines"]), "gtf-shared" (a transcript id annotated under 2-3 gene ids;
case["perms"] = line orders of case["model"], all imported and compared with the model and with one another).  Models made
by G.make_edge_seqids (seqids that start/end with a blank-like character) run as "gtf" / "gtf-oneshot" cases.
"gtf-strategy": case["merge_strategy"] (one of G.MERGE_STRATEGIES) is passed to create_db; the file has no duplicated ids but
gene/transcript lines of its own that differ from what inference derives (G.make_differing) or look exactly like it.
"gtf-mixed-strand": a model rewritten by G.make_mixed_strands (exons of one gene / transcript on both strands of one seqid).
"gtf-dupkeys": a model rewritten by G.make_dupkeys (several subfeature lines with one exon_id under different transcripts),
imported with id_spec {..., subfeature: 'exon_id'} and case["merge_strategy"] in G.DUP_STRATEGIES.
"gtf-edge-coords": a model rewritten by make_edge_coords (below): all lines of 1..n genes moved so that the smallest exon start
of the gene (optionally of each of its transcripts) is 0 or 1, or moved up beyond 2**29 / 2**31 / 2**40 (path or one-shot input).
"""
import os
import random

from gvmon import dbdump
from gvmon.gen import gtfmodels as G
from gvmon.models import gtfinfer as I
from gvmon.models import hierarchy as H
from gvmon.monitors import contracts, sqltrace

RULE = ("GTF files of 1-3 genes x 1-3 transcripts x 0-4 subfeature lines ('exon' or the custom gtf_subfeature) and 0-3 other "
        "lines (CDS, codons, UTR; possibly reaching beyond the exons), written in one of the 12 GTF dialect points, lines "
        "shuffled over the whole file / locally / reversed / in order; transcripts without exons; files without, with some "
        "or with all gene/transcript lines of their own (either ordinary ones or ones that look exactly like derived "
        "features); default or custom gtf_transcript_key/gtf_gene_key/gtf_subfeature; each file under all four "
        "disable_infer_transcripts x disable_infer_genes combinations. Plus three workload classes: (large) files of "
        "1100-2500 lines whose own gene/transcript lines stand only after line 1000 / only among the first 900 lines / on "
        "both sides / nowhere; (odd ids) gene/transcript ids and attribute values containing 'word=' (also as the value of "
        "the first attribute of every line), '%41'-like sequences, inner/double/trailing blanks, non-ASCII letters; "
        "(one-shot) the file handed over as a generator or iterator of Feature objects built line by line with "
        "feature_from_line, more than checklines+2 features, checklines in {0, 1, 10}; (edge seqids) the seqid of all lines of "
        "1..all genes starts and/or ends with a blank-like character or consists of one (space, two spaces, NBSP U+00A0, U+3000, "
        "U+2009, form feed, vertical tab, U+0085, U+001F; not CR/LF, which end a line), imported from a path or one-shot: derived "
        "genes/transcripts must sit on exactly that seqid and be retrievable by id; (shared transcript id) 1-2 transcript ids "
        "annotated under 2-3 of the 2-4 gene ids of one seqid and strand (neighbouring or far-apart loci), every (transcript, "
        "gene) combination with >= 1 subfeature line, every gene id owning >= 1 subfeature line, at most one transcript line "
        "for a shared id, ordinary transcripts and gene lines besides; each file under 4 line orders (as generated, reversed, "
        "2 random), each judged against the model and all compared with one another; (merge strategy) files WITHOUT duplicated "
        "ids in which all or some genes/transcripts have a line of their own that differs from what inference would derive - "
        "another source than the exons' (85%), coordinates reaching beyond the exons on one or both sides (60%) or narrower "
        "(10%), 1-2 attributes no derived feature has (80%) - or (1 file of 5) that looks exactly like a derived feature; each "
        "file under merge_strategy = 'error', 'merge', 'replace', 'create_unique', 'warning' x all four flag combinations: "
        "the line must stay the single feature under its id with its own columns and attribute mapping, everything else as "
        "in the basic workload. (mixed strands) the subfeature lines of 1..n genes are put on BOTH strands of their one seqid - all "
        "lines of one transcript of a gene with >= 2 exon-bearing transcripts flipped (sense/antisense transcripts under one "
        "gene id: transcripts consistent, gene mixed) or some but not all exons of one transcript flipped (transcript and gene "
        "mixed) - under all four flag combinations: extent (min start .. max end over ALL exons), seqid, retrievability and "
        "the hierarchy are judged, the strand of a derived feature only where its exons agree. (one primary key, several "
        "lines) 1-2 subfeature lines get an exon_id that 1-2 added lines under ANOTHER transcript (same gene, or another gene on "
        "the same seqid and strand) repeat - same columns (always under 'merge') or other coordinates - with id_spec {gene: gene "
        "key, transcript: transcript key, subfeature: 'exon_id'}, custom keys in 2 of 3 files, under merge_strategy = 'replace' "
        "(stored: the LAST line of a key, with its links only), 'warning' (the FIRST), 'merge' (one feature carrying the ids of "
        "all its lines: child of each of them), 'create_unique' (every line a feature) x all four flag combinations; both "
        "transcripts keep a line with a key of its own. "
        "(ids shaped like collision-renames) in a file with gene/transcript lines of its own (differing from inference 2 of 4, "
        "ordinary 1 of 4, derived-like 1 of 4) the transcripts of every gene X that has a gene line are named X_1, X_2, ... (they "
        "keep their exon/other lines and get no transcript line: derived features when inference is on) and a gene without a line "
        "one of whose transcripts T has a transcript line is named T_1 (7 of 10); all four flag combinations for every other file, "
        "merge_strategy drawn for 1 of 3: every explicit line stays the single feature under its id with its own columns and "
        "attributes, every derived 'X_<k>' / 'T_1' has its type, extent and relatives. "
        "(coordinates at the edges of the range) all lines of 1..n genes are moved along their seqid so that the smallest exon "
        "start of the gene is 0 (a file converted from 0-based coordinates) or 1 (first base of the sequence) - in 1 of 3 the "
        "first exon of EVERY transcript of the gene is stretched down to that coordinate, in 1 of 6 the first exon is the single "
        "base 0..0 / 1..1 - or moved up so that they straddle / lie beyond 2**29, 2**31 or 2**40; lines that reached below the "
        "exons are clipped at 0; from a path or one-shot, all four flag combinations for every third file: the derived feature "
        "must exist, be retrievable and span exactly min start .. max end like anywhere else on the axis. "
        "Exon lines that carry a gene id but no (or an empty) transcript id are never generated. "
        "non-trivial = >= 2 transcripts in "
        "one gene and >= 1 transcript with >= 2 subfeature lines; distinct = file text + keys + flag combination + way of input")
REQUIRED = ["imports", "derived features compared (id, type, seqid, strand)", "derived extents compared",
            "suppressed derived features confirmed absent", "relation rows compared", "children()/parents() calls compared with the model",
            "gene/transcript lines of the file compared (single feature, columns, attributes)", "db[id] lookups",
            "large files imported (> 1000 lines)", "gene/transcript lines standing after line 1000 compared",
            "derived features of large files compared", "odd ids: files read as GTF", "odd ids: derived features compared",
            "one-shot inputs imported (generator/iterator of Features)", "one-shot: derived extents compared (all exons)",
            "seqid edge: derived features on a seqid with a blank-like edge compared byte for byte",
            "seqid edge: derived features on a seqid that STARTS with a blank-like character compared",
            "seqid edge: derived features on a seqid that ENDS with a blank-like character compared",
            "seqid edge: derived features compared after a one-shot input",
            "shared transcript id: imports judged against the model",
            "shared transcript id: pairs of line orders with identical derived features and relations",
            "shared transcript id: derived transcripts spanning the exons of >= 2 genes compared",
            "shared transcript id: derived genes all of whose exons belong to a shared transcript compared",
            "shared transcript id: (gene, transcript, 1) rows of a transcript annotated under >= 2 genes expected"] + [
    fmt % s for s in ("error", "merge", "replace", "create_unique", "warning") for fmt in (
        "strategy: imports with merge_strategy='%s' of a file without duplicated ids",
        "strategy %s: gene lines meeting a derived feature of their id compared",
        "strategy %s: transcript lines meeting a derived feature of their id compared",
        "strategy %s: such lines with another source than a derived feature",
        "strategy %s: such lines with other coordinates than the exons' extent",
        "strategy %s: such lines with attributes no derived feature has")] + [
    "mixed strands: derived genes whose exons lie on both strands compared (extent, seqid; strand not judged)",
    "mixed strands: derived transcripts whose exons lie on both strands compared (extent, seqid; strand not judged)",
    "mixed strands: derived transcripts with consistent exons under a mixed-strand gene compared (strand judged)",
    "mixed strands: imports judged (relations, children/parents)"] + [
    fmt % s for s in ("replace", "merge", "create_unique", "warning") for fmt in (
        "one key, several lines: imports with merge_strategy='%s' and custom keys judged",
        "one key, several lines: imports with merge_strategy='%s' and default keys judged",
        "one key, several lines (%s): lines sharing their primary key with a line of another transcript")] + [
    "one key, several lines (replace): replaced lines (not stored; their links expected absent)",
    "one key, several lines (replace): replaced lines naming another transcript than the stored line, custom keys",
    "one key, several lines (replace): derived extents compared of transcripts/genes that lost a line to replacement",
    "one key, several lines (warning): skipped lines (not stored; their links expected absent)",
    "one key, several lines (merge): stored features carrying >= 2 transcript ids, child of each",
    "rename-shaped ids: imports judged",
    "rename-shaped ids: gene lines 'X' with a transcript named 'X_<k>' in the file compared (single feature, own columns)",
    "rename-shaped ids: derived transcripts named 'X_<k>' beside a gene line 'X' compared (type, extent)",
    "rename-shaped ids: derived transcripts 'X_<k>' compared in an import where inference also met the gene line 'X'",
    "rename-shaped ids: such imports where the gene line differs from a derived gene (another source)",
    "rename-shaped ids: transcript lines 'T' beside a gene named 'T_1' compared (single feature, own columns)",
    "coordinate edge: imports judged",
    "coordinate edge: derived transcripts whose smallest exon start is 0 compared (exists, db[id], extent)",
    "coordinate edge: derived genes whose smallest exon start is 0 compared (exists, db[id], extent)",
    "coordinate edge: derived transcripts whose smallest exon start is 1 compared (exists, db[id], extent)",
    "coordinate edge: derived genes whose smallest exon start is 1 compared (exists, db[id], extent)",
    "coordinate edge: derived features ending beyond 2**31 compared (exists, db[id], extent)",
    "coordinate edge: derived features compared after a one-shot input"]
REQUIRED_CLASSES = ["flags: infer both", "flags: no transcripts", "flags: no genes", "flags: infer nothing",
                    "file: gene/transcript lines present", "file: no gene/transcript lines", "file: explicit lines look derived (merge path)",
                    "file: transcript without exons", "keys: custom", "keys: default", "subfeature: custom",
                    "large: gene/transcript lines only after line 1000", "large: gene/transcript lines only among the first 900 lines",
                    "large: gene/transcript lines on both sides of line 1000",
                    "odd ids: eq", "odd ids: percent", "odd ids: blank", "odd ids: unicode",
                    "input: generator of Features", "input: iterator of Features",
                    "one-shot: checklines=0", "one-shot: checklines=1", "one-shot: checklines=10",
                    "seqid edge: leading", "seqid edge: trailing", "seqid edge: both ends", "seqid edge: blank only",
                    "seqid edge: space", "seqid edge: NBSP U+00A0", "seqid edge: U+3000", "seqid edge: form feed",
                    "shared transcript id: under 2 gene ids", "shared transcript id: under 3 gene ids",
                    "strategy: merge_strategy='error'", "strategy: merge_strategy='merge'", "strategy: merge_strategy='replace'",
                    "strategy: merge_strategy='create_unique'", "strategy: merge_strategy='warning'",
                    "strategy: explicit lines differ from inference", "strategy: explicit lines look derived",
                    "strategy: explicit lines differ in: source", "strategy: explicit lines differ in: wider coordinates",
                    "strategy: explicit lines differ in: extra attributes",
                    "mixed strands: antisense transcript", "mixed strands: trans-spliced",
                    "one key, several lines: keys custom", "one key, several lines: keys default",
                    "one key, several lines: the lines of a key differ in coordinates",
                    "one key, several lines: a key shared by transcripts of two genes",
                    "rename-shaped ids: transcripts 'X_1', 'X_2' of a gene line 'X'", "rename-shaped ids: gene 'T_1' of a transcript line 'T'",
                    "coordinate edge: smallest exon start of a gene 0", "coordinate edge: smallest exon start of a gene 1",
                    "coordinate edge: every transcript of the gene starts at the edge", "coordinate edge: single-base first exon",
                    "coordinate edge: beyond 2**29", "coordinate edge: beyond 2**31", "coordinate edge: beyond 2**40"]
ASSUMPTIONS = [
    "the reference model gvmon/models/gtfinfer.py is a faithful reading of the statement",
    "exons (subfeature lines) of one transcript and of one gene share their seqid (otherwise 'the exons' seqid' is "
    "undefined; exons of one id on different seqids are not generated); gene ids, transcript ids and auto-generated ids are "
    "pairwise different.  Exons of one id on BOTH strands (mixed-strand class only): the derived feature exists, is "
    "retrievable, sits on the exons' seqid and spans min start .. max end over ALL its exons; its strand is not judged "
    "(a transcript whose own exons agree is judged on their strand even when its gene is mixed)",
    "start and end are the non-negative integers written in columns 4 and 5; 'minimum start' and 'maximum end' are taken over "
    "those numbers wherever they lie on the axis: 0 (files converted from 0-based coordinates; gffutils stores such lines as "
    "they are) is a coordinate like any other and not 'no coordinate', and so are values beyond 2**29 / 2**31 / 2**40.  Negative "
    "and '.' coordinates are not generated",
    "several lines with one primary key (a shared exon_id made the key of subfeature lines through id_spec): merge_strategy "
    "decides which of them are stored features - 'replace': the last line of the key, 'warning': the first, 'create_unique': "
    "all (later ones under a key of their own), 'merge' (lines identical in all columns but the attributes): one feature "
    "carrying the attribute values of all of them.  The statement then reads over the STORED features: a line that is not "
    "stored contributes neither links nor extent (its transcript no longer spans it), a merged feature carries every "
    "transcript/gene id of its lines and is a child of each.  Every transcript involved keeps a line with a key of its own, "
    "so the gene-transcript links never rest on a line that is not stored (elsewhere the statement is silent: not generated). "
    "merge_strategy='error' raises by definition and is not part of this class",
    "ids are opaque: an id that looks like the name a key collision would be renamed to ('X_1' beside 'X') is an ordinary id. NOT "
    "generated (the unchanged tree deviates there, reported separately): a gene line 'X' (not mergeable with the derived gene: "
    "another source / coordinates) together with a TRANSCRIPT LINE 'X_1' of the file, and a transcript line 'T' together with "
    "an exon line stored under the key 'T_1' (id_spec exon_id): the line stored under '<id>_1' loses its attributes",
    "a transcript id annotated under several gene ids (shared-transcript class only): each gene id that owns >= 1 subfeature "
    "line gets one derived gene spanning the subfeature lines carrying THAT gene id; the transcript gets one derived feature "
    "spanning all subfeature lines carrying the transcript id; every line is a level-1 child of its transcript and a level-2 "
    "child of the gene id it carries; the transcript is a level-1 child of every gene id it is annotated under; the result "
    "does not depend on the line order.  Only files in which all those genes share seqid and strand, every gene id owns a "
    "subfeature line and the shared id has at most one transcript line are generated (elsewhere the statement is silent); "
    "the attributes of the derived transcript (which gene ids it lists) are not judged",
    "a seqid is the exact text of the first column: blank-like characters at its edges (space, NBSP, U+3000, form feed, ...) "
    "belong to it; 'on the exons' seqid' is judged byte for byte (CR and LF are line terminators and never part of a seqid)",
    "every exon / other line carries both ids; a transcript line carries both; a gene line carries only its gene id "
    "(possibly with an empty transcript id).  Exon / other lines with a gene id but no or an empty transcript id are outside "
    "the statement ('every other line carrying these ids') and are never generated",
    "with custom gtf_transcript_key/gtf_gene_key the matching id_spec {'gene': gene key, 'transcript': transcript key} is "
    "passed, so that 'retrievable by that id' is meaningful",
    "extents (start/end) and seqid/strand of derived features are judged only when both disable flags are False; with a "
    "flag set only presence/absence and the feature type of derived features are judged (statement silent)",
    "a gene/transcript line present in the file wins over the derived feature of the same id whatever its own columns are: "
    "the oracle asks that it is the only feature of its id, with the columns of its line and the same attribute mapping "
    "(key -> set of values; key order and value order not judged); whether its extent agrees with the exons is not judged",
    "merge_strategy says what happens to lines whose id is already taken; a file in which every gene id / transcript id has "
    "at most one gene / transcript line (all other lines get generated ids) has no such lines, so under each of 'error', "
    "'merge', 'replace', 'create_unique', 'warning' the import succeeds and the statement reads as without the argument: the "
    "file's own gene/transcript line - not the feature inference would derive for its id - is the single feature under that id "
    "(seqid, source, type, coordinates, score, strand, frame of ITS line; attribute mapping of its line: on the unchanged tree "
    "the attributes a derived look-alike brings are a subset of the line's, so the mapping is unchanged)",
    "transcripts/genes without any subfeature line and without a line of their own: neither presence nor absence of a "
    "feature under their id is demanded",
    "source/score/frame/attributes of derived features are not judged",
    "a file whose attribute column is written as quoted key \"value\" pairs separated by blanks is GTF whatever the values "
    "contain ('=', '%41', blanks, non-ASCII): ids are the literal text between the quotes (GTF has no escapes); values do "
    "not contain ';', ',', '\"' or tabs",
    "large files: relations, derived features and the file's own gene/transcript lines are compared completely; "
    "children()/parents() are called for a sample of the stored features (all gene/transcript lines of the file plus about "
    "every 40th feature)",
    "one-shot inputs: a generator / iterator of Features parsed one line at a time (feature_from_line, dialect inferred "
    "per line) is the same GTF input as the file; only cases with more than checklines+2 features are generated",
]
QUICK_SHARDS = 4
THOROUGH_SHARDS = 16
LEVELS = (1, 2, None)
LARGE_CLASS = {"late": "large: gene/transcript lines only after line 1000", "early": "large: gene/transcript lines only among the first 900 lines",
               "both": "large: gene/transcript lines on both sides of line 1000", "none": "large: no gene/transcript lines"}
FLAG_NAMES = {(False, False): "flags: infer both", (True, False): "flags: no transcripts", (False, True): "flags: no genes",
              (True, True): "flags: infer nothing"}


EDGE_LOW = (0, 0, 0, 1)
EDGE_FAR = (("beyond 2**29", (1 << 29) - 150), ("beyond 2**31", (1 << 31) - 150), ("beyond 2**40", (1 << 40) + 7))


def make_edge_coords(rng, m):
    """Move all lines of 1..all genes (every line carrying that gene id) along their seqid so that the exons touch an edge of the
    coordinate range: the smallest exon start of the gene becomes 0 or 1 ("low"; optionally the first exon of every transcript
    of the gene is stretched down to it, optionally the first exon becomes a single base) or the whole gene is moved up by
    about 2**29, 2**31, 2**40 ("far").  Distances between the lines are kept; starts of other lines that would fall below 0
    are clipped at 0 (ends at their start).  Genes without exon lines are left alone.  Returns the list of class names."""
    gkey, tkey, sub = m["gkey"], m["tkey"], m["subfeature"]
    by_gene = {}
    for rec in m["lines"]:
        g = I.attr(rec, gkey)
        by_gene.setdefault(g, []).append(rec)
    genes = sorted((g for g in by_gene if g is not None and any(r["featuretype"] == sub and I.attr(r, tkey) for r in by_gene[g])), key=repr)
    rng.shuffle(genes)
    made = []
    for gi, g in enumerate(genes):
        if gi and rng.random() < 0.4:
            continue
        recs = by_gene[g]
        exons = [r for r in recs if r["featuretype"] == sub]
        lo = min(int(r["start"]) for r in exons)
        if rng.random() < 0.75:
            target = rng.choice(EDGE_LOW)
            delta = target - lo
            made.append("smallest exon start of a gene %d" % target)
        else:
            name, off = rng.choice(EDGE_FAR)
            delta = off - lo + rng.choice([0, 0, 149, 151, 100000])
            target = None
            made.append(name)
        for r in recs:
            s_ = max(0, int(r["start"]) + delta)
            e_ = max(s_, int(r["end"]) + delta)
            r["start"], r["end"] = str(s_), str(e_)
        if target is not None:
            firsts = {}
            for r in exons:
                t = I.attr(r, tkey)
                if t not in firsts or int(r["start"]) < int(firsts[t]["start"]):
                    firsts[t] = r
            if len(firsts) > 1 and rng.random() < 0.34:
                for r in firsts.values():
                    r["start"] = str(target)
                made.append("every transcript of the gene starts at the edge")
            if rng.random() < 0.17:
                for r in firsts.values():
                    if int(r["start"]) == target:
                        r["end"] = str(target)
                made.append("single-base first exon")
    m["edge_coords"] = sorted(set(made))
    return m["edge_coords"]


def setup(ctx):
    contracts.install_all()
    sqltrace.install()


def mapping_of(pairs):
    return {k: sorted(v) for k, v in pairs}


def model_of(case):
    """The file model of a case; large files are rebuilt from their seed (the generator is deterministic)."""
    if case.get("model") is not None:
        return case["model"]
    g = case["gen"]
    return G.large_model(random.Random(g["seed"]), g["where"], g.get("nlines"))


def execute(ctx, case):
    if case["kind"] == "gtf-shared":
        return execute_shared(ctx, case)
    import_one(ctx, case, model_of(case))


def execute_shared(ctx, case):
    """One file with a transcript id annotated under several gene ids, imported under each of case["perms"] (line orders):
    every import is judged against the model, and what was stored must not depend on the order of the lines."""
    base = model_of(case)
    first = None
    for perm in case["perms"]:
        m = dict(G.reordered(base, perm), perm=list(perm))
        got = import_one(ctx, case, m)
        if not isinstance(got, dict):
            return
        ctx.mon("shared transcript id: imports judged against the model")
        if first is None:
            first = (perm, got)
            continue
        for what in ("derived", "relations"):
            if got[what] != first[1][what]:
                a, b = set(map(tuple, first[1][what])), set(map(tuple, got[what]))
                return ctx.violation(case, {"why": "a transcript id annotated under several gene ids: the %s depend on the order of the lines"
                                                   % ("derived features" if what == "derived" else "relations"),
                                            "order_a": first[0], "order_b": list(perm), "only_a": sorted(a - b)[:10], "only_b": sorted(b - a)[:10],
                                            "flags": [case["dit"], case["dig"]], "text_a": G.text_of(G.reordered(base, first[0])),
                                            "text_b": G.text_of(m), "note": "B<n> = line n of case['model']"})
        ctx.mon("shared transcript id: pairs of line orders with identical derived features and relations")


def import_one(ctx, case, m):
    """Import the file of model m under the flags of the case and judge it; returns a summary of what was stored (derived
    features and relations, lines named by their position in the unshuffled model: a dict) or something else after a violation."""
    import gffutils
    from gffutils.feature import feature_from_line

    lines = m["lines"]
    dit, dig = bool(case["dit"]), bool(case["dig"])
    tkey, gkey, sub = m["tkey"], m["gkey"], m["subfeature"]
    text = G.text_of(m)
    if m.get("dupkeys"):
        # the lines that are stored features under this merge_strategy (file order kept); tags name the lines
        lines = [lines[i] for i in G.surviving(m, case["merge_strategy"])]
    exp = I.expect(lines, tkey, gkey, sub, dit, dig)
    large = len(lines) > 1000
    how = case.get("how", "path")
    dbfn = ":memory:" if case.get("db", "memory") == "memory" else ctx.tmp(".db")
    kw = {"disable_infer_transcripts": dit, "disable_infer_genes": dig}
    if (tkey, gkey) != ("transcript_id", "gene_id"):
        kw.update(gtf_transcript_key=tkey, gtf_gene_key=gkey, id_spec={"gene": gkey, "transcript": tkey})
    if sub != "exon":
        kw["gtf_subfeature"] = sub
    if m.get("dupkeys"):
        kw["id_spec"] = {"gene": gkey, "transcript": tkey, sub: m["dupkeys"]["attr"]}
    if "checklines" in case:
        kw["checklines"] = int(case["checklines"])
    if case.get("merge_strategy") is not None:
        kw["merge_strategy"] = case["merge_strategy"]
    info = {"flags": kw, "text": text if not large else text[:1500] + "\n... (%d lines, rebuilt from the case)" % len(lines)}
    if how != "path":
        info["input"] = how
    src = None
    if how == "path":
        src = ctx.tmp(".gtf")
        with open(src, "w", encoding="utf-8", newline="") as fh:
            fh.write(text)
        data = src
    else:
        if len(lines) <= int(case["checklines"]) + 2:
            raise AssertionError("harness: one-shot case with too few features")
        rows = [r for r in text.split("\n") if r]
        if how == "generator":
            data = (feature_from_line(r) for r in rows)
        elif how == "iterator":
            data = iter([feature_from_line(r) for r in rows])
        else:
            raise AssertionError("harness: unknown input %r" % (how,))
    sqltrace.reset()
    db = None
    try:
        try:
            db = gffutils.create_db(data, dbfn, **kw)
        except Exception as ex:
            ctx.violation(case, dict(info, why="create_db raised %s" % type(ex).__name__, error=repr(ex)))
            return None
        ctx.mon("imports")
        if case.get("merge_strategy") is not None and not m.get("dupkeys"):
            ctx.mon("strategy: imports with merge_strategy=%r of a file without duplicated ids" % (case["merge_strategy"],))
        if how != "path":
            ctx.mon("one-shot inputs imported (generator/iterator of Features)")
        if large:
            ctx.mon("large files imported (> 1000 lines)")
        if db.dialect["fmt"] != "gtf":
            if m.get("odd"):
                # quoted key "value" pairs: the file is GTF whatever the values contain
                return ctx.violation(case, dict(info, why="a GTF file (quoted key \"value\" pairs) whose values contain %s is not read as "
                                                "GTF: no genes/transcripts derived" % m["odd"], dialect=dict(db.dialect)))
            raise AssertionError("harness: generated file was not read as GTF: %r" % (text[:300],))
        if m.get("odd"):
            ctx.mon("odd ids: files read as GTF")
        got = judge(ctx, case, db, exp, lines, info, m)
        if isinstance(got, dict):
            if m.get("mixed_strands"):
                ctx.mon("mixed strands: imports judged (relations, children/parents)")
            if m.get("dupkeys"):
                observe_dupkeys(ctx, case, m, lines, exp)
            if m.get("rename_shaped"):
                observe_rename_shaped(ctx, case, m, exp)
            if m.get("edge_coords"):
                ctx.mon("coordinate edge: imports judged")
        return got
    finally:
        if db is not None:
            try:
                db.conn.close()
            except Exception:
                pass
        for p in (src, dbfn):
            if p and p != ":memory:" and os.path.exists(p):
                os.unlink(p)
        for v in contracts.drain():
            ctx.violation(case, v)


def judge(ctx, case, db, exp, lines, info, m):
    large = len(lines) > 1000
    oneshot = case.get("how", "path") != "path"
    both = not case["dit"] and not case["dig"]
    dump = dbdump.dump_db(db)
    feats = dump["features"]
    # -- every line is stored once; map lines to stored ids through the marker attribute ----------------------
    by_tag = {}
    untagged = []
    for f in feats:
        tags = [v for k, v in f["attributes"] if k == "tag"] if isinstance(f["attributes"], list) else []
        if tags and tags[0]:
            for t in tags[0]:
                if t in by_tag:
                    return ctx.violation(case, dict(info, why="an input line is stored more than once", tag=t,
                                                    ids=[by_tag[t]["id"], f["id"]]))
                by_tag[t] = f
        else:
            untagged.append(f)
    tag_of = [I.attr(rec, "tag") for rec in lines]       # "L<n>", n = number of the line in the FILE
    want_tags = set(tag_of)
    if set(by_tag) != want_tags:
        missing = sorted(want_tags - set(by_tag), key=lambda t: int(t[1:]))
        own = {tag_of[i]: ident for ident, i in exp["explicit"].items()}
        gone = [own[t] for t in missing if t in own]
        if gone:
            return ctx.violation(case, dict(info, why="a gene/transcript line of the file is no longer stored (not the single feature under its id)",
                                            ids=gone[:10], lines=[int(t[1:]) + 1 for t in missing if t in own][:10],
                                            stored_instead=[{k: f[k] for k in ("id", "source", "featuretype", "start", "end")}
                                                            for f in feats if f["id"] in gone[:3]]))
        return ctx.violation(case, dict(info, why="input lines missing from the database", missing=missing[:20]))
    name2id = {}
    for i, n in enumerate(exp["names"]):
        name2id[n] = by_tag[tag_of[i]]["id"] if n.startswith("@") and n == "@%d" % i else n
    # -- gene/transcript lines of the file: the single feature under their id, columns and attributes kept -------
    strategy = case.get("merge_strategy") if not m.get("dupkeys") else None
    extent = subfeature_extents(lines, m) if strategy is not None else None
    for ident, i in sorted(exp["explicit"].items()):
        rec = lines[i]
        f = by_tag[tag_of[i]]
        ctx.mon("gene/transcript lines of the file compared (single feature, columns, attributes)")
        if strategy is not None:
            # does inference produce a feature of this id that meets the line?  (the id owns subfeature lines, its flag is off)
            k = exp["kind"][ident]
            if ident in extent[k] and not (case["dit"] if k == "transcript" else case["dig"]):
                S = "strategy %s: " % strategy
                ctx.mon(S + "gene/transcript lines meeting a derived feature of their id compared")
                ctx.mon(S + "%s lines meeting a derived feature of their id compared" % k)
                if rec["source"] != "gffutils_derived":
                    ctx.mon(S + "such lines with another source than a derived feature")
                if (int(rec["start"]), int(rec["end"])) != extent[k][ident]:
                    ctx.mon(S + "such lines with other coordinates than the exons' extent")
                if {a for a, _ in rec["attrs"]} - {m["tkey"], m["gkey"], "tag"}:
                    ctx.mon(S + "such lines with attributes no derived feature has")
        if int(tag_of[i][1:]) >= 1000:
            ctx.mon("gene/transcript lines standing after line 1000 compared")
        cols = {"seqid": rec["seqid"], "source": rec["source"], "featuretype": rec["featuretype"], "start": int(rec["start"]),
                "end": int(rec["end"]), "score": rec["score"], "strand": rec["strand"], "frame": rec["frame"]}
        got = {k: f[k] for k in cols}
        if f["id"] != ident:
            return ctx.violation(case, dict(info, why="a %s line of the file is not stored under its id" % exp["kind"][ident],
                                            id=ident, stored_as=f["id"]))
        if got != cols:
            return ctx.violation(case, dict(info, why="a %s line of the file lost its columns" % exp["kind"][ident], id=ident,
                                            got=got, expected=cols))
        if mapping_of(f["attributes"]) != mapping_of(rec["attrs"]):
            return ctx.violation(case, dict(info, why="a %s line of the file lost its attribute mapping" % exp["kind"][ident],
                                            id=ident, got=f["attributes"], expected=rec["attrs"]))
        same_kind = [x["id"] for x in feats if x["featuretype"] == rec["featuretype"] and isinstance(x["attributes"], list)
                     and mapping_of(x["attributes"]).get(m["gkey"] if exp["kind"][ident] == "gene" else m["tkey"]) == [ident]]
        if same_kind != [ident]:
            return ctx.violation(case, dict(info, why="a %s present in the file is stored more than once" % exp["kind"][ident],
                                            id=ident, features=same_kind))
    # -- derived features ---------------------------------------------------------------------------------------
    extra = {f["id"]: f for f in untagged}
    for ident, want in sorted(exp["derived"].items()):
        f = extra.get(ident)
        if f is None:
            return ctx.violation(case, dict(info, why="no derived %s feature for an id that owns subfeatures" % want["featuretype"],
                                            id=ident, expected=want, stored_ids=[x["id"] for x in feats]))
        try:
            g = db[ident]
        except Exception as ex:
            return ctx.violation(case, dict(info, why="db[id] raised %s for a derived feature" % type(ex).__name__, id=ident, error=repr(ex)))
        ctx.mon("db[id] lookups")
        ctx.mon("derived features compared (id, type, seqid, strand)")
        got = {"featuretype": g.featuretype, "seqid": g.seqid, "strand": g.strand, "start": g.start, "end": g.end}
        raw = {k: f[k] for k in got}
        if g.id != ident or got != raw:
            return ctx.violation(case, dict(info, why="db[id] disagrees with the stored row", id=ident, got=got, row=raw))
        keys = ("featuretype", "seqid", "strand", "start", "end") if both else ("featuretype",)
        if want["strand"] is None:
            # exons on both strands: extent, seqid and retrievability are fixed by the statement, the strand is not
            keys = tuple(k for k in keys if k != "strand")
            if both:
                ctx.mon("mixed strands: derived %ss whose exons lie on both strands compared (extent, seqid; strand not judged)"
                        % want["featuretype"])
        elif both and m.get("mixed_strands") and want["featuretype"] == "transcript" and \
                exp["derived"].get(gene_of(lines, m, ident), {"strand": 0})["strand"] is None:
            ctx.mon("mixed strands: derived transcripts with consistent exons under a mixed-strand gene compared (strand judged)")
        if both:
            ctx.mon("derived extents compared")
            if oneshot:
                ctx.mon("one-shot: derived extents compared (all exons)")
        if large:
            ctx.mon("derived features of large files compared")
        if m.get("odd"):
            ctx.mon("odd ids: derived features compared")
        if both and want["seqid"] != want["seqid"].strip():
            ctx.mon("seqid edge: derived features on a seqid with a blank-like edge compared byte for byte")
            if want["seqid"] != want["seqid"].lstrip():
                ctx.mon("seqid edge: derived features on a seqid that STARTS with a blank-like character compared")
            if want["seqid"] != want["seqid"].rstrip():
                ctx.mon("seqid edge: derived features on a seqid that ENDS with a blank-like character compared")
            if oneshot:
                ctx.mon("seqid edge: derived features compared after a one-shot input")
        if both and m.get("edge_coords"):
            E = "coordinate edge: derived "
            if want["start"] in (0, 1):
                ctx.mon(E + "%ss whose smallest exon start is %d compared (exists, db[id], extent)" % (want["featuretype"], want["start"]))
            if want["end"] > (1 << 31):
                ctx.mon(E + "features ending beyond 2**31 compared (exists, db[id], extent)")
            if oneshot:
                ctx.mon(E + "features compared after a one-shot input")
        if m.get("shared"):
            if ident in m["shared"] and both:
                ctx.mon("shared transcript id: derived transcripts spanning the exons of >= 2 genes compared")
            elif want["featuretype"] == "gene" and ident in shared_only(m):
                ctx.mon("shared transcript id: derived genes all of whose exons belong to a shared transcript compared")
        bad = {k: (got[k], want[k]) for k in keys if got[k] != want[k]}
        if bad:
            what = "extent" if set(bad) <= {"start", "end"} else "/".join(sorted(bad))
            return ctx.violation(case, dict(info, why="derived %s has a wrong %s" % (want["featuretype"], what), id=ident,
                                            **{"diff(got,expected)": bad}))
    for ident in sorted(exp["suppressed"]):
        ctx.mon("suppressed derived features confirmed absent")
        if ident in extra or any(f["id"] == ident for f in feats):
            return ctx.violation(case, dict(info, why="a disable_infer_* flag did not suppress the derived feature", id=ident))
    allowed = set(exp["derived"]) | exp["optional"]
    unexpected = sorted(set(extra) - allowed)
    if unexpected:
        return ctx.violation(case, dict(info, why="features that are neither input lines nor expected derived features",
                                        ids=unexpected, rows=[extra[i] for i in unexpected][:4]))
    if exp["optional"] & set(extra):
        ctx.mon("features for ids without subfeatures (tolerated)")
    # -- relations ------------------------------------------------------------------------------------------------
    triples = {(name2id[p] if p in name2id else p, name2id[c] if c in name2id else c, lv) for p, c, lv in exp["triples"]}
    rows = [tuple(r) for r in dump["relations"]]
    ctx.mon("relation rows compared", len(rows))
    if m.get("shared"):
        ctx.mon("shared transcript id: (gene, transcript, 1) rows of a transcript annotated under >= 2 genes expected",
                sum(1 for p_, c_, lv in triples if lv == 1 and c_ in m["shared"]))
    if set(rows) != triples or len(rows) != len(set(rows)):
        selfrel = [r for r in rows if r[0] == r[1]]
        return ctx.violation(case, dict(info, why="self relation stored" if selfrel else "relations differ from the three-level hierarchy",
                                        missing=sorted(triples - set(rows))[:10], unexpected=sorted(set(rows) - triples)[:10]))
    # -- children()/parents() at every level ---------------------------------------------------------------------
    stored = [f["id"] for f in feats]
    rel = H.Relatives(triples, stored)
    types = {f["id"]: f["featuretype"] for f in feats}
    asked = stored
    if large:
        # all gene/transcript lines of the file and about every 40th stored feature (relations were compared completely)
        asked = sorted(set(exp["explicit"]) & set(stored)) + stored[::max(1, len(stored) // 60)]
        asked = list(dict.fromkeys(asked))
    for x in asked:
        for level in LEVELS:
            for name, fn, model in (("children", db.children, rel.children), ("parents", db.parents, rel.parents)):
                try:
                    ids = sorted(f.id for f in fn(x, level=level))
                except Exception as ex:
                    return ctx.violation(case, dict(info, why="%s(level=%r) raised %s" % (name, level, type(ex).__name__), x=x, error=repr(ex)))
                ctx.mon("children()/parents() calls compared with the model")
                want = sorted(model(x, level))
                if ids != want or x in ids:
                    why = "%s(x, level=%r) contains x itself" % (name, level) if x in ids else \
                        "%s(x, level=%r) differs from the three-level hierarchy" % (name, level)
                    return ctx.violation(case, dict(info, why=why, x=x, got=ids, expected=want))
                if want:
                    ctx.mon("non-empty relative sets compared")
        # the subfeature filter on children of a gene/transcript
        if types[x] in ("gene", "transcript"):
            ids = sorted(f.id for f in db.children(x, featuretype=m["subfeature"]))
            want = sorted(y for y in rel.children(x) if types[y] == m["subfeature"])
            ctx.mon("children(featuretype=subfeature) calls compared")
            if ids != want:
                return ctx.violation(case, dict(info, why="children(x, featuretype=subfeature) differs from the model", x=x,
                                                got=ids, expected=want))
    ctx.mon("sql: INSERT INTO features traced", sqltrace.kinds().get("INSERT INTO features", 0))
    # what was stored, lines named by their position in the unshuffled model (for comparisons between line orders)
    perm = m.get("perm") or list(range(len(lines)))
    canon = {by_tag[tag_of[j]]["id"]: "B%d" % i for j, i in enumerate(perm)}
    return {"derived": sorted([f["id"], f["featuretype"], f["seqid"], f["strand"], f["start"], f["end"]] for f in untagged),
            "relations": sorted([canon.get(p_, p_), canon.get(c_, c_), lv] for p_, c_, lv in rows)}


def gene_of(lines, m, tid):
    for rec in lines:
        if rec["featuretype"] == m["subfeature"] and I.attr(rec, m["tkey"]) == tid:
            return I.attr(rec, m["gkey"])
    return None


def observe_dupkeys(ctx, case, m, lines, exp):
    """Monitors of the 'one key, several lines' class after an import that agreed with the model."""
    s = case["merge_strategy"]
    custom = (m["tkey"], m["gkey"]) != ("transcript_id", "gene_id")
    both = not case["dit"] and not case["dig"]
    ctx.mon("one key, several lines: imports with merge_strategy=%r and %s keys judged" % (s, "custom" if custom else "default"))
    stored = {I.attr(rec, "tag") for rec in lines}
    all_lines = {I.attr(rec, "tag"): rec for rec in m["lines"]}
    for grp in m["dupkeys"]["groups"]:
        ctx.mon("one key, several lines (%s): lines sharing their primary key with a line of another transcript" % s, len(grp))
        kept = [t for t in grp if t in stored]
        gone = [t for t in grp if t not in stored]
        if s in ("replace", "warning"):
            ctx.mon("one key, several lines (%s): %s lines (not stored; their links expected absent)"
                    % (s, "replaced" if s == "replace" else "skipped"), len(gone))
            tk = I.attr(all_lines[kept[0]], m["tkey"])
            for t in gone:
                t2, g2 = I.attr(all_lines[t], m["tkey"]), I.attr(all_lines[t], m["gkey"])
                if s == "replace" and custom and t2 != tk:
                    ctx.mon("one key, several lines (replace): replaced lines naming another transcript than the stored line, custom keys")
                if s == "replace" and both:
                    ctx.mon("one key, several lines (replace): derived extents compared of transcripts/genes that lost a line to replacement",
                            sum(1 for i in (t2, g2) if i in exp["derived"]))
        elif s == "merge":
            if len({I.attr(all_lines[t], m["tkey"]) for t in grp}) >= 2:
                ctx.mon("one key, several lines (merge): stored features carrying >= 2 transcript ids, child of each")


def observe_rename_shaped(ctx, case, m, exp):
    """Monitors of the 'ids shaped like collision-renames' class for one import that agreed with the model."""
    R = "rename-shaped ids: "
    ctx.mon(R + "imports judged")
    genes = {g for g, k in exp["kind"].items() if k == "gene"}
    for t in m["rename_shaped"]["transcripts"]:
        g = t.rsplit("_", 1)[0]
        if g in genes:
            ctx.mon(R + "gene lines 'X' with a transcript named 'X_<k>' in the file compared (single feature, own columns)")
            if t in exp["derived"]:
                ctx.mon(R + "derived transcripts named 'X_<k>' beside a gene line 'X' compared (type, extent)")
                if not case["dig"]:
                    ctx.mon(R + "derived transcripts 'X_<k>' compared in an import where inference also met the gene line 'X'")
                    if I.attr(m["lines"][exp["explicit"][g]], "tag") is not None and m["lines"][exp["explicit"][g]]["source"] != "gffutils_derived":
                        ctx.mon(R + "such imports where the gene line differs from a derived gene (another source)")
    for g in m["rename_shaped"]["genes"]:
        t = g.rsplit("_", 1)[0]
        if exp["kind"].get(t) == "transcript":
            ctx.mon(R + "transcript lines 'T' beside a gene named 'T_1' compared (single feature, own columns)")
            if g in exp["derived"]:
                ctx.mon(R + "derived genes named 'T_1' beside a transcript line 'T' compared (type, extent)")


def subfeature_extents(lines, m):
    """{"transcript": {id: (min start, max end) of its subfeature lines}, "gene": {...}}: the ids inference derives a feature for."""
    out = {"transcript": {}, "gene": {}}
    for rec in lines:
        if rec["featuretype"] == m["subfeature"]:
            for k, key in (("transcript", m["tkey"]), ("gene", m["gkey"])):
                ident = I.attr(rec, key)
                if ident is not None:
                    s, e = out[k].get(ident, (int(rec["start"]), int(rec["end"])))
                    out[k][ident] = (min(s, int(rec["start"])), max(e, int(rec["end"])))
    return out


def shared_only(m):
    """Gene ids all of whose subfeature lines carry a shared transcript id."""
    own = {}
    for rec in m["lines"]:
        if rec["featuretype"] == m["subfeature"]:
            own.setdefault(I.attr(rec, m["gkey"]), []).append(I.attr(rec, m["tkey"]) in m["shared"])
    return {g for g, v in own.items() if all(v)}


def classify(ctx, case, m=None):
    m = m or model_of(case)
    lines = m["lines"]
    tkey, gkey, sub = m["tkey"], m["gkey"], m["subfeature"]
    ctx.classes[FLAG_NAMES[(bool(case["dit"]), bool(case["dig"]))]] += 1
    tx_of_gene, subs, has_t = {}, {}, set()
    explicit = False
    for rec in lines:
        t, g = I.attr(rec, tkey), I.attr(rec, gkey)
        if rec["featuretype"] in ("gene", "transcript"):
            explicit = True
        if t is not None:
            has_t.add(t)
            tx_of_gene.setdefault(g, set()).add(t)
            if rec["featuretype"] == sub:
                subs[t] = subs.get(t, 0) + 1
    names = ["file: gene/transcript lines present" if explicit else "file: no gene/transcript lines",
             "keys: default" if (tkey, gkey) == ("transcript_id", "gene_id") else "keys: custom",
             "subfeature: custom" if sub != "exon" else "subfeature: exon", "shuffle: " + m.get("shuffle", "?")]
    if m.get("derived_like"):
        names.append("file: explicit lines look derived (merge path)")
    if has_t - set(subs):
        names.append("file: transcript without exons")
    if m.get("where"):
        names.append(LARGE_CLASS[m["where"]])
    if m.get("odd"):
        names.append("odd ids: " + m["odd"])
    if case.get("how", "path") != "path":
        names += ["input: %s of Features" % case["how"], "one-shot: checklines=%d" % case["checklines"]]
    for where, blank in m.get("edge_seqids") or ():
        names += ["seqid edge: " + where, "seqid edge: " + blank]
    if m.get("shared"):
        names.append("shared transcript id: under %d gene ids" % max(len(v) for v in m["shared"].values()))
    if case.get("merge_strategy") is not None:
        names.append("strategy: merge_strategy=%r" % (case["merge_strategy"],))
        names.append("strategy: explicit lines look derived" if m.get("derived_like") else "strategy: explicit lines differ from inference")
        names += ["strategy: explicit lines differ in: " + d for d in m.get("differing") or ()]
    for mode in m.get("mixed_strands") or ():
        names.append("mixed strands: " + mode)
    names += ["coordinate edge: " + n for n in m.get("edge_coords") or ()]
    if m.get("rename_shaped"):
        if m["rename_shaped"]["transcripts"]:
            names.append("rename-shaped ids: transcripts 'X_1', 'X_2' of a gene line 'X'")
        if m["rename_shaped"]["genes"]:
            names.append("rename-shaped ids: gene 'T_1' of a transcript line 'T'")
    if m.get("dupkeys"):
        names.append("one key, several lines: keys " + ("default" if (tkey, gkey) == ("transcript_id", "gene_id") else "custom"))
        names.append("one key, several lines: merge_strategy=%r" % (case["merge_strategy"],))
        if not m["dupkeys"]["same_columns"]:
            names.append("one key, several lines: the lines of a key differ in coordinates")
        tagged = {I.attr(rec, "tag"): rec for rec in lines}
        if any(len({I.attr(tagged[t], gkey) for t in grp}) >= 2 for grp in m["dupkeys"]["groups"]):
            names.append("one key, several lines: a key shared by transcripts of two genes")
        names = [n for n in names if not n.startswith("strategy: ")]
    for n in names:
        ctx.classes[n] += 1
    return any(len(v) >= 2 for v in tx_of_gene.values()) and any(n >= 2 for n in subs.values())


def one(ctx, case, m):
    execute(ctx, case)
    nontrivial = classify(ctx, case, m)
    text = G.text_of(m)
    ctx.case((text, m["tkey"], m["gkey"], m["subfeature"], case["dit"], case["dig"], case.get("how"), case.get("checklines"),
              repr(case.get("perms")), case.get("merge_strategy")), nontrivial,
             sample={"kind": case["kind"], "flags": [case["dit"], case["dig"]], "keys": [m["tkey"], m["gkey"], m["subfeature"]],
                     "input": case.get("how", "path"), "merge_strategy": case.get("merge_strategy"), "text": text[:800]})


def run(ctx):
    rng = ctx.rng
    quick = ctx.tier == "quick"
    # -- (large) a few files of 1100-2500 lines per run: every shard takes the placements in turn ----------------
    nlarge = 1 if quick else 4
    for k in range(nlarge):
        where = G.WHERE[(ctx.shard + k) % len(G.WHERE)]
        gen = {"seed": rng.randrange(1 << 30), "where": where}
        if quick:
            gen["nlines"] = rng.choice([1100, 1300, 1700])
        combos = [(False, False)] if quick else [(False, False), (True, False), (False, True), (True, True)]
        for dit, dig in combos:
            case = {"kind": "gtf-large", "gen": gen, "dit": dit, "dig": dig, "db": "file" if k % 2 else "memory"}
            one(ctx, case, model_of(case))
    # -- (odd ids) and (one-shot) -----------------------------------------------------------------------------------
    odd_kinds = sorted(G.ODD_IDS)
    for i in range(ctx.budget(64, 1600)):
        m = G.model(rng, odd=odd_kinds[(i + ctx.shard) % len(odd_kinds)])
        for dit, dig in ([(False, False)] if i % 3 else list(FLAG_NAMES)):
            one(ctx, {"kind": "gtf-odd", "model": m, "dit": dit, "dig": dig, "db": "memory"}, m)
    for i in range(ctx.budget(72, 1800)):
        cl = (0, 1, 10)[(i + ctx.shard) % 3]
        m = G.model(rng, ngenes=rng.choice([2, 3, 4, 6]) + (2 if cl == 10 else 0), odd=rng.choice(odd_kinds) if rng.random() < 0.2 else None)
        if len(m["lines"]) <= cl + 2:
            ctx.skip("one-shot: drawn file has no more than checklines+2 lines")
            continue
        how = ("generator", "iterator")[(i // 3 + ctx.shard) % 2]
        combos = [(False, False)] + ([rng.choice([(True, False), (False, True), (True, True)])] if rng.random() < 0.25 else [])
        for dit, dig in combos:
            one(ctx, {"kind": "gtf-oneshot", "model": m, "how": how, "checklines": cl, "dit": dit, "dig": dig,
                      "db": "file" if rng.random() < 0.15 else "memory"}, m)
    # -- (edge seqids) seqids that start / end with a blank-like character ----------------------------------------------
    for i in range(ctx.budget(130, 3000)):
        m = G.model(rng, odd=rng.choice(odd_kinds) if rng.random() < 0.1 else None)
        G.make_edge_seqids(rng, m)
        if i % 4 == 0:
            cl = (0, 1, 10)[(i // 4) % 3]
            if len(m["lines"]) > cl + 2:
                one(ctx, {"kind": "gtf-oneshot", "model": m, "how": ("generator", "iterator")[(i // 12) % 2], "checklines": cl,
                          "dit": False, "dig": False, "db": "memory"}, m)
                continue
        for dit, dig in ([(False, False)] if i % 3 else list(FLAG_NAMES)):
            one(ctx, {"kind": "gtf", "model": m, "dit": dit, "dig": dig, "db": "file" if rng.random() < 0.15 else "memory"}, m)
    # -- (shared transcript id) one transcript id under 2-3 gene ids, every file under several line orders ----------------
    for i in range(ctx.budget(80, 2000)):
        m = G.shared_model(rng)
        n = len(m["lines"])
        perms = [list(range(n)), list(range(n - 1, -1, -1))]
        for _ in range(2):
            p = list(range(n))
            rng.shuffle(p)
            perms.append(p)
        rng.shuffle(perms)
        for dit, dig in ([(False, False)] if i % 3 else list(FLAG_NAMES)):
            one(ctx, {"kind": "gtf-shared", "model": m, "perms": perms, "dit": dit, "dig": dig, "db": "memory"}, m)
    # -- the basic workload --------------------------------------------------------------------------------------------
    for _ in range(ctx.budget(600, 16000)):
        m = G.model(rng)
        dbkind = "file" if rng.random() < 0.15 else "memory"
        for dit in (False, True):
            for dig in (False, True):
                one(ctx, {"kind": "gtf", "model": m, "dit": dit, "dig": dig, "db": dbkind}, m)
    # -- (merge strategy) files without duplicated ids whose own gene/transcript lines differ from what inference derives --
    for i in range(ctx.budget(40, 1000)):
        for _ in range(20):
            m = G.model(rng, explicit="derived-like" if i % 5 == 4 else "differing")
            if I.expect(m["lines"], m["tkey"], m["gkey"], m["subfeature"])["explicit"]:
                break
        else:
            ctx.skip("merge strategy: no file with a gene/transcript line drawn")
            continue
        dbkind = "file" if rng.random() < 0.15 else "memory"
        for strategy in G.MERGE_STRATEGIES:
            for dit, dig in FLAG_NAMES:
                one(ctx, {"kind": "gtf-strategy", "model": m, "merge_strategy": strategy, "dit": dit, "dig": dig, "db": dbkind}, m)
    # -- (mixed strands) exons of one gene / transcript on both strands of one seqid -------------------------------------
    for i in range(ctx.budget(60, 1500)):
        for _ in range(20):
            m = G.model(rng, ngenes=rng.choice([1, 2, 3]))
            if G.make_mixed_strands(rng, m):
                break
        else:
            ctx.skip("mixed strands: no gene with two exon-bearing transcripts / transcript with two exons drawn")
            continue
        dbkind = "file" if rng.random() < 0.15 else "memory"
        for dit, dig in ([(False, False)] if i % 2 else list(FLAG_NAMES)):
            one(ctx, {"kind": "gtf-mixed-strand", "model": m, "dit": dit, "dig": dig, "db": dbkind}, m)
    # -- (one primary key, several lines) a shared exon_id under different transcripts x merge_strategy, custom keys in 2 of 3 ----
    for i in range(ctx.budget(36, 900)):
        same = i % 4 != 0
        for _ in range(40):
            m = G.model(rng, ngenes=rng.choice([1, 2, 2, 3]))
            if (i % 3 != 0) != ((m["tkey"], m["gkey"]) != ("transcript_id", "gene_id")):
                continue
            if G.make_dupkeys(rng, m, same_columns=same):
                break
        else:
            ctx.skip("one key, several lines: no file with two suitable transcripts drawn")
            continue
        for strategy in G.DUP_STRATEGIES:
            if strategy == "merge" and not same:
                continue      # lines that differ in their columns are not merged (what happens then is C-other's business)
            for dit, dig in ([(False, False)] if (i // 2) % 2 else list(FLAG_NAMES)):
                one(ctx, {"kind": "gtf-dupkeys", "model": m, "merge_strategy": strategy, "dit": dit, "dig": dig, "db": "memory"}, m)
    # -- (ids shaped like collision-renames) gene line 'X' with transcripts 'X_1', 'X_2'; transcript line 'T' under gene 'T_1' ---
    for i in range(ctx.budget(48, 1200)):
        for _ in range(40):
            m = G.model(rng, ngenes=rng.choice([1, 2, 2, 3]), explicit=("differing", "differing", None, "derived-like")[i % 4])
            if G.make_rename_shaped(rng, m):
                break
        else:
            ctx.skip("rename-shaped ids: no file with a gene/transcript line drawn")
            continue
        dbkind = "file" if rng.random() < 0.15 else "memory"
        strategy = None if i % 3 else rng.choice(G.MERGE_STRATEGIES)
        for dit, dig in ([(False, False)] if i % 2 else list(FLAG_NAMES)):
            case = {"kind": "gtf-renamelike", "model": m, "dit": dit, "dig": dig, "db": dbkind}
            if strategy is not None:
                case["merge_strategy"] = strategy
            one(ctx, case, m)
    # -- (coordinates at the edges of the range) smallest exon start 0 / 1; genes beyond 2**29, 2**31, 2**40 ----------------------
    for i in range(ctx.budget(120, 3000)):
        for _ in range(20):
            m = G.model(rng, ngenes=rng.choice([1, 2, 2, 3]), explicit=(None, None, "derived-like", "differing")[i % 4])
            if make_edge_coords(rng, m):
                break
        else:
            ctx.skip("coordinate edge: no gene with an exon line drawn")
            continue
        if i % 4 == 1:
            cl = (0, 1, 10)[(i // 4) % 3]
            if len(m["lines"]) > cl + 2:
                one(ctx, {"kind": "gtf-edge-coords", "model": m, "how": ("generator", "iterator")[(i // 12) % 2], "checklines": cl,
                          "dit": False, "dig": False, "db": "memory"}, m)
                continue
        dbkind = "file" if rng.random() < 0.15 else "memory"
        for dit, dig in ([(False, False)] if i % 3 else list(FLAG_NAMES)):
            one(ctx, {"kind": "gtf-edge-coords", "model": m, "dit": dit, "dig": dig, "db": dbkind}, m)
    ctx.mon("bins.bins contract evaluations", contracts.EVALS["bins.bins"])


MANIFEST = {
    "technique": "generated GTF gene models x 4 flag combinations -> real create_db; derived features and relations vs reference model",
    "text": "Each generated GTF file is imported by the real create_db under all four disable_infer_* combinations. A reference "
            "model computes, from the lines alone, the derived transcript/gene features that must exist (id, type, seqid, "
            "strand, [min start, max end] of the subfeature lines), those a flag must suppress, and the exact set of relation "
            "triples; the database is compared through db[id], children()/parents() at levels 1, 2 and None, and an "
            "independent sqlite3 read of features and relations. Gene/transcript lines of the file must stay the single "
            "feature of their id with their columns and attributes. The same oracle runs on files of 1100-2500 lines "
            "(own gene/transcript lines only after line 1000, only early, on both sides), on files whose ids and values "
            "contain 'word=', '%41'-like sequences, blanks and non-ASCII letters (still GTF: genes/transcripts must be "
            "derived), and on the file given as a one-shot generator/iterator of Features with checklines 0, 1, 10 (the "
            "extents must be those of all exons), on files whose seqids start or end with blank-like characters (derived features on "
            "exactly the exons' seqid), and on files in which one transcript id is annotated under two or three gene ids: each "
            "such file is imported under four line orders, every import is compared with the model (one gene per gene id over "
            "ITS exons, one transcript over all exons of the id, the transcript a level-1 child of each of its genes) and the "
            "stored derived features and relations of all orders must coincide. A last class passes merge_strategy = 'error', "
            "'merge', 'replace', 'create_unique', 'warning' (x four flag combinations) for files without duplicated ids whose own "
            "gene/transcript lines differ from what inference derives (other source, wider coordinates, extra attributes) or "
            "look exactly like it: the line must remain the single feature under its id with its own columns and attributes. "
            "Two more classes: genes/transcripts whose exons lie on both strands of one seqid (antisense transcript under one gene "
            "id, trans-spliced transcript) - extent over ALL exons, seqid, retrievability and hierarchy judged, strand only where "
            "the exons agree; and files in which several exon lines under different transcripts get ONE primary key (shared "
            "exon_id, id_spec {gene, transcript, exon: 'exon_id'}, custom gtf keys in 2 of 3) imported with merge_strategy "
            "'replace' / 'warning' / 'merge' / 'create_unique': the model is computed over the lines that are stored features "
            "(last / first / all merged into one / all), so a replaced line's links must be gone and its transcript must no longer span it. "
            "A further class names the transcripts of a gene that has a gene line 'X' X_1, X_2, ... (and a gene T_1 beside a "
            "transcript line T): ids shaped like collision renames are ordinary ids; lines keep columns and attributes, derived features their type and extent. "
            "Last, whole genes are moved to the edges of the coordinate axis (smallest exon start 0 or 1, every transcript starting "
            "there, single-base first exon; genes straddling or beyond 2**29, 2**31, 2**40): derived features must exist and span min start .. max end as anywhere else. "
            "Held = no executed import disagreed.",
    "note": "Trusted: gvmon/models/gtfinfer.py, gvmon/models/hierarchy.py. Not judged: extents under a set flag, the strand of a "
            "derived feature whose exons lie on both strands, attributes of "
            "derived features, features for ids that own no subfeature. Not generated: a shared transcript id whose genes differ in "
            "seqid/strand, or one of whose genes owns no subfeature line (create_db raises TypeError there when genes are inferred).",
}
