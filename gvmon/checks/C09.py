"""
C09  Dialect inference recovers the dialect the input was written in.

Reference observer/voter (gvmon/models/dialect.py, written from the statement) vs the dialect reported by the real
DataIterator, FeatureDB (also reopened) and helpers.infer_dialect; routing is observed semantically on the database.
"""
import os

from gvmon import dbdump
from gvmon.gen import files as F
from gvmon.gen import records as R
from gvmon.models import dialect as M
from gvmon.monitors import contracts

RULE = ("(1) uniform-regime files in each of 48 dialect points (four key/value styles x separators x trailing x repeated) x checklines {0,1,2,5,10,50}: reported dialect == written "
        "dialect at DataIterator / FeatureDB / reopened FeatureDB, per-line helpers.infer_dialect == exhibited dialect; "
        "(2) routing files (gene/mRNA/exon with Parent, or GTF exons) in every dialect point; (3) mixtures: files whose "
        "lines carry two values of one dialect key with generated attribute-count weights incl. exact ties in both orders "
        "-> reference weighted vote (skipped when the checklines and checklines+1 window conventions disagree); (3a) the same mixtures "
        "followed by further feature lines beyond the window and with directive / comment / blank lines in front of and between the "
        "feature lines (the window counts feature lines only), file and from_string; "
        "(4) supplied dialects (trailing/repeated/order variations) used verbatim for reporting and printing; "
        "non-trivial = >= 3 lines (1,4) / both values present in the window (3); distinct by file text + checklines")
REQUIRED = ["library default dialect compared after a case", "sources sharing a dialect dictionary used as data: dialects compared afterwards",
            "repeated keys whose earlier occurrences are empty: dialects compared", "dialect compared after an update written in another spelling", "uniform files with a bare ';' inside quoted values", "uniform files: dialect compared", "infer_dialect strings compared", "routing observed: gtf", "routing observed: gff",
            "mixtures decided by vote", "mixtures with exact tie",
            "mixtures with non-feature lines before/between the inspected features", "mixtures with non-feature lines: feature lines beyond the window present", "supplied dialects compared", "re-ordered feature lists compared",
            "supplied format decides the import semantics (iterator data)"]
ASSUMPTIONS = [
    "per-line exhibited dialect as defined by gvmon/models/dialect.observed (a feature a line cannot exhibit votes for the default)",
    "the inspected window is either the first `checklines` or the first `checklines`+1 feature lines; a mixture on which "
    "the two conventions give different votes is skipped (counted)",
    "for mixtures only the reported dialect is judged, not how lines written in the losing dialect are then parsed",
]
QUICK_SHARDS = 4
CKS = [0, 1, 2, 5, 10, 50]


_DEFAULTS = {}


def setup(ctx):
    import copy
    from gffutils import constants
    contracts.install_all()
    # the library's default dialect is data, not state: inference over any input leaves it as it was
    _DEFAULTS["dialect"] = copy.deepcopy(constants.dialect)


def defaults_untouched(ctx, case):
    import copy
    from gffutils import constants
    ctx.mon("library default dialect compared after a case")
    if constants.dialect != _DEFAULTS["dialect"]:
        now = copy.deepcopy(constants.dialect)
        constants.dialect.clear()
        constants.dialect.update(copy.deepcopy(_DEFAULTS["dialect"]))
        ctx.violation(case, {"why": "inference changed the library's default dialect (constants.dialect) for the rest of the process",
                             "before": _DEFAULTS["dialect"], "after": now})


def diff_dialect(got, exp, order=True):
    got = dict(got)
    return {k: (got.get(k), exp[k]) for k in exp if (k != "order" or order) and got.get(k) != exp[k]}


def write(ctx, text):
    p = ctx.tmp(".gff")
    with open(p, "w", encoding="utf-8", newline="") as fh:
        fh.write(text)
    return p


def execute(ctx, case):
    kind = case["kind"]
    try:
        if kind == "uniform":
            uniform(ctx, case)
        elif kind == "routing":
            routing(ctx, case)
        elif kind == "mixture":
            mixture(ctx, case)
        elif kind == "after_update":
            after_update(ctx, case)
        elif kind == "repeated_empty":
            repeated_empty(ctx, case)
        elif kind == "supplied":
            supplied(ctx, case)
        elif kind == "string":
            one_string(ctx, case)
        elif kind == "featlist":
            featlist(ctx, case)
        elif kind == "routing_supplied":
            routing_supplied(ctx, case)
        elif kind == "shared_dialects":
            shared_dialects(ctx, case)
    finally:
        defaults_untouched(ctx, case)
        for v in contracts.drain():
            ctx.violation(case, v)


def one_string(ctx, case):
    from gffutils import helpers

    D, attrs = case["D"], case["attrs"]
    s = M.render_attrs(attrs, D)
    exp = M.observed(attrs, D)
    try:
        got = helpers.infer_dialect(s)
    except Exception as ex:
        ctx.violation(case, {"why": "infer_dialect raised %r" % (ex,), "string": s})
        return
    ctx.mon("infer_dialect strings compared")
    bad = diff_dialect(got, exp, order=False)
    seen = []
    for k in got.get("order", []):
        if k not in seen:
            seen.append(k)
    if seen != exp["order"]:
        bad["order"] = (got.get("order"), exp["order"])
    if bad:
        ctx.violation(case, {"why": "helpers.infer_dialect differs from the exhibited dialect", "string": s, "diff(got,expected)": bad})


def uniform(ctx, case):
    import gffutils
    from gffutils.iterators import DataIterator

    D, items, ck = case["D"], case["items"], case["checklines"]
    recs = [it["rec"] for it in items if it["t"] == "feat"]
    text = F.text_of(items, D)
    exp = M.gffutils_dialect(D, [k for k, _ in recs[0]["attrs"]])
    src = write(ctx, text)
    dbfn = ctx.tmp(".db")
    try:
        it = DataIterator(src, checklines=ck)
        ctx.mon("uniform files: dialect compared")
        bad = diff_dialect(it.dialect, exp)
        if bad:
            ctx.violation(case, {"why": "DataIterator.dialect differs from the written dialect", "diff(got,expected)": bad, "text": text})
            return
        for f in it:
            bd = diff_dialect(f.dialect, exp)
            if bd:
                ctx.violation(case, {"why": "a yielded feature does not carry the file's dialect", "diff(got,expected)": bd, "text": text})
                return
        its = DataIterator(text, checklines=ck, from_string=True)
        bad = diff_dialect(its.dialect, exp)
        if bad:
            ctx.violation(case, {"why": "DataIterator(from_string).dialect differs from the written dialect", "diff(got,expected)": bad, "text": text})
            return
        try:
            db = gffutils.create_db(src, dbfn, checklines=ck, merge_strategy="create_unique")
        except Exception as ex:
            ctx.violation(case, {"why": "create_db raised %r" % (ex,), "text": text})
            return
        bad = diff_dialect(db.dialect, exp)
        feats = list(db.all_features())
        derived = [f for f in feats if f.source == "gffutils_derived"]
        db.conn.close()
        if bad:
            ctx.violation(case, {"why": "FeatureDB.dialect differs from the written dialect", "diff(got,expected)": bad, "text": text})
            return
        db2 = gffutils.FeatureDB(dbfn)
        bad = diff_dialect(db2.dialect, exp)
        db2.conn.close()
        raw = dbdump.dump(dbfn)["meta"][0][0]
        rawd = dict((k, v) for k, v in raw) if isinstance(raw, list) else {}
        if bad or diff_dialect(rawd, exp):
            ctx.violation(case, {"why": "dialect differs after reopening", "diff(got,expected)": bad or diff_dialect(rawd, exp), "text": text})
            return
        # the format decides the import semantics
        if D["fmt"] == "gtf":
            has_exon = any(r["featuretype"] == "exon" for r in recs)
            if has_exon and not derived:
                ctx.violation(case, {"why": "GTF-dialect file imported without GTF semantics (no derived features)", "text": text})
        elif derived:
            ctx.violation(case, {"why": "GFF-dialect file imported with GTF semantics (derived features present)", "text": text})
    finally:
        for p in (src, dbfn):
            if os.path.exists(p):
                os.unlink(p)


def after_update(ctx, case):
    """The dialect a database reports is the dialect of the input it was created from - also after features written in
    another spelling were added through update() and the file was opened again."""
    import gffutils

    D, D2, items, items2 = case["D"], case["D2"], case["items"], case["items2"]
    recs = [it["rec"] for it in items if it["t"] == "feat"]
    text, text2 = F.text_of(items, D), F.text_of(items2, D2)
    exp = M.gffutils_dialect(D, [k for k, _ in recs[0]["attrs"]])
    dbfn = ctx.tmp(".db")
    try:
        try:
            db = gffutils.create_db(text, dbfn, from_string=True, merge_strategy="create_unique")
            if diff_dialect(db.dialect, exp):
                ctx.skip("after_update: the base import does not report the written dialect (judged by the uniform class)")
                return
            how = case["how"]
            if how == "string":
                db.update(text2, from_string=True, merge_strategy="create_unique", make_backup=False)
            elif how == "path":
                p = write(ctx, text2)
                try:
                    db.update(p, merge_strategy="create_unique", make_backup=False)
                finally:
                    os.unlink(p)
            else:
                from gffutils.iterators import DataIterator
                db.update(DataIterator(text2, from_string=True), merge_strategy="create_unique", make_backup=False)
        except Exception as ex:
            ctx.skip("after_update: create/update raised %s (only the reported dialect is judged here)" % type(ex).__name__)
            return
        ctx.mon("dialect compared after an update written in another spelling")
        bad = diff_dialect(db.dialect, exp)
        db.conn.close()
        if bad:
            ctx.violation(case, {"why": "the updating handle's dialect changed through update()", "diff(got,expected)": bad, "text": text, "update": text2})
            return
        db2 = gffutils.FeatureDB(dbfn)
        bad = diff_dialect(db2.dialect, exp)
        db2.conn.close()
        if bad:
            ctx.violation(case, {"why": "after update() with input in another spelling and reopening, FeatureDB.dialect is no longer "
                                        "the dialect of the input the database was created from", "diff(got,expected)": bad,
                                 "text": text, "update": text2, "how": case["how"]})
    finally:
        for p in (dbfn, dbfn + ".bak"):
            if os.path.exists(p):
                os.unlink(p)


def repeated_empty(ctx, case):
    """A key that occurs more than once IS the repeated-keys spelling, also when its earlier occurrences carry no value
    (tag ""; tag "basic" - which is what a repeated-keys dialect writes for ['', 'basic'] - or Note;Note=curated)."""
    from gffutils import helpers
    from gffutils.feature import feature_from_line
    from gffutils.iterators import DataIterator

    a = case["attrs_text"]
    try:
        d1 = helpers.infer_dialect(a)
        f = feature_from_line("chr1\t.\tgene\t1\t2\t.\t+\t.\t" + a)
        text = "".join("chr1\t.\tgene\t%d\t%d\t.\t+\t.\t%s\n" % (10 * i + 1, 10 * i + 5, a) for i in range(case["n"]))
        it = DataIterator(text, from_string=True, checklines=case["checklines"])
        list(it)
    except Exception as ex:
        ctx.violation(case, {"why": "inference raised %r" % (ex,), "attributes": a})
        return
    ctx.mon("repeated keys whose earlier occurrences are empty: dialects compared")
    got = {"infer_dialect": d1["repeated keys"], "feature_from_line": f.dialect["repeated keys"], "DataIterator": it.dialect["repeated keys"]}
    if not all(v is True for v in got.values()):
        ctx.violation(case, {"why": "a key written several times (earlier occurrences without a value) is not reported as repeated keys",
                             "attributes": a, "repeated keys as reported": got})


def routing(ctx, case):
    import gffutils

    D = case["D"]
    cols = lambda t, s, e: {"seqid": "chr1", "source": "src", "featuretype": t, "start": str(s), "end": str(e),
                            "score": ".", "strand": "+", "frame": "."}
    if D["fmt"] == "gtf":
        recs = []
        for (s, e) in ((100, 200), (300, 400)):
            r = cols("exon", s, e)
            r["attrs"] = [["gene_id", ["G1"]], ["transcript_id", ["T1"]], ["tag", ["a", "b"]]]
            recs.append(r)
    else:
        g = cols("gene", 100, 400); g["attrs"] = [["ID", ["g1"]], ["Name", ["n"]], ["Alias", ["a", "b"]]]
        m = cols("mRNA", 100, 400); m["attrs"] = [["ID", ["m1"]], ["Parent", ["g1"]], ["Alias", ["a", "b"]]]
        e = cols("exon", 100, 200); e["attrs"] = [["ID", ["e1"]], ["Parent", ["m1"]], ["Alias", ["a", "b"]]]
        recs = [g, m, e]
    for r in recs:
        r["extra"] = []
    text = "\n".join(M.render_line(r, D) for r in recs) + "\n"
    try:
        db = gffutils.create_db(text, ":memory:", from_string=True, checklines=case["checklines"])
    except Exception as ex:
        ctx.violation(case, {"why": "create_db raised %r" % (ex,), "text": text})
        return
    d = dbdump.dump_db(db)
    db.conn.close()
    rel = set(tuple(r) for r in d["relations"])
    derived = [f["id"] for f in d["features"] if f["source"] == "gffutils_derived"]
    if D["fmt"] == "gtf":
        ctx.mon("routing observed: gtf")
        want = {("T1", "exon_1", 1), ("T1", "exon_2", 1), ("G1", "exon_1", 2), ("G1", "exon_2", 2), ("G1", "T1", 1)}
        if sorted(derived) != ["G1", "T1"] or rel != want:
            ctx.violation(case, {"why": "GTF-dialect input not imported with GTF semantics", "derived": derived,
                                 "relations": sorted(rel), "text": text})
    else:
        ctx.mon("routing observed: gff")
        want = {("g1", "m1", 1), ("m1", "e1", 1), ("g1", "e1", 2)}
        if derived or rel != want:
            ctx.violation(case, {"why": "GFF-dialect input not imported with GFF3 semantics", "derived": derived,
                                 "relations": sorted(rel), "text": text})


def featlist(ctx, case):
    """Feature objects (all carrying one dialect) handed over in another order than the file's: the reported key order
    is the first-seen order of the features actually inspected."""
    import random
    from gffutils.iterators import DataIterator

    D, items, ck = case["D"], case["items"], case["checklines"]
    text = F.text_of(items, D)
    src = write(ctx, text)
    try:
        feats = list(DataIterator(src))
        random.Random(case["shuffle"]).shuffle(feats)
        keys = [list(f.attributes.keys()) for f in feats]

        def first_seen(k):
            out = []
            for ks in keys[:k]:
                for x in ks:
                    if x not in out:
                        out.append(x)
            return out
        if first_seen(ck) != first_seen(ck + 1) and ck > 0:
            ctx.skip("feature list: the two window conventions see different key orders")
            return
        exp = M.gffutils_dialect(D, first_seen(ck + 1))
        how = case["how"]
        data = feats if how == "list" else (f for f in feats)
        it = DataIterator(data, checklines=ck)
        ctx.mon("re-ordered feature lists compared")
        bad = diff_dialect(it.dialect, exp)
        if bad:
            ctx.violation(case, {"why": "dialect reported for a re-ordered list of Feature objects differs (key order = first seen among the inspected features)",
                                 "diff(got,expected)": bad, "inspected keys": keys[:ck + 1], "how": how})
            return
        out = list(it)
        if len(out) != len(feats):
            ctx.violation(case, {"why": "re-ordered feature list: %d features in, %d out" % (len(feats), len(out))})
    finally:
        os.unlink(src)


def shared_dialects(ctx, case):
    """Feature objects whose dialect dictionary is shared with something else - every feature read from a FeatureDB shares
    db.dialect, a hand-made Feature carries the library default - used as data for another inference: what they share is
    left as it was (the source database still reports its dialect, the defaults are untouched)."""
    import copy
    import gffutils
    from gffutils.iterators import DataIterator

    D, D2 = case["D"], case["D2"]
    text, text2 = F.text_of(case["items"], D), F.text_of(case["items2"], D2)
    try:
        src_db = gffutils.create_db(text, ":memory:", from_string=True, merge_strategy="create_unique")
        snap = copy.deepcopy(dict(src_db.dialect))
        other = list(DataIterator(text2, from_string=True))
        hand = gffutils.Feature(seqid="chr1", source="s", featuretype="gene", start=1, end=9, attributes={"Zkey": ["v"], "Name": ["n"]})
        how = case["how"]
        if how == "db as data":
            it = DataIterator(src_db, checklines=case["checklines"])
            list(it)
        elif how == "db into new db":
            gffutils.create_db(src_db, ":memory:", merge_strategy="create_unique", checklines=case["checklines"]).conn.close()
        elif how == "db features then others":
            list(DataIterator(list(src_db.all_features()) + other, checklines=case["checklines"]))
        else:
            list(DataIterator([hand] + other, checklines=case["checklines"]))
    except Exception as ex:
        ctx.skip("shared_dialects: %s raised (only what is shared is judged)" % type(ex).__name__)
        return
    ctx.mon("sources sharing a dialect dictionary used as data: dialects compared afterwards")
    if dict(src_db.dialect) != snap:
        ctx.violation(case, {"why": "using a FeatureDB (or its features) as data for another inference changed the dialect that database reports",
                             "before": snap, "after": dict(src_db.dialect), "how": how})
    src_db.conn.close()


def routing_supplied(ctx, case):
    """An explicitly supplied dialect decides the import semantics by its format, whatever form the data has -
    also when the data is an already built DataIterator that inferred another format."""
    import gffutils
    from gffutils.iterators import DataIterator

    written, supplied_fmt, form = case["written"], case["supplied_fmt"], case["form"]
    D = {"fmt": written, "sep": "; ", "trailing": True, "repeated": False}
    base = {"seqid": "chr1", "source": "s", "score": ".", "strand": "+", "frame": "."}
    recs = []
    for i, (s, e) in enumerate(((100, 200), (300, 400), (500, 650))):
        recs.append(dict(base, featuretype="exon", start=str(s), end=str(e), extra=[],
                         attrs=[["gene_id", ["G1"]], ["transcript_id", ["T1"]], ["exon_number", [str(i + 1)]]]))
    text = "\n".join(M.render_line(r, D) for r in recs) + "\n"
    dialect = M.gffutils_dialect(D, ["gene_id", "transcript_id", "exon_number"])
    dialect["fmt"] = supplied_fmt
    src = write(ctx, text)
    try:
        if form == "iterator":
            data, kw = DataIterator(src), {}
        elif form == "string":
            data, kw = text, {"from_string": True}
        else:
            data, kw = src, {}
        try:
            db = gffutils.create_db(data, ":memory:", dialect=dict(dialect), **kw)
        except Exception as ex:
            ctx.violation(case, {"why": "create_db with a supplied dialect raised %r" % (ex,), "text": text, "form": form})
            return
        d = dbdump.dump_db(db)
        db.conn.close()
        derived = sorted(f["id"] for f in d["features"] if f["source"] == "gffutils_derived")
        ctx.mon("supplied format decides the import semantics (%s data)" % form)
        want = ["G1", "T1"] if supplied_fmt == "gtf" else []
        if derived != want:
            ctx.violation(case, {"why": "the supplied dialect's format did not decide the import semantics", "written_as": written,
                                 "supplied_fmt": supplied_fmt, "data_form": form, "derived_features": derived, "expected": want})
    finally:
        os.unlink(src)


def mixture(ctx, case):
    import gffutils
    from gffutils.iterators import DataIterator

    lines = case["lines"]          # [(D, attrs)]
    ck = case["checklines"]
    window = []
    for D, attrs in lines:
        obs = M.observed(attrs, D)
        window.append((obs, [k for k, _ in attrs]) if obs else (dict(M.DEFAULT), []))
    v1, v2 = M.vote(window[:ck]), M.vote(window[:ck + 1])
    if v1 != v2:
        ctx.skip("mixture: the two window conventions vote differently")
        return
    base = {"seqid": "chr1", "source": "s", "featuretype": "region", "start": "1", "end": "9", "score": ".", "strand": "+", "frame": "."}
    rendered = [M.render_line(dict(base, attrs=attrs, extra=[]), D) for D, attrs in lines]
    gaps = case.get("gaps")        # gaps[i]: non-feature lines (directive / comment / blank) in front of feature line i
    if gaps:
        phys = []
        for i, ln in enumerate(rendered):
            phys.extend(gaps[i])
            phys.append(ln)
        phys.extend(gaps[len(rendered)])
        rendered = phys
    text = "\n".join(rendered) + "\n"
    src = write(ctx, text)
    try:
        try:
            it = DataIterator(src, checklines=ck)
        except Exception as ex:
            ctx.violation(case, {"why": "DataIterator raised %r on a mixed-dialect file" % (ex,), "text": text})
            return
        ctx.mon("mixtures decided by vote")
        if gaps:
            # the window counts FEATURE lines: directives, comments and blank lines neither vote nor use up the window
            ctx.mon("mixtures with non-feature lines before/between the inspected features")
            if len(lines) > ck + 1:
                ctx.mon("mixtures with non-feature lines: feature lines beyond the window present")
            try:
                its = DataIterator(text, checklines=ck, from_string=True)
            except Exception as ex:
                ctx.violation(case, {"why": "DataIterator(from_string) raised %r on a mixed-dialect text" % (ex,), "text": text})
                return
            bad = diff_dialect(its.dialect, v2)
            if bad:
                ctx.violation(case, {"why": "mixture with non-feature lines (from_string) not resolved by the weighted majority over the inspected feature lines",
                                     "diff(got,expected)": bad, "text": text, "key": case.get("key"), "checklines": ck})
                return
        if case.get("tie"):
            ctx.mon("mixtures with exact tie")
        bad = diff_dialect(it.dialect, v2)
        if bad:
            ctx.violation(case, {"why": "mixture not resolved by the weighted majority / first-seen rule",
                                 "diff(got,expected)": bad, "text": text, "key": case.get("key"), "tie": case.get("tie")})
            return
        try:
            db = gffutils.create_db(src, ":memory:", checklines=ck, merge_strategy="create_unique")
        except Exception:
            ctx.skip("mixture: import of the mixed file failed (only the vote is judged)")
            return
        bad = diff_dialect(db.dialect, v2)
        db.conn.close()
        if bad:
            ctx.violation(case, {"why": "FeatureDB.dialect of a mixture differs from the vote", "diff(got,expected)": bad, "text": text})
    finally:
        os.unlink(src)


def supplied(ctx, case):
    import gffutils
    from gffutils.iterators import DataIterator

    D, items, dialect = case["D"], case["items"], case["dialect"]
    recs = [it["rec"] for it in items if it["t"] == "feat"]
    text = F.text_of(items, D)
    src = write(ctx, text)
    dbfn = ctx.tmp(".db")
    try:
        it = DataIterator(src, dialect=dict(dialect), checklines=case["checklines"])
        ctx.mon("supplied dialects compared")
        if dict(it.dialect) != dialect:
            ctx.violation(case, {"why": "DataIterator does not report the supplied dialect verbatim", "got": dict(it.dialect), "supplied": dialect})
            return
        try:
            db = gffutils.create_db(src, dbfn, dialect=dict(dialect), checklines=case["checklines"], keep_order=True,
                                    merge_strategy="create_unique")
        except Exception as ex:
            ctx.violation(case, {"why": "create_db with a supplied dialect raised %r" % (ex,), "text": text})
            return
        try:
            if dict(db.dialect) != dialect:
                ctx.violation(case, {"why": "FeatureDB does not report the supplied dialect verbatim", "got": dict(db.dialect), "supplied": dialect})
                return
            feats = [f for f in db.all_features() if f.source != "gffutils_derived"]
            for f, rec in zip(feats, recs):
                exp = "\t".join([rec["seqid"], rec["source"], rec["featuretype"], rec["start"], rec["end"], rec["score"],
                                 rec["strand"], rec["frame"], M.render_with_dialect(rec["attrs"], dialect, keep_order=True)]
                                + list(rec["extra"]))
                if str(f) != exp:
                    ctx.violation(case, {"why": "printing does not follow the supplied dialect", "printed": str(f), "expected": exp,
                                         "supplied": dialect})
                    return
        finally:
            db.conn.close()
        db2 = gffutils.FeatureDB(dbfn)
        same = dict(db2.dialect) == dialect
        db2.conn.close()
        if not same:
            ctx.violation(case, {"why": "supplied dialect not persisted verbatim", "supplied": dialect})
    finally:
        for p in (src, dbfn):
            if os.path.exists(p):
                os.unlink(p)


# ---- generators ---------------------------------------------------------------
def mix_case(rng):
    """Two values of one dialect key inside the window, with attribute-count weights."""
    key = rng.choice(["field separator", "trailing semicolon", "repeated keys", "fmt/keyval", "quoted", "quoted (key=value)"])
    base = rng.choice(M.points())
    A, B = dict(base), dict(base)
    if key == "field separator":
        a, b = rng.sample(M.SEPS, 2)
        A["sep"], B["sep"] = a, b
    elif key == "trailing semicolon":
        A["trailing"], B["trailing"] = True, False
    elif key == "repeated keys":
        A["repeated"], B["repeated"] = True, False
    elif key == "fmt/keyval":
        A["fmt"], B["fmt"] = rng.sample(["gff3", "gtf"], 2)
    elif key == "quoted (key=value)":
        A["fmt"], B["fmt"] = rng.sample(["gff3", "gff3q"], 2)
    else:
        A["fmt"], B["fmt"] = rng.sample(["gtf", "gff2"], 2)
    tie = rng.random() < 0.4
    na, nb = rng.randrange(1, 4), rng.randrange(1, 4)

    def mk(D, nattr):
        attrs = []
        keys = ["ID", "Name", "Note", "tag", "Alias", "Dbxref"][:nattr]
        for i, k in enumerate(keys):
            vals = ["v%d" % i] if i != 1 else ["m1", "m2"]   # second attribute multi-valued: exhibits 'repeated keys'
            attrs.append([k, vals])
        return (D, attrs)

    if tie:
        # equal total weights: e.g. A: 2 lines x 3 attrs, B: 3 lines x 2 attrs
        wa = rng.choice([(2, 3), (1, 4), (3, 2), (1, 2), (2, 2)])
        total = wa[0] * wa[1]
        opts = [(n, total // n) for n in (1, 2, 3, 4, 6) if total % n == 0 and 2 <= total // n <= 6]
        wb = rng.choice(opts)
        la = [mk(A, wa[1]) for _ in range(wa[0])]
        lb = [mk(B, wb[1]) for _ in range(wb[0])]
    else:
        la = [mk(A, rng.randrange(2, 6)) for _ in range(na)]
        lb = [mk(B, rng.randrange(2, 6)) for _ in range(nb)]
    lines = la + lb
    if not tie and rng.random() < 0.35:
        # a third spelling in the same window (any key/value style)
        C = dict(base)
        C["fmt"] = rng.choice(M.FMTS)
        C["sep"] = rng.choice(M.SEPS)
        lines += [mk(C, rng.randrange(2, 6)) for _ in range(rng.randrange(1, 4))]
        key += " + third spelling"
    order = rng.random()
    if order < 0.33:
        lines = lb + la
    elif order < 0.66:
        rng.shuffle(lines)
    n = len(lines)
    ck = rng.choice([n - 1, n, n + 3, 10, 50]) if rng.random() < 0.8 else rng.choice([0, 1, 2])
    return {"kind": "mixture", "key": key, "tie": tie, "lines": lines, "checklines": max(0, ck)}


NONFEATURE = ["##gff-version 3", "##species x", "##sequence-region chr1 1 1000", "# a comment; with=chars\tand tabs", "#", "#!processor p", ""]


def _mk_line(D, nattr):
    attrs = []
    for i, k in enumerate(["ID", "Name", "Note", "tag", "Alias", "Dbxref", "k1", "k2"][:nattr]):
        attrs.append([k, ["v%d" % i] if i != 1 else ["m1", "m2"]])
    return (D, attrs)


def mix_gaps_case(rng):
    """A mixture whose window is shorter than the file (further feature lines, in one of the spellings, follow it), with
    directive / comment / blank lines in front of and between the feature lines: only feature lines count for the window."""
    case = mix_case(rng)
    lines = list(case["lines"])
    n_in = len(lines)
    # the tail: more feature lines beyond the mixture, all in one of its spellings (any weight)
    Dt = rng.choice(lines)[0]
    lines += [_mk_line(Dt, rng.randrange(2, 8)) for _ in range(rng.choice([0, 1, 2, 4, 8]))]
    n = len(lines)
    ck = rng.choice([rng.randrange(0, n_in + 1), rng.randrange(0, n + 2), n_in - 1, n_in])
    gaps = [[] for _ in range(n + 1)]
    for _ in range(rng.choice([0, 1, 1, 2, 3, 5])):
        gaps[0].append(rng.choice(NONFEATURE))
    for i in range(1, n + 1):
        if rng.random() < 0.3:
            gaps[i] = [rng.choice(NONFEATURE) for _ in range(rng.choice([1, 1, 2]))]
    if not any(gaps):
        gaps[rng.randrange(0, min(n, ck + 1) + 1)].append(rng.choice(NONFEATURE))
    return {"kind": "mixture", "key": case["key"], "tie": False, "lines": lines, "checklines": max(0, ck), "gaps": gaps}


def run(ctx):
    rng = ctx.rng
    pts = M.points()
    # (2) routing in every dialect point
    for i, D in enumerate(pts):
        for ck in (0, 10):
            if ctx.mine(i):
                case = {"kind": "routing", "D": D, "checklines": ck}
                execute(ctx, case)
                ctx.case(("routing", D, ck), True, sample=case, cls="routing")
    j = 0
    for written in ("gtf", "gff2"):
        for supplied_fmt in ("gtf", "gff3"):
            for form in ("path", "string", "iterator"):
                j += 1
                if ctx.mine(j):
                    case = {"kind": "routing_supplied", "written": written, "supplied_fmt": supplied_fmt, "form": form}
                    execute(ctx, case)
                    ctx.case(("routing_supplied", written, supplied_fmt, form), True, sample=case, cls="supplied format routing")
    # (1) uniform files
    for _ in range(ctx.budget(2000, 80000)):
        D = rng.choice(pts)
        n = rng.choice([1, 2, 3, 5, 11, 12, 25])
        recs = F.uniform_records(rng, D, n, ids="dups", coords=False)
        if D["fmt"] == "gtf" and D["sep"] in ("; ", " ; ") and rng.random() < 0.25:
            # quoted values may hold a bare ';' (no blank next to it): under '; ' and ' ; ' it is text, not a separator -
            # also inside the first attribute of a line, where inference starts
            for rec in recs:
                for kv in rec["attrs"][:1 if rng.random() < 0.6 else 3]:
                    for j, v in enumerate(kv[1]):
                        if len(v) >= 2 and " " not in v[:2] and " " not in v[-2:]:
                            kv[1][j] = v[:1] + ";" + v[1:]
            ctx.mon("uniform files with a bare ';' inside quoted values")
        items = F.decorate(rng, recs)
        ck = rng.choice(CKS)
        case = {"kind": "uniform", "D": D, "items": items, "checklines": ck}
        execute(ctx, case)
        ctx.case(("uniform", F.text_of(items, D), ck), n >= 3, sample={"D": D, "checklines": ck, "text": F.text_of(items, D)[:400]},
                 cls="uniform fmt=%s" % D["fmt"])
        # per-line inference on the same lines
        for rec in recs[:3]:
            c2 = {"kind": "string", "D": D, "attrs": rec["attrs"]}
            execute(ctx, c2)
    # (1c) sources that share their dialect dictionary with something else
    for _ in range(ctx.budget(120, 9000)):
        D = rng.choice(pts)
        D2 = rng.choice(pts)
        recs = F.uniform_records(rng, D, rng.choice([2, 3, 5, 12]), ids="dups", coords=True)
        recs2 = F.uniform_records(rng, D2, rng.choice([2, 5, 12]), ids="dups", coords=True)
        case = {"kind": "shared_dialects", "D": D, "D2": D2, "items": F.decorate(rng, recs, directives=False),
                "items2": F.decorate(rng, recs2, directives=False), "checklines": rng.choice([0, 1, 2, 10, 30]),
                "how": rng.choice(["db as data", "db into new db", "db features then others", "hand-made feature first"])}
        execute(ctx, case)
        ctx.case(("shared_dialects", F.text_of(case["items"], D), F.text_of(case["items2"], D2), case["how"], case["checklines"]), True,
                 cls="shared dialect: " + case["how"])
    # (1a) repeated keys whose first occurrences are empty
    if ctx.shard == 0:
        for a in ('gene_id "g"; tag ""; tag "basic";', 'gene_id "g"; tag ""; tag ""; tag "basic"', 'gene_id "g" ; tag "" ; tag "basic"',
                  "ID=m1;Note;Note=curated", "ID=m1;Note=;Note=curated", "ID=m1; Note=; Note=curated;", 'gene_id "g"; tag; tag "x"',
                  'ID="m1";Note="";Note="curated"', "ID m1;Note;Note curated"):
            for n, ck in ((1, 10), (3, 0), (3, 1), (12, 10)):
                case = {"kind": "repeated_empty", "attrs_text": a, "n": n, "checklines": ck}
                execute(ctx, case)
                ctx.case(("repeated_empty", a, n, ck), True, sample=case, cls="repeated key, empty first occurrence")
    # (1b) the reported dialect survives updates written in another spelling of the same format family
    for _ in range(ctx.budget(150, 12000)):
        D = rng.choice(pts)
        D2 = dict(D)
        D2["sep"] = rng.choice([x for x in M.SEPS if x != D["sep"]])
        D2["trailing"] = not D["trailing"] if rng.random() < 0.5 else D["trailing"]
        D2["repeated"] = not D["repeated"] if rng.random() < 0.3 else D["repeated"]
        recs = F.uniform_records(rng, D, rng.choice([2, 3, 5, 12]), ids="dups", coords=True)
        recs2 = F.uniform_records(rng, D2, rng.choice([1, 2, 5, 12]), ids="dups", coords=True)
        case = {"kind": "after_update", "D": D, "D2": D2, "items": F.decorate(rng, recs, directives=False),
                "items2": F.decorate(rng, recs2, directives=False), "how": rng.choice(["string", "path", "iterator"])}
        execute(ctx, case)
        ctx.case(("after_update", F.text_of(case["items"], D), F.text_of(case["items2"], D2), case["how"]), True,
                 cls="dialect after update fmt=%s" % D["fmt"])
    # single strings incl. sparse shapes
    for _ in range(ctx.budget(9000, 300000)):
        D = rng.choice(pts)
        attrs = R.attrs(rng, D, nmin=1, nmax=5, single_valued=())
        case = {"kind": "string", "D": D, "attrs": attrs}
        execute(ctx, case)
        ctx.case(("string", D, attrs), len(attrs) >= 2, cls="single attribute string")
    # (3) mixtures
    for _ in range(ctx.budget(5000, 160000)):
        case = mix_case(rng)
        execute(ctx, case)
        ctx.case(("mix", case["lines"], case["checklines"]), True, sample=case if rng.random() < 0.01 else None,
                 cls="mixture key=%s tie=%s" % (case["key"], case["tie"]))
    # (3a) mixtures with directive / comment / blank lines around the inspected feature lines, window shorter than the file
    for _ in range(ctx.budget(2500, 60000)):
        case = mix_gaps_case(rng)
        execute(ctx, case)
        ctx.case(("mix gaps", case["lines"], case["gaps"], case["checklines"]), True, sample=case if rng.random() < 0.01 else None,
                 cls="mixture with non-feature lines key=%s" % case["key"])
    # (3b) Feature objects in another order than the file's
    for _ in range(ctx.budget(300, 30000)):
        D = rng.choice(pts)
        n = rng.choice([3, 5, 8, 12])
        recs = F.uniform_records(rng, D, n, ids="dups", coords=False)
        # later lines introduce keys in their own order: drop the 'line 1 carries all keys' regularity
        rng.shuffle(recs)
        items = [{"t": "feat", "rec": r} for r in recs]
        case = {"kind": "featlist", "D": D, "items": items, "checklines": rng.choice([0, 1, 2, n, 10]), "shuffle": rng.randrange(10 ** 6),
                "how": rng.choice(["list", "generator"])}
        execute(ctx, case)
        ctx.case(("featlist", F.text_of(items, D), case["checklines"], case["shuffle"]), True, cls="re-ordered feature list")
    # (4) supplied dialects
    for _ in range(ctx.budget(400, 40000)):
        D = rng.choice(pts)
        n = rng.choice([2, 3, 5, 12])
        recs = F.uniform_records(rng, D, n, ids="dups", coords=False)
        items = F.decorate(rng, recs, directives=False)
        order = [k for k, _ in recs[0]["attrs"]]
        dialect = M.gffutils_dialect(D, order)
        how = rng.choice(["same", "trailing", "repeated", "order"])
        if how == "trailing":
            dialect["trailing semicolon"] = True
        elif how == "repeated":
            dialect["repeated keys"] = not dialect["repeated keys"]
            # an empty item of a comma list has no counterpart under repeated keys (an empty value is a flag there)
            for r in recs:
                for kv in r["attrs"]:
                    if len(kv[1]) > 1:
                        kv[1] = [v for v in kv[1] if v != ""] or ["v"]
        elif how == "order":
            dialect["order"] = list(reversed(order))
        case = {"kind": "supplied", "D": D, "items": items, "dialect": dialect, "checklines": rng.choice([0, 10]), "variation": how}
        execute(ctx, case)
        ctx.case(("supplied", F.text_of(items, D), dialect), n >= 3, cls="supplied dialect: " + how)


MANIFEST = {
    "technique": "reference observer + weighted-vote model vs reported dialects (DataIterator, FeatureDB, reopened, infer_dialect); routing observed on the content dump",
    "text": "Files are rendered by the reference renderer in a known dialect (or as engineered mixtures with known attribute-count "
            "weights, including exact ties in both orders) and the dialect reported by the real code at every observation "
            "point is compared with the written dialect / the reference vote; GFF3-vs-GTF routing is observed from the derived "
            "features and relations actually stored; supplied dialects must be reported, persisted and used for printing verbatim.",
    "note": "Trusted: gvmon/models/dialect.py (observer, voter). Mixtures on which the two window conventions disagree are skipped.",
}
