"""
C01  Import fidelity: every input line is stored once and comes back unchanged.

History + model: a generated annotation (reference renderer, one dialect point) is imported by the real
create_db; every stored feature is compared with its input line (columns, extra, ordered attributes, printed
form); then reopen and re-import.  Offline checker over the SQL trace of gffutils' own connection:
#INSERT INTO features == #lines (+ derived), no UPDATE/DELETE on features.
"""
import os

from gvmon import dbdump
from gvmon.gen import files as F
from gvmon.gen import records as R
from gvmon.models import dialect as M
from gvmon.monitors import contracts, sqltrace

RULE = ("files of n in {1,2,3,5,10,11,12,25,40} (rarely 1001-2100) feature lines rendered in one of 48 dialect points (uniform regime: every "
        "line exhibits every dialect feature; sparse regime: arbitrary line shapes, kept only when the reference vote "
        "recovers the dialect), x checklines in {0,1,2,10,n-1,n,n+2} x {file,:memory:} x {error+unique ids, "
        "create_unique+duplicate ids} x keep_order x sort_attribute_values x {path, gzip path, file:// URL (plain and .gz), from_string} x {LF, CRLF}, 4% after an import of the same text with ignore_url_escape_characters on, with '.' coordinates, "
        "extra columns (15% of the files: also EMPTY extra columns - lines ending in one or more tabs, empty columns among filled ones), "
        "in 15% of the files of a quoted-values dialect (gtf, gff3q) values/list items that themselves begin and/or end with a double-quote character, "
        "empty attribute columns and interleaved comments/blanks/directives; non-trivial = >= 2 lines and "
        ">= 1 multi-valued or escaped value; distinct = distinct (dialect point, n-vs-checklines class, config) tuples "
        "hashed together with the file text")
REQUIRED = ["imports", "stored features compared", "byte-identical prints", "reopen comparisons", "re-import comparisons",
            "sql: INSERT INTO features", "imports from gzip files", "imports from CRLF files", "imports from URLs",
            "imports after the same text was imported with ignore_url_escape_characters switched on",
            "imports after an import of the same text failed half-way",
            "stored features whose extra columns are all empty compared", "stored features with empty and filled extra columns compared",
            "stored features with a value beginning or ending with a double quote compared"]
REQUIRED_CLASSES = ["fmt=gff3", "fmt=gtf", "fmt=gff2", "fmt=gff3q", "db=file", "db=memory", "strategy=error", "strategy=create_unique",
                    "regime=uniform", "regime=sparse"]
ASSUMPTIONS = [
    "'written in one consistent dialect' = reference rendering of every line under one dialect point; a sparse file is "
    "only judged when the reference weighted-majority vote over the inspected window (both window conventions) recovers "
    "that dialect, otherwise the case is skipped and counted",
    "GTF exon lines carry coordinates (extent inference over '.' coordinates is outside C01); derived features "
    "(source gffutils_derived) are excluded here and judged by C03",
    "attribute key order of stored features is compared exactly for the GFF3 importer and as a mapping for GTF",
    "as in C07, a key=value line whose first attribute is a valueless flag is outside the grammar (indistinguishable from the "
    "'key value' style); when printing in file-wide key order produces such a line the re-import comparison is skipped (counted)",
]
QUICK_SHARDS = 4
NS = [1, 2, 3, 5, 10, 11, 12, 25, 40]
QUOTED_FMTS = ("gtf", "gff3q")     # dialects that write every value inside one pair of double quotes


def add_empty_extras(rng, recs):
    """Extra columns are opaque text and may be empty: a line may end in one or more tabs (all extra columns empty),
    or have empty columns before/between/after filled ones.  At least one line gets an all-empty list."""
    forced = rng.randrange(len(recs))
    for i, rec in enumerate(recs):
        r = rng.random()
        if i == forced or r < 0.35:
            rec["extra"] = [""] * rng.choice([1, 1, 2, 3])
        elif r < 0.6:
            ex = list(rec["extra"]) or ["x"]
            for _ in range(rng.choice([1, 1, 2])):
                ex.insert(rng.randrange(0, len(ex) + 1), "")
            rec["extra"] = ex


def add_edge_quotes(rng, recs):
    """Quoted-values dialects wrap the (joined) value in ONE pair of quotes; the value itself is opaque text and may
    begin and/or end with a double-quote character (note ""alpha" subunit"; -> value "alpha" subunit).  Identifier
    keys are left alone.  Returns the number of values changed."""
    cands = [(rec, kv, j) for rec in recs for kv in rec["attrs"] if kv[0] not in F.SINGLE
             for j, v in enumerate(kv[1]) if v]
    if not cands:
        return 0
    forced = rng.randrange(len(cands))
    done = 0
    for i, (rec, kv, j) in enumerate(cands):
        if i != forced and rng.random() > 0.3:
            continue
        v = kv[1][j]
        shape = rng.choice(["lead", "trail", "both", "both", "word", "two"])
        if shape == "lead":
            v = '"' + v
        elif shape == "trail":
            v = v + '"'
        elif shape == "both":
            v = '"' + v + '"'
        elif shape == "word":
            v = '"' + v + '" ' + rng.choice(["subunit", "x", "5'"]) if rng.random() < 0.5 else rng.choice(["the", "x"]) + ' "' + v + '"'
        else:
            v = '""' + v if rng.random() < 0.5 else v + '""'
        kv[1][j] = v
        done += 1
    return done


def edge_quoted(rec):
    return any(x[:1] == '"' or x[-1:] == '"' for _, v in rec["attrs"] for x in v)


def setup(ctx):
    contracts.install_all()
    sqltrace.install()


def gen_case(rng):
    D = rng.choice(M.points())
    n = rng.choice(NS)
    if rng.random() < 0.004:
        n = rng.choice([1001, 1500, 2100])   # beyond the importers' internal 1000-feature thresholds
    regime = "uniform" if rng.random() < 0.65 else "sparse"
    strategy = rng.choice(["error", "error", "create_unique"])
    ids = "unique" if strategy == "error" else "dups"
    recs = F.uniform_records(rng, D, n, ids=ids) if regime == "uniform" else F.sparse_records(rng, D, n, ids=ids)
    if D["fmt"] == "gtf":
        for rec in recs:
            if rec["featuretype"] == "exon":
                for c in ("start", "end"):
                    if rec[c] == ".":
                        rec[c] = "777"
                if int(rec["start"]) > int(rec["end"]):
                    rec["start"], rec["end"] = rec["end"], rec["start"]
    # (own generators for the two input classes below, so that the rest of the case is drawn as before)
    sub = __import__("random").Random(rng.getrandbits(48))
    empty_extra = sub.random() < 0.15
    if empty_extra:
        add_empty_extras(sub, recs)
    quote_edges = D["fmt"] in QUOTED_FMTS and sub.random() < 0.15 and add_edge_quotes(sub, recs) > 0
    items = F.decorate(rng, recs)
    ck = rng.choice([0, 1, 2, 10, max(0, n - 1), n, n + 2])
    return {
        "kind": "import", "D": D, "regime": regime, "n": n, "checklines": ck,
        "db": rng.choice(["file", "file", "memory"]), "strategy": strategy,
        "keep_order": rng.random() < 0.7, "sort_values": rng.random() < 0.2,
        "input": rng.choice(["path", "path", "string", "gz", "url", "urlgz"]), "final_newline": rng.random() < 0.85,
        "eol": "\r\n" if rng.random() < 0.15 else "\n",
        # the same text was imported earlier in this process while constants.ignore_url_escape_characters was switched on
        "prelude": rng.random() < 0.04,
        "verbose": rng.choice(["not given", "not given", False, True, "debug"]),
        "empty_extra": empty_extra, "quote_edges": quote_edges,
        "items": items,
    }


def expected_print(rec, dialect, keep_order, sort_values):
    attrs = [[k, list(v)] for k, v in rec["attrs"]]
    alts = []
    variants = [attrs]
    if sort_values:
        # the statement does not say whether values are ordered in their decoded or encoded form: accept both
        variants = [[[k, sorted(v)] for k, v in attrs], [[k, sorted(v, key=M.encode_value)] for k, v in attrs]]
        if dialect["repeated keys"]:
            variants.append(attrs)  # repeated keys are split before value sorting applies
    for a in variants:
        cols = [rec["seqid"], rec["source"], rec["featuretype"], rec["start"], rec["end"], rec["score"], rec["strand"],
                rec["frame"], M.render_with_dialect(a, dialect, keep_order=keep_order)]
        cols += list(rec["extra"])
        alts.append("\t".join(cols))
    return alts


def execute(ctx, case):
    import gffutils

    D = case["D"]
    items = case["items"]
    recs = [it["rec"] for it in items if it["t"] == "feat"]
    ck = case["checklines"]
    # the dialect the reference vote expects, under both window conventions
    if case["regime"] == "uniform":
        # every line alone exhibits the whole dialect and line 1 carries every key: the statement asks for
        # byte identity whatever the window is
        votes = [F.window_vote(recs, D, 1)] * 2
        if not F.same_dialect(votes[0], D):
            raise AssertionError("harness: uniform-regime file does not exhibit its dialect: %r" % (votes[0],))
    else:
        votes = [F.window_vote(recs, D, ck), F.window_vote(recs, D, ck + 1)]
        if not all(F.same_dialect(v, D) for v in votes) or (votes[0]["order"] != votes[1]["order"] and case["keep_order"]):
            ctx.skip("sparse regime: reference vote does not recover the dialect under both window conventions")
            return False
    voted = votes[1]
    text = F.text_of(items, D, final_newline=case["final_newline"])
    lines = F.feature_lines(items, D)
    dbfn = ":memory:" if case["db"] == "memory" else ctx.tmp(".db")
    eol = case.get("eol", "\n")
    if case["input"] in ("path", "gz", "url", "urlgz"):
        # line ends are part of the file, not of the lines: CRLF files and gzip files hold the same features
        ftext = text.replace("\n", eol)
        if case["input"] in ("gz", "urlgz"):
            import gzip
            src = ctx.tmp(".gff.gz")
            with gzip.open(src, "wb") as fh:
                fh.write(ftext.encode("utf-8"))
            ctx.mon("imports from gzip files")
        else:
            src = ctx.tmp(".gff")
            with open(src, "w", encoding="utf-8", newline="") as fh:
                fh.write(ftext)
        if eol != "\n":
            ctx.mon("imports from CRLF files")
        data, from_string = src, False
        if case["input"] in ("url", "urlgz"):
            # the documented URL form of the data argument (a file:// URL: nothing is fetched over a network)
            import pathlib
            data = pathlib.Path(src).as_uri()
            ctx.mon("imports from URLs")
    else:
        data, from_string = text, True
    kw = dict(checklines=ck, merge_strategy=case["strategy"], keep_order=case["keep_order"],
              sort_attribute_values=case["sort_values"], from_string=from_string)
    if case.get("verbose", "not given") != "not given":
        kw["verbose"] = case["verbose"]
        ctx.mon("imports with verbose=%r" % (case["verbose"],))
    if case.get("prelude"):
        from gffutils import constants
        constants.ignore_url_escape_characters = True
        try:
            gffutils.create_db(text, ":memory:", **dict(kw, from_string=True)).conn.close()
        except Exception:
            pass
        finally:
            constants.ignore_url_escape_characters = False
        ctx.mon("imports after the same text was imported with ignore_url_escape_characters switched on")
        # ... and another import of the same text failed half-way (its transform raised) - nothing of it may linger
        seen = [0]

        def failing(f):
            seen[0] += 1
            if seen[0] > max(1, len(recs) // 2):
                raise RuntimeError("harness: transform fails half-way")
            return f
        try:
            gffutils.create_db(text, ":memory:", transform=failing, **dict(kw, from_string=True)).conn.close()
        except Exception:
            ctx.mon("imports after an import of the same text failed half-way")
    sqltrace.reset()
    try:
        db = gffutils.create_db(data, dbfn, **kw)
    except Exception as ex:
        ctx.violation(case, {"why": "create_db raised %r" % (ex,), "text": text})
        contracts.drain()
        return True
    ctx.mon("imports")
    ok = compare(ctx, case, db, recs, lines, voted, text)
    trace = sqltrace.kinds()
    try:
        if ok:
            n_ins = trace.get("INSERT INTO features", 0)
            stored = db.count_features_of_type()
            ctx.mon("sql: INSERT INTO features", n_ins)
            gtf = D["fmt"] == "gtf"
            # a colliding key costs one failed INSERT before the retry under the fresh key
            auto = dbdump.dump_db(db)["autoincrements"]
            collisions = sum(v for k, v in auto.items() if k.startswith("dup")) if case["strategy"] == "create_unique" else 0
            if n_ins != stored + collisions or (not gtf and stored != len(recs)):
                ctx.violation(case, {"why": "SQL trace: %d INSERT INTO features for %d lines / %d stored" % (n_ins, len(recs), stored)})
                ok = False
            bad = [k for k in trace if k.startswith(("UPDATE features", "DELETE FROM features"))]
            if bad and not gtf:
                ctx.violation(case, {"why": "SQL trace: %s under a keep-all strategy" % bad})
                ok = False
        if ok and case["db"] == "file":
            ok = reopen(ctx, case, db, dbfn, recs, lines, voted, text)
        if ok:
            reimport(ctx, case, db, kw, text)
    finally:
        try:
            db.conn.close()
        except Exception:
            pass
        for p in (dbfn, locals().get("src")):
            if p and p != ":memory:" and os.path.exists(p):
                os.unlink(p)
    for v in contracts.drain():
        ctx.violation(case, v)
    return True


def compare(ctx, case, db, recs, lines, voted, text, what="after import"):
    gtf = case["D"]["fmt"] == "gtf"
    try:
        feats = [f for f in db.all_features() if f.source != "gffutils_derived"]
    except Exception as ex:
        ctx.violation(case, {"why": "%s: all_features raised %r" % (what, ex), "text": text})
        return False
    if len(feats) != len(recs):
        ctx.violation(case, {"why": "%s: %d non-derived features stored for %d input lines" % (what, len(feats), len(recs)),
                             "text": text, "stored": [str(f) for f in feats][:50]})
        return False
    dd = dict(db.dialect)
    bad = {k: (dd.get(k), voted[k]) for k in voted if dd.get(k) != voted[k] and (k != "order" or case["keep_order"])}
    if bad:
        ctx.violation(case, {"why": "%s: database dialect differs from the file's dialect" % what, "diff(got,expected)": bad, "text": text})
        return False
    for i, (f, rec, line) in enumerate(zip(feats, recs, lines)):
        ctx.mon("stored features compared")
        try:
            str(f), list(f.extra), [list(f.attributes[k]) for k in f.attributes.keys()]
        except Exception as ex:
            ctx.violation(case, {"why": "%s: line %d: reading the stored feature back raised %r" % (what, i, ex), "line": line, "text": text})
            return False
        exp = R.expected_columns(rec)
        got = {k: getattr(f, k) for k in exp}
        if got != exp or list(f.extra) != list(rec["extra"]):
            ctx.violation(case, {"why": "%s: line %d: columns/extra differ" % (what, i), "line": line, "got": got,
                                 "got_extra": list(f.extra), "text": text})
            return False
        gk = [[k, list(f.attributes[k])] for k in f.attributes.keys()]
        ek = [[k, list(v)] for k, v in rec["attrs"]]
        same = (dict((k, v) for k, v in gk) == dict((k, v) for k, v in ek) and len(gk) == len(ek)) if gtf else gk == ek
        if not same:
            ctx.violation(case, {"why": "%s: line %d: attribute keys/values differ" % (what, i), "line": line, "got": gk,
                                 "expected": ek, "text": text})
            return False
        if f.file_order != i + 1 and not gtf:
            ctx.violation(case, {"why": "%s: line %d stored at file_order %r" % (what, i, f.file_order), "text": text})
            return False
        printed = str(f)
        alts = expected_print(rec, voted if case["keep_order"] else dict(voted, order=[]), case["keep_order"], case["sort_values"])
        if printed not in alts:
            ctx.violation(case, {"why": "%s: line %d: printed form differs" % (what, i), "line": line, "printed": printed,
                                 "expected": alts[0], "keep_order": case["keep_order"], "text": text})
            return False
        # printing (and hashing/comparing, which print) must not change the feature
        hash(f), f == f
        gk2 = [[k, list(f.attributes[k])] for k in f.attributes.keys()]
        if gk2 != gk or str(f) != printed:
            ctx.violation(case, {"why": "%s: line %d: printing/hashing the feature changed its attributes or its printed form" % (what, i),
                                 "line": line, "before": gk, "after": gk2, "printed_first": printed, "printed_again": str(f), "text": text})
            return False
        if case["keep_order"] and not case["sort_values"] and alts[0] == line:
            # (alts[0] != line only in the sparse regime, for a line whose own key order is not the
            #  first-seen order of the file: the file-wide order is part of the dialect)
            if printed != line:
                ctx.violation(case, {"why": "%s: line %d: print (keep_order=True) is not byte-identical" % (what, i),
                                     "line": line, "printed": printed, "text": text})
                return False
            ctx.mon("byte-identical prints")
        if rec["extra"]:
            if not any(rec["extra"]):
                ctx.mon("stored features whose extra columns are all empty compared")
            elif "" in rec["extra"]:
                ctx.mon("stored features with empty and filled extra columns compared")
        if edge_quoted(rec):
            ctx.mon("stored features with a value beginning or ending with a double quote compared")
    return True


def reopen(ctx, case, db, dbfn, recs, lines, voted, text):
    import gffutils

    before = dbdump.dump_db(db)
    directives = list(db.directives)
    db.conn.close()
    try:
        db2 = gffutils.FeatureDB(dbfn, keep_order=case["keep_order"], sort_attribute_values=case["sort_values"])
    except Exception as ex:
        ctx.violation(case, {"why": "reopening raised %r" % (ex,), "text": text})
        return False
    try:
        ctx.mon("reopen comparisons")
        if not compare(ctx, case, db2, recs, lines, voted, text, what="after close/reopen"):
            return False
        if list(db2.directives) != directives:
            ctx.violation(case, {"why": "directives differ after reopen", "before": directives, "after": list(db2.directives)})
            return False
        after = dbdump.dump_db(db2)
        d = dbdump.diff(before, after)
        if d:
            ctx.violation(case, {"why": "content dump differs after close/reopen", "diff": d, "text": text})
            return False
    finally:
        db2.conn.close()
    return True


def reimport(ctx, case, db, kw, text):
    import gffutils

    # db may have been closed by reopen(); use a fresh handle for files
    if case["db"] == "file":
        src_db = gffutils.FeatureDB(db.dbfn, keep_order=True)
    else:
        src_db = db
        src_db.keep_order = True
    src_db.sort_attribute_values = False
    try:
        printed = [str(f) for f in src_db.all_features()]
        first = dbdump.dump_db(src_db)
    finally:
        if src_db is not db:
            src_db.conn.close()
    if case["D"]["fmt"] in ("gff3", "gff3q"):
        # keep_order=True prints keys in the file-wide first-seen order, which can move a valueless flag to the
        # front of a key=value line; such a line is outside the grammar (see ASSUMPTIONS), so its re-import is not judged
        for ln in printed:
            cols = ln.split("\t")
            first_part = cols[8].split(case["D"]["sep"])[0] if len(cols) > 8 and cols[8] else "k=v"
            if "=" not in first_part:
                ctx.skip("re-import: a printed key=value line starts with a valueless flag (outside the grammar)")
                return True
    p = ctx.tmp(".reimport.gff")
    with open(p, "w", encoding="utf-8", newline="") as fh:
        fh.write("\n".join(printed) + "\n")
    kw2 = dict(kw, from_string=False)
    try:
        db3 = gffutils.create_db(p, ":memory:", **kw2)
    except Exception as ex:
        ctx.violation(case, {"why": "re-importing the printed features raised %r" % (ex,), "printed": printed, "text": text})
        os.unlink(p)
        return False
    try:
        ctx.mon("re-import comparisons")
        second = dbdump.dump_db(db3)
        gtf = case["D"]["fmt"] == "gtf"

        def norm(d):
            feats = []
            for f in d["features"]:
                f = dict(f)
                # printing with keep_order=True re-orders keys by the file-wide order: compare as a mapping
                f["attributes"] = sorted(f["attributes"]) if isinstance(f["attributes"], list) else f["attributes"]
                feats.append(f)
            feats = sorted(feats, key=lambda f: f["id"]) if gtf else feats
            return {"features": feats, "relations": d["relations"]}

        dd = dbdump.diff(norm(first), norm(second), keys=("features", "relations"))
        if dd:
            ctx.violation(case, {"why": "re-importing the printed features gives a different database", "diff": dd,
                                 "printed": printed, "text": text})
            return False
    finally:
        db3.conn.close()
        os.unlink(p)
    return True


def run(ctx):
    rng = ctx.rng
    for _ in range(ctx.budget(1600, 64000)):
        case = gen_case(rng)
        ran = execute(ctx, case)
        if not ran:
            continue
        n, ck = case["n"], case["checklines"]
        ncls = "n<ck" if n < ck else ("n=ck" if n == ck else ("n=ck+1" if n == ck + 1 else "n>ck+1"))
        recs = [it["rec"] for it in case["items"] if it["t"] == "feat"]
        rich = any(len(v) > 1 or any(c in R.RESERVED_LIST for x in v for c in x) for r in recs for _, v in r["attrs"])
        cfg = (case["db"], case["strategy"], case["keep_order"], case["sort_values"], case["input"])
        D = case["D"]
        for cls in ("fmt=" + D["fmt"], "db=" + case["db"], "strategy=" + case["strategy"], "regime=" + case["regime"],
                    "window:" + ncls, "input=" + case["input"]):
            ctx.classes[cls] += 1
        kind = "values: " + (" + ".join(x for x in ("empty extra columns" if case.get("empty_extra") else "",
                                                    "double quotes at the edges of quoted values" if case.get("quote_edges") else "") if x)
                             or "as before")
        ctx.case((D, ncls, cfg, F.text_of(case["items"], D)), n >= 2 and rich, cls=kind,
                 sample={"D": D, "checklines": ck, "config": cfg, "text": F.text_of(case["items"], D)[:600]})
    ctx.mon("bins.bins contract evaluations", contracts.EVALS["bins.bins"])
    ctx.mon("Attributes invariant evaluations", contracts.EVALS["Attributes.invariant"])


MANIFEST = {
    "technique": "reference-rendered files -> real create_db; per-line model comparison, reopen, re-import; SQL-trace conservation check",
    "text": "Each generated file is imported by the real create_db and every stored feature is compared with the input line "
            "it came from (columns, extra columns, attributes, printed form incl. byte identity under keep_order=True); the "
            "same comparison is repeated through a reopened FeatureDB and the printed features are re-imported and the two "
            "content dumps (read with plain sqlite3) compared. The statement trace of gffutils' own connection is checked "
            "for one INSERT per line and no UPDATE/DELETE of features. Held = no executed file disagreed.",
    "note": "Trusted: the reference renderer/voter (gvmon/models/dialect.py). Sparse files on which the reference vote does "
            "not recover the dialect are skipped (counted in evidence).",
}
