"""
C08  Attribute values survive print/parse losslessly; parsing never fails.

(a) mapping + supplied dialect -> real str(Feature) -> real feature_from_line(.., dialect) -> same mapping;
    icontract postcondition on the real parser._reconstruct (no TAB/CR/LF in gff3 output).
(b) totality: the real _split_keyvals / feature_from_line / str on every string over the structural
    alphabet up to a length bound (exhaustive), random strings beyond; inferred and supplied dialects.
"""
import itertools
import json
import os
import time
import unicodedata

from gvmon.gen import records as R
from gvmon.monitors import contracts

RULE = ("(a) mappings word-like key -> non-empty list of non-empty strings over arbitrary Unicode (structural characters, "
        "controls, DEL, NEL, LS, NBSP, astral, random code points) printed and re-parsed under each of 72 supplied dialect "
        "dictionaries (GTF-style: values free of ; \" , and control characters); non-trivial = mapping contains a reserved "
        "or whitespace character; (b) every string over the alphabet {; = SP \" , a % 1} up to length 6 (quick) / 9 "
        "(thorough) through the inferring parser, up to length 4 through every supplied dialect, random strings to length "
        "200; strings and gff3 values in which a '%' is followed by 0-3 characters that are digits or hex look-alikes in Unicode "
        "(every Nd digit of every script, No/Nl numerics, fullwidth/Cyrillic/Greek/mathematical A-F) mixed with real escapes; "
        "non-trivial = contains a structural character; distinct by mapping+dialect / by string")
REQUIRED = ["(a) round trips under a gff3 dialect with the leading-semicolon flag set", "(a) round trips with link-shaped values holding reserved characters",
            "(a) same text parsed again after the dialect object was edited in place", "(b) long-run strings parsed under a watchdog", "(a) round trips under a dialect whose flags are truthy/falsy non-bool values",
            "interludes with ignore_url_escape_characters switched on and restored", "(a) print/parse round trips", "(b) strings parsed (inferred)", "(b) strings parsed (supplied dialect)",
            "_reconstruct contract evaluations", "(b) strings with '%' followed by digit-like/hex-like Unicode characters parsed",
            "(a) round trips of values with '%' followed by digit-like/hex-like Unicode characters"]
ASSUMPTIONS = [
    "GFF3-style = dialect dictionaries with fmt 'gff3' (percent-encoding), key/value separator '=' or ' '; GTF-style = fmt 'gtf'",
    "'single line' is judged on LF/CR (what file iteration splits on); lone surrogates are excluded (not representable in files)",
    "dialect dictionaries with 'leading semicolon' set are not generated",
]
EXHAUSTIVE_NOTE = "(b) all strings over an 8-symbol structural alphabet up to the length bound"
QUICK_SHARDS = 4
ALPHABET = ";= \",a%1"

SPECIAL = ["\t", "\n", "\r", "%", ";", "=", "&", ",", '"', " ", "\x00", "\x01", "\x1f", "\x7f", "\x85", " ", " ",
           "\xa0", "　", "​", "\U0001F9EC", "\U00010000", "\U0010FFFF", "é", "漢", "́", "‮", "\\", "'",
           "%25", "%3B", "%09", "%zz", "%", "+", "\\\\", "\\\"", "\\n", "%41", "%20", "\x0b", "\x0c", "\x1c", "﻿"]
GTF_FORBIDDEN = set(';",') | {chr(i) for i in range(32)} | {chr(127)} | {chr(i) for i in range(0x80, 0xA0)}


# Characters that some notion of "digit" or "hex digit" accepts although they are not ASCII hex digits: every decimal digit
# of every script (category Nd), other numerics (No/Nl: superscripts, circled, roman), fullwidth and other look-alike
# letters A-F.  After a '%' none of them makes a percent-escape; the text is an attribute string like any other.
ND_DIGITS = "".join(chr(c) for c in range(0x80, 0x110000) if unicodedata.category(chr(c)) == "Nd")
OTHER_NUMERIC = "".join(chr(c) for c in range(0x80, 0x30000) if unicodedata.category(chr(c)) in ("No", "Nl"))
LOOKALIKE_HEX = ("".join(chr(0xFF21 + i) + chr(0xFF41 + i) for i in range(6))            # fullwidth A-F a-f
                 + "\u0410\u0412\u0421\u0415\u0430\u0441\u0435\u0391\u0392\u0395"              # Cyrillic/Greek look-alikes
                 + "".join(chr(0x1D400 + i) + chr(0x1D41A + i) for i in range(6)))          # mathematical bold A-F a-f
ASCII_HEX = "0123456789abcdefABCDEF"


def digitlike(rng):
    r = rng.random()
    if r < 0.5:
        return rng.choice(ND_DIGITS)
    if r < 0.7:
        return rng.choice(ASCII_HEX)
    if r < 0.82:
        return rng.choice(LOOKALIKE_HEX)
    if r < 0.94:
        return rng.choice(OTHER_NUMERIC)
    return rng.choice("gGxX%+- ") if rng.random() < 0.6 else chr(rng.choice([0xB2, 0x660, 0x6F0, 0x966, 0xFF10]) + rng.randrange(0, 2))


def percent_digitlike_text(rng):
    """Text holding one or more '%' each followed by 0-3 digit-like characters, alone or in a run with real escapes."""
    out = [rng.choice(["", "", "x", "50", "discount ", rng.choice(R.PLAIN)])]
    for _ in range(rng.choice([1, 1, 1, 2, 3])):
        r = rng.random()
        if r < 0.2:
            out.append(rng.choice(["%41", "%E2%82%AC", "%3B", "%25", "%c3%a9", "%FF", "%4"]))
        out.append("%" + "".join(digitlike(rng) for _ in range(rng.choice([0, 1, 2, 2, 2, 2, 3]))))
        if rng.random() < 0.3:
            out.append(rng.choice(["", " ", "b", ",", "%"]))
    out.append(rng.choice(["", "", " today", "z", "%"]))
    return "".join(out)


ATTR_SHAPES = ["%s", "Note=%s", "ID=g1;Note=%s", "ID=g1;Note=%s;Alias=x,y", "Note=a,%s,b", "%s=v", "ID=g1; Note=%s;",
               "Note %s", 'gene_id "g1"; note "%s";', "note %s; gene_id g1", "Note=%s;Note=b"]


def dialects():
    out = []
    for fmt, kv in (("gff3", "="), ("gff3", " "), ("gtf", " ")):
        for sep, trailing, repeated, quoted in itertools.product((";", "; ", " ; "), (False, True), (False, True), (False, True)):
            out.append({"leading semicolon": False, "trailing semicolon": trailing, "quoted GFF2 values": quoted,
                        "field separator": sep, "keyval separator": kv, "multival separator": ",", "fmt": fmt,
                        "repeated keys": repeated, "order": []})
    return out


def uvalue(rng, gtf):
    n = 1 + int(rng.expovariate(0.3))
    out = []
    for _ in range(min(n, 14)):
        r = rng.random()
        if r < 0.45:
            out.append(rng.choice(R.PLAIN))
        elif r < 0.85:
            out.append(rng.choice(SPECIAL))
        else:
            cp = rng.randrange(0, 0x110000)
            if 0xD800 <= cp <= 0xDFFF:
                cp = 0x41
            out.append(chr(cp))
    v = "".join(out)
    if gtf:
        v = "".join(c for c in v if c not in GTF_FORBIDDEN) or "v"
    return v


def mapping(rng, gtf):
    m = []
    used = []
    for _ in range(rng.randrange(1, 5)):
        k = R.key(rng, wordlike=False, used=used, ascii_only=True)   # the statement's keys: [A-Za-z_][A-Za-z0-9_.-]*
        used.append(k)
        m.append([k, [uvalue(rng, gtf) for _ in range(1 if rng.random() < 0.7 else rng.randrange(2, 4))]])
    return m


def switched_on_interlude(ctx):
    """Somebody else in this process prints and parses with constants.ignore_url_escape_characters switched on, then
    restores it.  Nothing is judged here (the statement is about the default); everything judged afterwards must still hold."""
    from gffutils import constants
    from gffutils.feature import Feature, feature_from_line

    constants.ignore_url_escape_characters = True
    try:
        f = Feature(seqid="chr1", source="s", featuretype="gene", start=1, end=2,
                    attributes={"Note": ["".join(R.RESERVED_LIST) + " %41", "a;b", "c,d"], "ID": ["x=y&z"]})
        line = str(f)
        for part in line.split("\n"):
            try:
                feature_from_line(part if part.count("\t") >= 8 else "chr1\t.\tgene\t1\t2\t.\t+\t.\tNote=a%3Bb%2Cc")
            except Exception:
                pass
    except Exception:
        pass
    finally:
        constants.ignore_url_escape_characters = False
    ctx.mon("interludes with ignore_url_escape_characters switched on and restored")


def setup(ctx):
    contracts.install_reconstruct()
    if ctx.shard % 2 == 1:
        # before any reserved character has been printed in this process
        switched_on_interlude(ctx)


# --- known finding F-C08-1 ----------------------------------------------------
def classify_trailing_ws(case, detail):
    """Unquoted key-blank-value dialect of fmt 'gtf': the last value of a part loses its trailing whitespace
    (str.strip's notion) on re-parse; an all-whitespace last value disappears.  Nothing else may differ."""
    if case.get("kind") != "roundtrip" or detail.get("why") != "re-parsed mapping differs":
        return False
    d = case["dialect"]
    if not (d["fmt"] == "gtf" and d["keyval separator"] == " " and not d["quoted GFF2 values"]):
        return False
    exp, got = detail["expected"], detail["got"]
    if [k for k, _ in exp] != [k for k, _ in got]:
        # keep_order=True may print the keys in another order; the key *set* must still agree
        if not case.get("keep_order") or sorted(k for k, _ in exp) != sorted(k for k, _ in got) or len(set(k for k, _ in exp)) != len(exp):
            return False
        gd = dict((k, v) for k, v in got)
        got = [[k, gd[k]] for k, _ in exp]
    explained = False
    for (k, ev), (_, gv) in zip(exp, got):
        if ev == gv:
            continue
        if d["repeated keys"] and len(ev) > 1:
            pred = [v.rstrip() for v in ev]          # every value is the end of its own part
        else:
            pred = ev[:-1] + [ev[-1].rstrip()]       # only the last value of the comma list ends the part
        # a part whose whole value text vanished parses as a valueless key
        if not d["repeated keys"] or len(ev) == 1:
            if ",".join(pred).strip() == "" :
                pred = []
        else:
            pred = [v for v in pred if v != ""]
        if pred != gv:
            return False
        explained = True
    return explained


KNOWN = {"F-C08-1": classify_trailing_ws}
CANONICAL = {"F-C08-1": {"kind": "roundtrip",
                         "dialect": {"leading semicolon": False, "trailing semicolon": False, "quoted GFF2 values": False,
                                     "field separator": ";", "keyval separator": " ", "multival separator": ",",
                                     "fmt": "gtf", "repeated keys": False, "order": []},
                         "mapping": [["note", ["ends with blank "]], ["gene_id", ["g1"]]], "extra": []}}


def execute(ctx, case):
    kind = case["kind"]
    if kind == "roundtrip":
        roundtrip(ctx, case)
    elif kind == "total":
        total(ctx, case["s"], case.get("dialect"), case)
    elif kind == "same_object":
        same_object(ctx, case)


def roundtrip(ctx, case):
    from gffutils.feature import Feature, feature_from_line

    d = case["dialect"]
    m = case["mapping"]
    extra = case.get("extra") or []
    attrs = {k: list(v) for k, v in m}
    try:
        f = Feature(seqid="chr1", source="s", featuretype="gene", start=10, end=20, score=".", strand="+", frame=".",
                    attributes=attrs, extra=list(extra), dialect=dict(d), keep_order=bool(case.get("keep_order")))
        line = str(f)
    except Exception as ex:
        ctx.violation(case, {"why": "printing raised %r" % (ex,)})
        return
    if line.count("\t") != 8 + len(extra) or "\n" in line or "\r" in line:
        ctx.violation(case, {"why": "printed Feature is not one line of nine (+extra) tab-separated columns", "printed": line})
        contracts.drain()
        return
    try:
        g = feature_from_line(line, dialect=dict(d))
    except Exception as ex:
        ctx.violation(case, {"why": "re-parsing raised %r" % (ex,), "printed": line})
        return
    ctx.mon("(a) print/parse round trips")
    cols = (g.seqid, g.source, g.featuretype, g.start, g.end, g.score, g.strand, g.frame, list(g.extra))
    if cols != ("chr1", "s", "gene", 10, 20, ".", "+", ".", list(extra)):
        ctx.violation(case, {"why": "re-parsed columns differ", "printed": line, "got": cols})
        return
    got = [[k, list(g.attributes[k])] for k in g.attributes.keys()]
    same = got == m
    if not same and case.get("keep_order"):
        # keep_order=True prints the keys in the dialect's order: the mapping is the same when keys and value lists agree
        same = len(got) == len(m) and dict((k, v) for k, v in got) == dict((k, v) for k, v in m)
    if not same:
        ctx.violation(case, {"why": "re-parsed mapping differs", "printed": line, "got": got, "expected": m})
        contracts.drain()
        return
    for v in contracts.drain():
        ctx.violation(case, v)


def same_object(ctx, case):
    """One dialect dictionary OBJECT whose content the caller edits in place between two parses of the same text: the
    second parse is what a fresh copy of the edited dictionary gives (parsing depends on what the dialect says, not on
    which object says it)."""
    from gffutils.feature import Feature, feature_from_line

    d_obj = dict(case["dialect"])
    attrs = {k: list(v) for k, v in case["mapping"]}
    try:
        line = str(Feature(seqid="chr1", source="s", featuretype="gene", start=10, end=20, score=".", strand="+", frame=".",
                           attributes=attrs, dialect=d_obj))
        first = feature_from_line(line, dialect=d_obj)
        [list(first.attributes[k]) for k in first.attributes.keys()]
        for k, v in case["edit"].items():
            d_obj[k] = v
        second = feature_from_line(line, dialect=d_obj)
        fresh = feature_from_line(line, dialect=dict(d_obj))
    except Exception as ex:
        ctx.violation(case, {"why": "parsing under a dialect object edited in place raised %r" % (ex,)})
        return
    ctx.mon("(a) same text parsed again after the dialect object was edited in place")
    a = [[k, list(second.attributes[k])] for k in second.attributes.keys()]
    b = [[k, list(fresh.attributes[k])] for k in fresh.attributes.keys()]
    if a != b:
        ctx.violation(case, {"why": "after the dialect dictionary was edited in place, parsing the same text with the same object "
                                    "differs from parsing it with a fresh copy of that dictionary", "printed": line,
                             "same_object": a, "fresh_copy": b, "edit": case["edit"]})
    contracts.drain()


_slowest = [0.0]


def total(ctx, s, d, case=None):
    from gffutils import parser
    from gffutils.feature import feature_from_line

    case = case or {"kind": "total", "s": s, "dialect": d}
    t = time.perf_counter()
    try:
        quals, dialect = parser._split_keyvals(s, dialect=dict(d) if d else None)
        ok = all(isinstance(k, str) and isinstance(v, list) and all(isinstance(x, str) for x in v)
                 for k, v in quals.items())
        if not ok:
            ctx.violation(case, {"why": "parse result is not a mapping str -> list of str",
                                 "got": [[k, quals[k]] for k in quals.keys()]})
            return
        f = feature_from_line("chr1\t.\tgene\t1\t2\t.\t+\t.\t" + s, dialect=dict(d) if d else None)
        for k in f.attributes.keys():
            v = f.attributes[k]
            if not isinstance(v, list) or not all(isinstance(x, str) for x in v):
                ctx.violation(case, {"why": "feature attribute value is not a list of str", "key": k, "value": repr(v)})
                return
        str(f)
    except Exception as ex:
        ctx.violation(case, {"why": "parsing/printing an arbitrary attribute string raised %r" % (ex,)})
        return
    dt = time.perf_counter() - t
    if dt > _slowest[0]:
        _slowest[0] = dt
    ctx.mon("(b) strings parsed (supplied dialect)" if d else "(b) strings parsed (inferred)")


def long_runs(ctx, rng, ds):
    """'Parsing terminates' for strings far beyond the exhaustive bound: long unbroken runs of word characters, of one
    repeated character, of separators and of quotes, where a backtracking pattern or a quadratic loop would show.  The
    strings are parsed in a child process under a generous watchdog (the work takes milliseconds); a string on which
    the child stops is tried again alone before anything is reported."""
    import subprocess
    import sys
    here = os.path.dirname(os.path.dirname(os.path.dirname(os.path.abspath(__file__))))
    items = []
    for L in (24, 25, 26, 30, 40, 64, 200, 1000, 5000):
        word = "".join(rng.choice("abcXYZ_019") for _ in range(L))
        for s in (word, word + " x", word + ";", word + '"', word + "=", word + "=v", "k=" + word, word + ".", word + "-a=b",
                  word + " " + word, 'k "' + word, word.replace("a", ".") + "=1", "a" * L, "a" * L + "!", "_" * L + " ",
                  ";" * L, '"' * L, "=" * L, " " * L + "k", ("ab=" * L)[:L], ("a;" * L)[:L], ("a," * L)[:L] + "=", "%" * L,
                  "k=" + "%4" * (L // 2), 'k "' + '\\"' * (L // 3) + '"', "k" + " " * L + "v", ("k v ; " * L)[:L]):
            items.append([s, None])
            if L <= 200:
                items.append([s, rng.choice(ds)])
    f = ctx.tmp(".strings.json")
    with open(f, "w") as fh:
        json.dump(items, fh)

    def child(path, timeout):
        env = dict(os.environ)
        p = subprocess.Popen([sys.executable, "-m", "gvmon.procs.c08_parse", path], cwd=here, env=env,
                             stdout=subprocess.PIPE, stderr=subprocess.PIPE, text=True)
        try:
            out, err = p.communicate(timeout=timeout)
            return "finished", out.split(), err
        except subprocess.TimeoutExpired:
            p.kill()
            out, err = p.communicate()
            return "timeout", out.split(), err
    def judge(tokens, its):
        """(index in progress or None, [(index, cpu_ms)]) from the child's output."""
        started, ended = None, []
        i = 0
        while i < len(tokens):
            if tokens[i] == "start":
                started = int(tokens[i + 1])
                i += 2
            elif tokens[i] == "end":
                ended.append((int(tokens[i + 1]), int(tokens[i + 2])))
                started = None
                i += 3
            else:
                i += 1
        return started, ended
    CPU_BOUND_MS = 10000     # the strings take well under 50 ms each; 10 s of CPU time is the stated bound of 'terminates'
    try:
        items.sort(key=lambda it: len(it[0]))
        with open(f, "w") as fh:
            json.dump(items, fh)
        status, tokens, err = child(f, 300)
        started, ended = judge(tokens, items)
        ctx.mon("(b) long-run strings parsed under a watchdog", len(ended))
        if ended:
            worst = max(ended, key=lambda e: e[1])
            ctx.monitors["max CPU ms for one long-run string"] = max(ctx.monitors.get("max CPU ms for one long-run string", 0), worst[1])
            if worst[1] > CPU_BOUND_MS:
                w = items[worst[0]]
                ctx.violation({"kind": "total", "s": w[0], "dialect": w[1]},
                              {"why": "parsing a %d-character attribute string took %d ms of CPU time (bound %d ms; such strings take "
                                      "milliseconds): parsing does not terminate in any useful sense" % (len(w[0]), worst[1], CPU_BOUND_MS),
                               "string_head": w[0][:80]})
                return
        if status == "finished" and tokens and tokens[-1] == "done":
            return
        at = started if started is not None else 0
        witness = items[at]
        case = {"kind": "total", "s": witness[0], "dialect": witness[1]}
        if status == "finished":
            # the child ended early: an exception on that string
            ctx.violation(case, {"why": "parsing/printing an arbitrary attribute string raised in the child process", "stderr": err[-600:]})
            return
        one = ctx.tmp(".one.json")
        with open(one, "w") as fh:
            json.dump([witness], fh)
        status2, tokens2, err2 = child(one, 120)
        os.unlink(one)
        _, ended2 = judge(tokens2, [witness])
        if status2 == "timeout" or (ended2 and ended2[0][1] > CPU_BOUND_MS):
            ctx.violation(case, {"why": "parsing did not terminate: a child process given only this %d-character string was still "
                                        "parsing it after 120 s (or used more than %d ms of CPU time)" % (len(witness[0]), CPU_BOUND_MS),
                                 "string_head": witness[0][:80]})
        else:
            from gvmon.run import Inconclusive
            raise Inconclusive("the long-run batch hit its 300 s watchdog at string %d but that string alone parsed in time" % at)
    finally:
        if os.path.exists(f):
            os.unlink(f)


def run(ctx):
    rng = ctx.rng
    ds = dialects()
    if ctx.shard == 0:
        long_runs(ctx, rng, ds)
    # (a) round trips
    for _ in range(ctx.budget(40000, 1600000)):
        if rng.random() < 0.0005:
            switched_on_interlude(ctx)
        d = rng.choice(ds)
        gtf = d["fmt"] == "gtf"
        m = mapping(rng, gtf)
        if rng.random() < 0.03:
            # a long value: hundreds of reserved characters in one value
            long_chars = list("\t\n\r%;=&,") if not gtf else list("%=&")
            m[rng.randrange(len(m))][1][0] = "".join(rng.choice(long_chars + ["a"]) for _ in range(rng.choice([255, 256, 257, 300, 700])))
        case = {"kind": "roundtrip", "dialect": d, "mapping": m,
                "extra": ["x y"] if rng.random() < 0.1 else [], "keep_order": rng.random() < 0.4}
        if d["fmt"] == "gff3" and rng.random() < 0.12:
            # a GFF3-style dialect that also says 'leading semicolon' (the printer never writes one; the flag must not
            # change how a GFF3 column is read)
            d = dict(d, **{"leading semicolon": True})
            case["dialect"] = d
            ctx.mon("(a) round trips under a gff3 dialect with the leading-semicolon flag set")
        if d["fmt"] != "gtf" and rng.random() < 0.06:
            # values that are links: text like any other, reserved characters inside them included
            kv = m[rng.randrange(len(m))]
            kv[1][0] = rng.choice(["http://", "https://", "ftp://"]) + "example.org/lookup?db=a" + rng.choice([";id=7", ",b", "&x=%41", "\tq", "\nq", ";", "=="]) + kv[1][0][:6]
            ctx.mon("(a) round trips with link-shaped values holding reserved characters")
        if rng.random() < 0.05:
            # the dialect's flags given as truthy / falsy values that are not the objects True and False
            t, f_ = rng.choice([(1, 0), ("yes", ""), (2.0, 0.0), ([1], [])])
            d = dict(d)
            for k in ("leading semicolon", "trailing semicolon", "quoted GFF2 values", "repeated keys"):
                d[k] = t if d[k] else f_
            case["dialect"] = d
            ctx.mon("(a) round trips under a dialect whose flags are truthy/falsy non-bool values")
        if case["keep_order"] and rng.random() < 0.5:
            d = dict(d, order=[k for k, _ in m][::2])
            case["dialect"] = d
        roundtrip(ctx, case)
        text = "".join("".join(v) for _, v in m)
        nontriv = any(c in R.RESERVED_LIST or c.isspace() or c == '"' for c in text)
        ctx.case((d, m), nontriv, sample=case, cls="roundtrip fmt=%s kv=%r quoted=%s" % (d["fmt"], d["keyval separator"], d["quoted GFF2 values"]))
    for _ in range(ctx.budget(1500, 60000)):
        d = rng.choice(ds)
        m = mapping(rng, d["fmt"] == "gtf")
        if rng.random() < 0.5:
            # values that mean something else under the edited dialect: literal quotes, separators of the other spelling
            m[0][1][0] = rng.choice(['"x"', 'a; b', 'a ;b', 'p=q', 'k v']) if d["fmt"] != "gtf" else rng.choice(["a=b", "x  y", "p q"])
        edit = rng.choice([{"quoted GFF2 values": not d["quoted GFF2 values"]}, {"repeated keys": not d["repeated keys"]},
                           {"field separator": rng.choice([x for x in (";", "; ", " ; ") if x != d["field separator"]])},
                           {"trailing semicolon": not d["trailing semicolon"]},
                           {"keyval separator": "=" if d["keyval separator"] == " " else " ", "fmt": "gff3"}])
        case = {"kind": "same_object", "dialect": d, "mapping": m, "edit": edit}
        same_object(ctx, case)
        ctx.case(("same_object", d, m, sorted(edit.items())), True, cls="dialect object edited in place")
    # every reserved/special character alone, at the ends and in the middle, under every dialect
    for i, (d, ch) in enumerate(itertools.product(ds, SPECIAL + [chr(c) for c in range(32)])):
        if not ctx.mine(i):
            continue
        if d["fmt"] == "gtf" and any(c in GTF_FORBIDDEN for c in ch):
            continue
        m = [["ID", [ch]], ["Note", ["a" + ch + "b", ch + "x", "y" + ch]], ["k.e-y", ["z" + ch]]]
        case = {"kind": "roundtrip", "dialect": d, "mapping": m, "extra": []}
        roundtrip(ctx, case)
        ctx.case((d, m), True, cls="special character placements")
    # (b) exhaustive totality, inferred dialect
    maxlen = 6 if ctx.tier == "quick" else 9
    i = 0
    n = nt = 0
    for L in range(0, maxlen + 1):
        for tup in itertools.product(ALPHABET, repeat=L):
            i += 1
            if not ctx.mine(i):
                continue
            s = "".join(tup)
            total(ctx, s, None)
            n += 1
            if any(c in ';= ",%' for c in s):
                nt += 1
    # (b) exhaustive to length 4 under every supplied dialect
    for L in range(0, 5 if ctx.tier == "quick" else 6):
        for tup in itertools.product(ALPHABET, repeat=L):
            s = "".join(tup)
            for d in ds:
                i += 1
                if not ctx.mine(i):
                    continue
                total(ctx, s, d)
                n += 1
    ctx.case_enum(n, nt, sample={"kind": "total", "s": ';a="1, %;', "dialect": None})
    # (b) random strings
    for _ in range(ctx.budget(20000, 1600000)):
        L = rng.randrange(0, 200) if rng.random() < 0.3 else rng.randrange(0, 30)
        pool = ALPHABET * 3 + "".join(SPECIAL)
        s = "".join(rng.choice(pool) for _ in range(L))
        d = rng.choice(ds) if rng.random() < 0.5 else None
        case = {"kind": "total", "s": s, "dialect": d}
        total(ctx, s, d, case)
        ctx.case((s, d), any(c in ';= ",%' for c in s), cls="random string")
    # (b)/(a) a '%' followed by characters that are digits (or look like hex digits) in Unicode but are not ASCII hex digits
    gff3 = [d for d in ds if d["fmt"] == "gff3"]
    for _ in range(ctx.budget(4000, 160000)):
        t = percent_digitlike_text(rng)
        if rng.random() < 0.75:
            s = rng.choice(ATTR_SHAPES) % t
            d = rng.choice(ds) if rng.random() < 0.5 else None
            case = {"kind": "total", "s": s, "dialect": d}
            total(ctx, s, d, case)
            ctx.mon("(b) strings with '%' followed by digit-like/hex-like Unicode characters parsed")
            ctx.case((s, d), True, cls="percent followed by digit-like Unicode characters (totality)")
        else:
            # the _reconstruct contract speaks about printed mappings of (a); whatever it recorded while (b) printed the
            # parse of an arbitrary string (keys holding line breaks, outside the statement's word-like keys) is not judged
            contracts.drain()
            d = rng.choice(gff3)
            m = [["ID", ["g1"]], ["Note", [t] if rng.random() < 0.6 else [t, percent_digitlike_text(rng)]]]
            case = {"kind": "roundtrip", "dialect": d, "mapping": m, "extra": []}
            roundtrip(ctx, case)
            ctx.mon("(a) round trips of values with '%' followed by digit-like/hex-like Unicode characters")
            ctx.case((d, m), True, cls="percent followed by digit-like Unicode characters (round trip)")
    ctx.mon("_reconstruct contract evaluations", contracts.EVALS["parser._reconstruct"])
    ctx.note("slowest single parse+print call: %.4fs (bounded-progress watchdog 5s)" % _slowest[0])
    if _slowest[0] > 5.0:
        from gvmon.run import Inconclusive
        raise Inconclusive("a parse call took %.1fs (> 5s watchdog)" % _slowest[0])


MANIFEST = {
    "technique": "print->parse round trip of generated mappings under supplied dialects; exhaustive/random totality of the parser; icontract on _reconstruct",
    "text": "(a) generated Unicode mappings are printed by the real Feature and re-parsed by the real parser under each of 72 "
            "supplied dialect dictionaries; the monitor checks the one-line/nine-column shape and equality of columns and "
            "mapping. (b) the real parser and printer are run on every string over an 8-symbol structural alphabet up to a "
            "length bound and on random strings; any exception, non-list/non-str value or a call exceeding the 5 s progress "
            "bound is reported. Termination is restated as bounded progress per call.",
    "note": "Trusted: the harness' notion of GFF3-style/GTF-style dialect dictionaries. Known finding F-C08-1 (unquoted "
            "GTF-style dialects lose a value's trailing whitespace) is classified by mechanism and reported as KNOWN-FINDING.",
}
